"""C03 — IR -> proto -> IR preserves the model; serialization has no side effects.

PART 1 of this module (up to the marker `# ==== C03 check`) is the converter layer shared with C17
(harness/props/c17.py imports it): interning of strings, canonical keys of leaf payloads, ONNX proto ->
Gallina `mproto` term, Python IR -> canonical observation (`Canon.obs`) and Python IR -> Gallina heap.
PART 2 is the C03 check itself (see the log `C03_LOG` at the top of PART 2): IR models are built from JSON recipes
through the public API (construction + edit history, several tensor implementations, nested graphs capturing outer
values, functions), serialized twice and read back; the property oracle (snapshots of every public accessor around
to_proto, proto equality, an independent isomorphism check) runs on every case, and Coq evaluates per case the
agreement of Model.ser_model / deser_model with the code, the statement of C03_iso and the agreement of
Iso.serializable_b with its Python restatement.  Level: translation_validation (C03_iso is not proved).

Model: coq/theories/C03/Model.v (protos, IR heap, constructors, deser_*, ser_*), C03/Canon.v (canonical
observations).  Names are tokens (0 = ""), leaf payloads (tensor contents, type+shape+doc+metadata of a
value, plain attributes, doc/metadata of nodes and graphs, model header) are opaque tokens computed HERE
by running the library's leaf (de)serializers on the leaf in isolation: modelled, not verified (C02/C04).
"""

from __future__ import annotations

import json
import os

from harness import common
from harness.common import REPO, clist

# --------------------------------------------------------------------------- interning / keys


class Interner:
    """Strings/keys -> small naturals; 0 is reserved for the empty name / the empty payload."""

    def __init__(self):
        self.tab: dict = {}
        self.nonstr = False
        self.norm: dict = {}          # payload token -> payload token after a leaf serialize/deserialize round trip
        self.norm_failed = False
        self.pay_objs: dict = {}      # payload token -> (type, shape, metadata, doc)

    def fill_entries(self, tensor, tensor_pay: int, vpays) -> str:
        """Model.tp_fill / t_fill: how serde._deserialize_graph completes a value_info payload of an
        initializer with the tensor's dtype/shape (only the entries that differ from Model.fill_pay's default)."""
        import onnx_ir as ir
        out = {}
        for vp in vpays:
            typ, shape, meta, doc = self.pay_objs.get(vp, (None, None, None, None))
            try:
                typ2 = typ if typ is not None else ir.TensorType(tensor.dtype)
                shape2 = shape if shape is not None else tensor.shape
                r = self.pay_tok(typ2, shape2, meta, doc)
            except Exception:  # noqa: BLE001
                continue
            default = tensor_pay if vp == 0 else vp
            if r != default:
                out[vp] = r
        return clist(f"({a}%N, {b}%N)" for a, b in sorted(out.items()))

    def pay_tok(self, type_, shape, metadata, doc, _depth=0) -> int:
        """Token of a value payload; records how the leaf serializer normalises it (Model.norm_pay)."""
        tok = self.tok(payload_key(type_, shape, metadata, doc))
        if tok:
            self.pay_objs.setdefault(tok, (type_, shape, metadata, doc))
        if tok and tok not in self.norm and _depth < 4:
            import onnx_ir as ir
            from onnx_ir import serde
            try:
                v = ir.Value(name="x", type=type_, shape=shape, doc_string=doc,
                             metadata_props=dict(metadata) if metadata else None)
                vp = serde.serialize_value(v)
                self.norm[tok] = tok          # guard against cycles
                self.norm[tok] = self.pay_tok(serde.deserialize_type_proto_for_type(vp.type),
                                              serde.deserialize_type_proto_for_shape(vp.type),
                                              serde.deserialize_metadata_props(vp.metadata_props),
                                              vp.doc_string if vp.HasField("doc_string") else None, _depth + 1)
            except Exception:  # noqa: BLE001
                self.norm_failed = True
        return tok

    def norm_table(self) -> str:
        return clist(f"({a}%N, {b}%N)" for a, b in sorted(self.norm.items()) if a != b)

    def tok(self, key) -> int:
        if isinstance(key, bytes):
            self.nonstr = True          # protobuf hands out bytes for a string field holding invalid UTF-8
        if key is None or key == "" or key == b"":
            return 0
        k = repr(key)
        if k not in self.tab:
            self.tab[k] = len(self.tab) + 1
        return self.tab[k]


def cNtok(n: int) -> str:
    return f"{n}%N"


def type_key(t):
    if t is None:
        return None
    from onnx_ir import _core
    d = getattr(t, "denotation", None) or ""
    if isinstance(t, (_core.TensorType, _core.SparseTensorType)):
        return (type(t).__name__, int(t.dtype), d)
    return (type(t).__name__, type_key(t.elem_type), d)


def shape_key(s):
    if s is None:
        return None
    dims = []
    for i, d in enumerate(s.dims):
        dims.append((d if isinstance(d, int) else ("sym", d.value), s.get_denotation(i) or ""))
    return tuple(dims)


def payload_key(type_, shape, metadata, doc):
    """None exactly when serde._should_create_value_info_for_value finds nothing to serialize."""
    if shape is None and type_ is None and not metadata and not doc:
        return None
    return ("pay", type_key(type_), shape_key(shape), tuple(sorted((metadata or {}).items())), doc or "")


def value_payload_key(v):
    return payload_key(v.type, v.shape, v._metadata_props, v.doc_string)  # noqa: SLF001 (avoid creating the dict)


def value_pay_tok(it, v) -> int:
    return it.pay_tok(v.type, v.shape, v._metadata_props, v.doc_string)  # noqa: SLF001


def tensor_key(t):
    """Content key of an IR tensor, computed without touching the file system (name excluded)."""
    import onnx_ir as ir
    from onnx_ir import serde
    meta = tuple(sorted((t.metadata_props or {}).items()))
    if isinstance(t, serde.TensorProtoTensor):
        import onnx
        p = onnx.TensorProto()
        p.CopyFrom(t.raw)
        p.ClearField("name")
        del p.metadata_props[:]
        return ("tp", p.SerializeToString(deterministic=True), meta)
    if isinstance(t, ir.ExternalTensor):
        return ("ext", os.fspath(t.location), t.offset, t.length, int(t.dtype), shape_key(t.shape),
                t.doc_string or "", meta)
    if isinstance(t, ir.StringTensor):
        return ("str", tuple(bytes(x) for x in t.string_data()), shape_key(t.shape), t.doc_string or "", meta)
    # other implementations (Tensor, LazyTensor, PackedTensor): dtype, shape and bytes
    return ("mem", int(t.dtype), shape_key(t.shape), t.tobytes(), t.doc_string or "", meta)


def logical_tensor_bytes(t):
    """(numpy dtype, shape, row-major little-endian bytes of the elements) through t.numpy(), independent of
    Tensor.tobytes(); None when the tensor has no comparable numpy view (strings, external data, errors)."""
    import numpy as np
    import onnx_ir as ir
    if isinstance(t, (ir.ExternalTensor, ir.StringTensor)) or int(t.dtype) == 8:
        return None
    try:
        a = np.ascontiguousarray(t.numpy())
        if a.dtype.byteorder == ">":
            a = a.astype(a.dtype.newbyteorder("<"))
        return (str(a.dtype), tuple(a.shape), a.tobytes())
    except Exception:  # noqa: BLE001
        return None


def tensor_key_serialized(t):
    """Key of the tensor as it will look after one serialization round trip (leaf level)."""
    from onnx_ir import serde
    rt = serde.deserialize_tensor(serde.serialize_tensor(t))
    k = tensor_key(rt)
    # The content goes through the serializer under test: check it independently against the LOGICAL (row-major)
    # elements of the IR tensor; when they differ (e.g. a non-C-contiguous backing array dumped in memory order) the
    # key is one no proto-side key can equal, so the model disagrees with the code on that case.
    lb = logical_tensor_bytes(t)
    if lb is not None and lb != logical_tensor_bytes(rt):
        return ("logical-content", int(t.dtype), shape_key(t.shape), lb[2], t.doc_string or "",
                tuple(sorted((t.metadata_props or {}).items())))
    # the CONTENT is keyed in its serialized form (leaf level, C02/C04); the metadata is what the IR object says
    # now, so that a serializer re-emitting stale metadata of a proto-backed tensor disagrees with the model
    return k[:-1] + (tuple(sorted((t.metadata_props or {}).items())),)


def attr_key(a, tensor_key_fn=None):
    """Key of a non-graph IR attribute (tensor_key_fn: how tensor-valued attributes are keyed; default tensor_key)."""
    tensor_key_fn = tensor_key_fn or tensor_key
    import onnx_ir as ir
    T = ir.AttributeType
    doc = a.doc_string or ""
    if a.is_ref():
        return ("ref", int(a.type), a.ref_attr_name, doc)
    v = a.value
    if a.type == T.TENSOR:
        vk = tensor_key_fn(v)
    elif a.type == T.TENSORS:
        vk = tuple(tensor_key_fn(x) for x in v)
    elif a.type == T.TYPE_PROTO:
        vk = (type_key(v.type), shape_key(v.shape))
    elif a.type == T.TYPE_PROTOS:
        vk = tuple((type_key(x.type), shape_key(x.shape)) for x in v)
    elif a.type in (T.FLOAT,):
        import struct
        vk = struct.pack("<f", v) if v == v else "nan"
    elif a.type in (T.FLOATS,):
        import struct
        vk = tuple(struct.pack("<f", x) if x == x else "nan" for x in v)
    elif a.type == T.STRING and isinstance(v, (bytes, bytearray)):
        # a byte blob that is valid UTF-8 IS the text it encodes at this level (the reader hands it back as str; the
        # oracle IsoCheck.attr checks exactly that rule on the real objects); an undecodable blob stays bytes
        try:
            vk = repr(bytes(v).decode("utf-8"))
        except UnicodeDecodeError:
            vk = repr(bytes(v))
    else:
        vk = repr(v)
    return ("attr", int(a.type), vk, doc)


def attr_ser_bad(a) -> bool:
    """Does the leaf serializer reject this (non-graph) attribute?"""
    from onnx_ir import serde
    try:
        serde.serialize_attribute(a) if not a.is_ref() else serde.serialize_reference_attribute(a)
        return False
    except Exception:  # noqa: BLE001
        return True


def meta_key(doc, metadata):
    if not doc and not metadata:
        return None
    return ("meta", doc or "", tuple(sorted((metadata or {}).items())))


MULTI_DEVICE_IR_VERSION = 11      # serde._MULTI_DEVICE_SUPPORTED_VERSION: below it to_proto drops device configurations


def _sdim_key(d):
    return ("i", int(d)) if isinstance(d, int) else ("s", d.value)


def node_devcfg_key(cfgs):
    """Canonical key of Node.device_configurations (IR-level objects).  Values and model configurations are
    referred to by NAME (tokens cannot carry identities); pipeline stage None and 0 are distinct."""
    out = []
    for c in cfgs:
        specs = []
        for sp in c.sharding_specs:
            specs.append((None if sp.value is None else sp.value.name, tuple(sp.device),
                          tuple((e.key, tuple(e.value)) for e in sp.index_to_device_group_map),
                          tuple((d.axis, tuple((_sdim_key(x.dim), x.num_shards) for x in d.simple_shardings))
                                for d in sp.sharded_dims)))
        out.append((None if c.configuration is None else c.configuration.name,
                    None if c.pipeline_stage is None else ("stage", int(c.pipeline_stage)), tuple(specs)))
    return tuple(out)


def model_devcfg_key(cfgs):
    return tuple((c.name, c.num_devices, tuple(c.device_names)) for c in cfgs)


def normalize_domain(d):
    return "" if d == "ai.onnx" else d


# --------------------------------------------------------------------------- ONNX proto -> Gallina term


def has_nonstr(msg) -> bool:
    """protobuf hands out `bytes` for a proto2 string field that holds invalid UTF-8 (byte-level mutations):
    the library's behaviour on such names is type-driven (TypeError in some containers), not modelled."""
    from google.protobuf.descriptor import FieldDescriptor as FD
    for fd, val in msg.ListFields():
        if fd.type == FD.TYPE_STRING:
            vals = [val] if isinstance(val, (str, bytes)) else list(val)
            if any(isinstance(x, bytes) for x in vals):
                return True
        elif fd.type == FD.TYPE_MESSAGE:
            if fd.message_type.GetOptions().map_entry:
                continue
            vals = [val] if hasattr(val, "ListFields") else list(val)
            if any(has_nonstr(x) for x in vals):
                return True
    return False


class Unmodelled(Exception):
    """The proto uses a feature the structural model leaves out (the oracle still runs on it)."""


class ProtoConv:
    """ModelProto -> `mproto` term.  Leaf payloads go through the library's leaf deserializers."""

    def __init__(self, it: Interner):
        self.it = it
        self.unmodelled: list[str] = []
        self.old = False
        self.ir_version = None        # set by model(): device configurations are part of the tokens from IR 11 on

    # leaves
    def vinfo(self, p) -> str:
        pay, bad = self.vinfo_tok(p)
        return f"(mkVI {cNtok(self.it.tok(p.name))} {cNtok(pay)} {common.cbool(bad)})"

    def vinfo_tok(self, p):
        from onnx_ir import serde
        bad, pay = False, 0
        try:
            shape = serde.deserialize_type_proto_for_shape(p.type)
            typ = serde.deserialize_type_proto_for_type(p.type)
            meta = serde.deserialize_metadata_props(p.metadata_props)
            doc = p.doc_string if p.HasField("doc_string") else None
            pay = self.it.pay_tok(typ, shape, meta, doc)
        except Exception:  # noqa: BLE001
            bad = True
        return pay, bad

    def tensor(self, p, vis=()) -> str:
        import onnx_ir as ir
        from onnx_ir import serde
        name, tok, pay, bad_ctor, bad_info, fill = 0, 0, 0, False, False, "[]"
        try:
            t = serde.deserialize_tensor(p)
            name = self.it.tok(t.name or "")
            tok = self.it.tok(tensor_key(t))
            try:
                pay = self.it.pay_tok(ir.TensorType(t.dtype), t.shape, None, None)
                if t.name:
                    vpays = [vp for vp, vbad in (self.vinfo_tok(i) for i in vis if i.name == t.name) if not vbad]
                    fill = self.it.fill_entries(t, pay, vpays)
            except Exception:  # noqa: BLE001
                bad_info = True
        except Exception:  # noqa: BLE001
            bad_ctor = True
        return (f"(mkTP {cNtok(name)} {cNtok(tok)} {cNtok(pay)} {common.cbool(bad_ctor)} "
                f"{common.cbool(bad_info)} {fill})")

    def attr(self, p) -> str:
        import onnx
        from onnx_ir import serde
        k = cNtok(self.it.tok(p.name))
        A = onnx.AttributeProto
        is_ref = p.HasField("ref_attr_name") and bool(p.ref_attr_name)
        if not is_ref and p.type == A.GRAPH:
            return f"(AGraph {k} {self.graph(p.g)})"
        if not is_ref and p.type == A.GRAPHS:
            gs = "GNil"
            for g in reversed(p.graphs):
                gs = f"(GCons {self.graph(g)} {gs})"
            return f"(AGraphs {k} {gs})"
        try:
            a = serde._deserialize_attribute(p, [])  # noqa: SLF001
        except Exception:  # noqa: BLE001
            return f"(APlain {k} 0%N true false)"
        return f"(APlain {k} {cNtok(self.it.tok(attr_key(a)))} false {common.cbool(attr_ser_bad(a))})"

    def node(self, p) -> str:
        op = self.it.tok(("op", normalize_domain(p.domain), p.op_type, getattr(p, "overload", "")))
        from onnx_ir import serde
        mk = meta_key(p.doc_string if p.HasField("doc_string") else None,
                      serde.deserialize_metadata_props(p.metadata_props))
        if len(getattr(p, "device_configurations", ())):
            if self.ir_version is not None and self.ir_version < MULTI_DEVICE_IR_VERSION:
                # read by from_proto but never written back by to_proto below IR 11: left out of the model
                self.unmodelled.append("node.device_configurations below IR 11")
            else:
                if any(not d.configuration_id or any(not sp.tensor_name for sp in d.sharding_spec)
                       for d in p.device_configurations):
                    # the leaf serializer rejects a configuration without id / a spec without tensor (not modelled)
                    self.unmodelled.append("node.device_configurations without configuration_id / tensor_name")
                try:
                    mk = ("meta+dev", mk, node_devcfg_key(
                        [serde.deserialize_node_device_configuration(d) for d in p.device_configurations]))
                except Exception:  # noqa: BLE001
                    self.unmodelled.append("node.device_configurations (leaf deserialization failed)")
        ntok = self.it.tok(mk)
        attrs = "ANil"
        for a in reversed(p.attribute):
            attrs = f"(ACons {self.attr(a)} {attrs})"
        return (f"(Np {cNtok(self.it.tok(p.name))} {cNtok(op)} {cNtok(ntok)} "
                f"{clist(cNtok(self.it.tok(x)) for x in p.input)} {clist(cNtok(self.it.tok(x)) for x in p.output)} {attrs})")

    def nodes(self, ps) -> str:
        out = "NNil"
        for n in reversed(ps):
            out = f"(NCons {self.node(n)} {out})"
        return out

    def graph(self, p) -> str:
        from onnx_ir import serde
        if len(p.quantization_annotation):
            self.unmodelled.append("graph.quantization_annotation")
        gtok = self.it.tok(meta_key(p.doc_string if p.HasField("doc_string") else None,
                                    serde.deserialize_metadata_props(p.metadata_props)))
        gname = self.it.tok(p.name if p.HasField("name") else "")
        # value info applied to the same value more than once merges metadata instead of overwriting
        names_with_meta = [i.name for i in list(p.input) + list(p.output) + list(p.value_info) if len(i.metadata_props)]
        if names_with_meta:
            allnames = [i.name for i in list(p.input) + list(p.output) + list(p.value_info)]
            if any(allnames.count(n) > 1 for n in names_with_meta):
                self.unmodelled.append("value_info metadata merge")
        return (f"(Gp {cNtok(gname)} {cNtok(gtok)} {clist(self.vinfo(i) for i in p.input)} "
                f"{clist(self.vinfo(i) for i in p.output)} {clist(self.tensor(t, p.value_info) for t in p.initializer)} "
                f"{clist(self.vinfo(i) for i in p.value_info)} {self.nodes(p.node)})")

    def function(self, p) -> str:
        from onnx_ir import serde
        fid = self.it.tok(("fn", p.domain, p.name, getattr(p, "overload", "")))
        bad = False
        akeys = {}
        try:
            for a in p.attribute_proto:
                akeys[a.name] = attr_key(serde._deserialize_attribute(a, []))  # noqa: SLF001
            for n in p.attribute:
                akeys[n] = ("undef",)
        except Exception:  # noqa: BLE001
            bad = True
        ftok = self.it.tok(("f", p.doc_string if p.HasField("doc_string") else "",
                            tuple({o.domain: o.version for o in p.opset_import}.items()),
                            tuple(sorted((serde.deserialize_metadata_props(p.metadata_props) or {}).items())),
                            tuple(sorted(akeys.items()))))      # a function's attributes are a name -> default mapping
        return (f"(mkFP {cNtok(fid)} {cNtok(ftok)} {clist(cNtok(self.it.tok(x)) for x in p.input)} "
                f"{clist(cNtok(self.it.tok(x)) for x in p.output)} "
                f"{clist(self.vinfo(i) for i in getattr(p, 'value_info', []))} {self.nodes(p.node)} {common.cbool(bad)})")

    def model(self, p) -> str:
        from onnx_ir import serde
        if len(p.functions) and p.ir_version < 10:
            self.old = True       # the IR<10 experimental function value-info format: C03/ModelOld.v (tables: exp_tables)
        self.ir_version = p.ir_version
        if has_nonstr(p):
            self.unmodelled.append("string field holding invalid UTF-8 (bytes)")
        mkey = model_header_key(
            p.ir_version, {o.domain: o.version for o in p.opset_import},
            p.producer_name, p.producer_version, p.domain, p.model_version, p.doc_string,
            serde.deserialize_metadata_props(p.metadata_props))
        if len(getattr(p, "configuration", ())):
            if p.ir_version < MULTI_DEVICE_IR_VERSION:
                self.unmodelled.append("model.configuration below IR 11")
            else:
                mkey = ("m+dev", mkey, model_devcfg_key([serde.deserialize_model_configuration(c) for c in p.configuration]))
        mtok = self.it.tok(mkey)
        return f"(mkMP {cNtok(mtok)} {self.graph(p.graph)} {clist(self.function(f) for f in p.functions)})"


def model_header_key(ir_version, opsets, producer_name, producer_version, domain, model_version, doc, metadata):
    return ("m", ir_version, tuple(opsets.items()), producer_name or "", producer_version or "", domain or "",
            model_version or 0, doc or "", tuple(sorted((metadata or {}).items())))


# --------------------------------------------------------------------------- Python IR -> observation / heap


def _z(n: int) -> str:
    return f"(L ({n}))" if n < 0 else f"(L {n})"


def _t(items) -> str:
    return "(T [" + "; ".join(items) + "])"


class IRWalk:
    """First-visit traversal of an IR model through public accessors (same order as Canon.reach)."""

    def __init__(self, model):
        self.model = model
        self.values, self.nodes, self.graphs = [], [], []
        self.vi, self.ni, self.gi = {}, {}, {}
        self.fn_graphs = set()
        self._visit_graph(model.graph)
        for f in model.functions.values():
            self.fn_graphs.add(id(f.graph))
            self._visit_graph(f.graph)

    def _see_v(self, v):
        if id(v) not in self.vi:
            self.vi[id(v)] = len(self.values)
            self.values.append(v)

    def _visit_graph(self, g):
        import onnx_ir as ir
        if id(g) in self.gi:
            return
        self.gi[id(g)] = len(self.graphs)
        self.graphs.append(g)
        for v in g.inputs:
            self._see_v(v)
        for v in g.initializers.values():
            self._see_v(v)
        for n in g:
            if id(n) not in self.ni:
                self.ni[id(n)] = len(self.nodes)
                self.nodes.append(n)
            for v in n.inputs:
                if v is not None:
                    self._see_v(v)
            for v in n.outputs:
                self._see_v(v)
            for a in n.attributes.values():
                if a.is_ref():
                    continue
                if a.type == ir.AttributeType.GRAPH:
                    self._visit_graph(a.value)
                elif a.type == ir.AttributeType.GRAPHS:
                    for sg in a.value:
                        self._visit_graph(sg)
        for v in g.outputs:
            self._see_v(v)

    # labels: -1 = None, -2 = object outside the traversal
    def lv(self, v):
        return -1 if v is None else self.vi.get(id(v), -2)

    def ln(self, n):
        return -1 if n is None else self.ni.get(id(n), -2)

    def lg(self, g):
        return -1 if g is None else self.gi.get(id(g), -2)


def _name_tok(it, s):
    return -1 if s is None else it.tok(s)


def node_tok(it, n, ir_version=None):
    """doc + metadata (+ the node's device configurations when the model's IR version carries them)."""
    mk = meta_key(n.doc_string, n._metadata_props)  # noqa: SLF001
    if n.device_configurations and (ir_version is None or ir_version >= MULTI_DEVICE_IR_VERSION):
        mk = ("meta+dev", mk, node_devcfg_key(n.device_configurations))
    return it.tok(mk)


def node_op_tok(it, n):
    return it.tok(("op", n.domain, n.op_type, n.overload))


def ir_attr_entry(it, a, tensor_key_fn=None):
    """('plain', tok) | ('graph', Graph) | ('graphs', [Graph])"""
    import onnx_ir as ir
    if not a.is_ref() and a.type == ir.AttributeType.GRAPH:
        return ("graph", a.value)
    if not a.is_ref() and a.type == ir.AttributeType.GRAPHS:
        return ("graphs", list(a.value))
    return ("plain", it.tok(attr_key(a, tensor_key_fn)))


def function_tok(it, f):
    akeys = {}
    for k, a in f.attributes.items():
        akeys[k] = ("undef",) if a.value is None and not a.is_ref() else attr_key(a)
    return it.tok(("f", f.doc_string or "", tuple(f.opset_imports.items()),
                   tuple(sorted((f._graph._metadata_props or {}).items())), tuple(sorted(akeys.items()))))  # noqa: SLF001


def model_tok(it, m):
    mkey = model_header_key(m.ir_version, m.graph.opset_imports, m.producer_name, m.producer_version,
                            m.domain, m.model_version, m.doc_string, m._metadata_props)  # noqa: SLF001
    if m.device_configurations and m.ir_version >= MULTI_DEVICE_IR_VERSION:
        mkey = ("m+dev", mkey, model_devcfg_key(m.device_configurations))
    return it.tok(mkey)


def ir_obs(model, it: Interner, tensor_key_fn=tensor_key) -> str:
    """Canonical observation of an IR model as a `Canon.obs` term (mirrors Canon.canon)."""
    w = IRWalk(model)
    vals = []
    for v in w.values:
        p = v.producer()
        c = v.const_value
        vals.append(_t([
            _z(_name_tok(it, v.name)),
            _t([]) if p is None else _t([_z(w.ln(p)), _z(v.index() if v.index() is not None else -1)]),
            _t(_t([_z(w.ln(u.node)), _z(u.idx)]) for u in v.uses()),
            _z(w.lg(v.graph)),
            _z(int(v.is_graph_input())), _z(int(v.is_graph_output())), _z(int(v.is_initializer())),
            _t([]) if c is None else _t([_z(_name_tok(it, c.name)), _z(it.tok(tensor_key_fn(c)))]),
            _z(value_pay_tok(it, v)),
        ]))
    nodes = []
    for n in w.nodes:
        attrs = []
        for k, a in n.attributes.items():
            kind, x = ir_attr_entry(it, a, tensor_key_fn)
            if kind == "plain":
                attrs.append(_t([_z(it.tok(k)), _z(0), _z(x)]))
            elif kind == "graph":
                attrs.append(_t([_z(it.tok(k)), _z(1), _z(w.lg(x))]))
            else:
                attrs.append(_t([_z(it.tok(k)), _z(2), _t(_z(w.lg(g)) for g in x)]))
        nodes.append(_t([
            _z(_name_tok(it, n.name)), _z(node_op_tok(it, n)), _z(node_tok(it, n, model.ir_version)),
            _t(_z(w.lv(v)) for v in n.inputs), _t(_z(w.lv(v)) for v in n.outputs), _t(attrs), _z(w.lg(n.graph))]))
    graphs = []
    for g in w.graphs:
        fn = id(g) in w.fn_graphs
        graphs.append(_t([
            _z(0 if fn else it.tok(g.name or "")),
            _z(0 if fn else it.tok(meta_key(g.doc_string, g._metadata_props))),  # noqa: SLF001
            _t(_z(w.lv(v)) for v in g.inputs), _t(_z(w.lv(v)) for v in g.outputs),
            _t(_t([_z(it.tok(k)), _z(w.lv(v))]) for k, v in g.initializers.items()),
            _t(_z(w.ln(n)) for n in g)]))
    funcs = [_t([_z(it.tok(("fn", f.domain, f.name, f.overload))), _z(function_tok(it, f)), _z(w.lg(f.graph))])
             for f in model.functions.values()]
    return _t([_z(model_tok(it, model)), _z(w.lg(model.graph)), _t(funcs), _t(vals), _t(nodes), _t(graphs)])


def copt_nat(x) -> str:
    return "None" if x is None or x < 0 else f"(Some {x}%nat)"


def copt_name(it, s) -> str:
    return "None" if s is None else f"(Some {cNtok(it.tok(s))})"


def ir_heap(model, it: Interner, tensor_key_fn=tensor_key) -> tuple[str, str, IRWalk]:
    """Python IR -> (`heap` term, `model` term): object labels of the traversal are the heap addresses.
    Objects outside the traversal (a consumer node that is in no reachable graph, ...) make the model
    `Unmodelled` for the heap-based C03 prediction."""
    w = IRWalk(model)
    tensors, tix = [], {}
    vals = []
    for v in w.values:
        p = v.producer()
        c = v.const_value
        ct = None
        if c is not None:
            if id(c) not in tix:
                tix[id(c)] = len(tensors)
                tensors.append(c)
            ct = tix[id(c)]
        uses = []
        for u in v.uses():
            if w.ln(u.node) < 0:
                raise Unmodelled("value used by a node outside the model")
            uses.append(f"({w.ln(u.node)}%nat, {u.idx}%nat)")
        if p is not None and w.ln(p) < 0:
            raise Unmodelled("value produced by a node outside the model")
        owner = v._graph  # noqa: SLF001  (the raw owner field; v.graph falls back to the producer's graph)
        if owner is not None and w.lg(owner) < 0:
            raise Unmodelled("value owned by a graph outside the model")
        vals.append("(mkV {} {} {} {} {} {} {} {} {})".format(
            copt_name(it, v.name),
            "None" if p is None else f"(Some ({w.ln(p)}%nat, {v.index()}%nat))",
            clist(uses), copt_nat(None if owner is None else w.lg(owner)),
            common.cbool(v.is_graph_input()), common.cbool(v.is_graph_output()), common.cbool(v.is_initializer()),
            copt_nat(ct), cNtok(value_pay_tok(it, v))))
    nodes = []
    for n in w.nodes:
        attrs = []
        for k, a in n.attributes.items():
            kind, x = ir_attr_entry(it, a, tensor_key_fn)
            if kind == "plain":
                attrs.append(f"({cNtok(it.tok(k))}, AtPlain {cNtok(x)} {common.cbool(attr_ser_bad(a))})")
            elif kind == "graph":
                attrs.append(f"({cNtok(it.tok(k))}, AtGraph {w.lg(x)}%nat)")
            else:
                attrs.append(f"({cNtok(it.tok(k))}, AtGraphs {clist(f'{w.lg(g)}%nat' for g in x)})")
        if n.graph is not None and w.lg(n.graph) < 0:
            raise Unmodelled("node owned by a graph outside the model")
        nodes.append("(mkN {} {} {} {} {} {} {})".format(
            copt_name(it, n.name), cNtok(node_op_tok(it, n)), cNtok(node_tok(it, n, model.ir_version)),
            clist(copt_nat(w.lv(v)) if v is not None else "None" for v in n.inputs),
            clist(f"{w.lv(v)}%nat" for v in n.outputs), clist(attrs), copt_nat(w.lg(n.graph))))
    graphs = []
    for g in w.graphs:
        fn = id(g) in w.fn_graphs
        for k in g.initializers:
            if not isinstance(k, str):
                raise Unmodelled("initializer key is not a string")
        graphs.append("(mkG {} {} {} {} {} {})".format(
            cNtok(0 if fn else it.tok(g.name or "")),
            cNtok(0 if fn else it.tok(meta_key(g.doc_string, g._metadata_props))),  # noqa: SLF001
            clist(f"{w.lv(v)}%nat" for v in g.inputs), clist(f"{w.lv(v)}%nat" for v in g.outputs),
            clist(f"({cNtok(it.tok(k))}, {w.lv(v)}%nat)" for k, v in g.initializers.items()),
            clist(f"{w.ln(n)}%nat" for n in g)))
    tens = []
    for t in tensors:
        fill = "[]"
        try:
            import onnx_ir as ir
            pay, bad = it.pay_tok(ir.TensorType(t.dtype), t.shape, None, None), False
            vpays = set()
            for v in w.values:
                if v.const_value is t:
                    vp = value_pay_tok(it, v)
                    vpays |= {vp, it.norm.get(vp, vp)}
            fill = it.fill_entries(t, pay, sorted(vpays))
        except Exception:  # noqa: BLE001
            pay, bad = 0, True
        tens.append(f"(mkT {copt_name(it, t.name)} {cNtok(it.tok(tensor_key_fn(t)))} {cNtok(pay)} {common.cbool(bad)} {fill})")
    heap = f"(mkH {clist(vals)} {clist(nodes)} {clist(graphs)} {clist(tens)})"
    funcs = [f"(mkF {cNtok(it.tok(('fn', f.domain, f.name, f.overload)))} {cNtok(function_tok(it, f))} {w.lg(f.graph)}%nat)"
             for f in model.functions.values()]
    mdl = f"(mkM {cNtok(model_tok(it, model))} {w.lg(model.graph)}%nat {clist(funcs)})"
    return heap, mdl, w


def exp_tables(it: Interner, protos=(), models=()) -> tuple[str, str]:
    """The two string operations of the IR<10 experimental function value-info format as per-case tables over name
    tokens (C03/ModelOld.v): X (the reader's relation since 348a4f1: a main-graph value_info name is related to
    (function id token, value name token) for EVERY existing function whose qualified prefix "{domain}::{name}/" it
    starts with - any overload; the value name is the rest) and Y (compose: (function id token, value name token)
    -> composite-name token, the format "{domain}::{function}/{value}").  Plain string operations, computed here."""
    names, fids, Y = set(), set(), {}

    def compose(domain, fname, overload, vname):
        fids.add((domain, fname, overload))
        if not isinstance(vname, str):
            return
        c = f"{domain}::{fname}/{vname}"
        Y[(it.tok(("fn", domain, fname, overload)), it.tok(vname))] = it.tok(c)
        names.add(c)
    for p in protos:
        if p is None:
            continue
        for vi in p.graph.value_info:
            names.add(vi.name)
        for f in p.functions:
            fids.add((f.domain, f.name, getattr(f, "overload", "")))
            for k in list(f.input) + [o for n in f.node for o in n.output]:
                compose(f.domain, f.name, getattr(f, "overload", ""), k)
    for m in models:
        if m is None:
            continue
        for f in m.functions.values():
            fids.add((f.domain, f.name, f.overload))
            for v in list(f.inputs) + [o for n in f for o in n.outputs]:
                if v.name is not None:
                    compose(f.domain, f.name, f.overload, v.name)
    X = set()
    for n in names:
        if not isinstance(n, str):
            continue
        for d, f, o in fids:
            pre = f"{d}::{f}/"
            if n.startswith(pre):
                X.add((it.tok(n), it.tok(("fn", d, f, o)), it.tok(n[len(pre):])))
    xs = clist(f"({a}%N, ({b}%N, {c}%N))" for a, b, c in sorted(X))
    ys = clist(f"({a}%N, {b}%N, {c}%N)" for (a, b), c in sorted(Y.items()))
    return xs, ys


CASE_HEADER = """From Coq Require Import NArith ZArith List Bool.
From IRV Require Import Base.Exn C03.Model C03.Canon C03.Inv C03.ModelOld.
Import ListNotations.
Open Scope Z_scope.
"""


# ==== C03 check

import copy
import re

C03_LOG = """
C03 check (PART 2) - running log of decisions.

THEOREMS (coq/theories/C03/Property.v, owned by the orchestrating engineer): C03_ser_deterministic (serializing
twice from the same state gives equal results), C03_ser_twice_equal (FULL: ser_model np h m = Ok (h1, q) ->
exists h2, ser_model np h1 m = Ok (h2, q): the second to_proto, from the state the first one left behind, yields
the same proto; C03/Twice.v, "the serializer never reads a tensor's own name"), C03_ser_readonly (ser_model changes nothing in the heap but tensor
names), C03_roundtrip_consistent_partial (whatever was serialized, if the proto deserializes the result satisfies
the use-def invariant).
C03_iso IS PROVED (Property.v, closed under the global context; proof: C03/Tree.v TreeF.v IsoSer.v IsoSerF.v
IsoDeserA..I.v IsoDeser.v IsoDeserM.v IsoThm.v IsoThmF.v): forall np h m, serializable_tm np h m = true ->
exists h1 q h2 m2, ser_model np h m = Ok (h1,q) and deser_model q = Ok (h2,m2) and unfold_model [] h2 m2 =
unfold_model np h m and Inv h2, for whole models (nested graphs with captured outer-scope values, unsorted node
order, optional inputs, empty-named outputs, initializers, model-local functions); C03_iso_graphs is the version for
models without functions.  Isomorphism is stated as EQUALITY OF UNFOLDINGS: unfold_model replaces every value
occurrence by (scope depth, index among the values the scope defines), computed from object identity, and keeps
names, payloads, operator identifiers, tensors and order; derived links (uses, producer/index, flags, owner) follow
from Inv, which holds at both ends.  `serializable_tm` (boolean) = the leaf normalisation table is sane (np_ok) and
the unfolding is well formed (wf_m: names present and unique per scope; every reference is what name resolution
through the scope chain gives; flags agree with membership; payload written at an output = payload at the definition;
non-input initializers have type+shape (fill fixpoint)).  It is WEAKER than the earlier Iso.serializable_b && inv_b
(restrictions (1) and (2) below are gone: the unfolding compares what the format carries); the implication
old => new and the theorem's statement itself (`iso_tm_statement_b`) are evaluated by Coq on every generated case.
C03_ser_deser_ser: under serializable_tm and an idempotent leaf normalisation, ser (deser (ser h)) = ser h.
Round 6: (r6m2) every third tensor's non-input initializer is named val_<k> like the names the graph generates, and
the oracle clause generated_name_clashes reports a library-generated output name equal to the explicit name of an
input/initializer the graph was constructed with (such a model is outside `serializable` - duplicate name - so the
round-trip clause alone stays silent); (r6m3) ExternalTensor leaves get base_dir "" / relative / absolute (no random
draw); key and oracle use .location, so a base_dir leaking into the proto changes the round-tripped location.
Round 5 (seeded C03-r5m1): STRING attributes holding byte blobs (recipe kind "bytes": invalid UTF-8, valid UTF-8, ASCII,
empty, a lone-surrogate encoding) and STRINGS with bytes elements (kind "strsb": the leaf serializer rejects them ->
not serializable, sbad flag).  Rule checked by IsoCheck.attr on the real objects: a str comes back as the same str; a
byte blob comes back as the SAME bytes when it is not valid UTF-8 and as the str it decodes to when it is (the reader's
text canonicalisation, accepted).  attr_key keys a valid-UTF-8 blob as its text and an undecodable blob as bytes, so the
leaf token distinguishes bytes from str exactly where the library does.
IR < 10 experimental function value-info format: modelled since the deepening round (C03/ModelOld.v, tables X/Y from
exp_tables): cases with ir_version < 10 and functions are no longer skipped: agree_ser_x / agree_after_ser_x /
agree_roundtrip_x compare the code with ser_model_old / deser_model_old; theorem C03_ser_readonly_old (C03_iso itself is
the IR >= 10 statement; in the old format the fixpoint is refuted: C17_ser_fixpoint_old_refuted).
Hence ck.level = "proof".  (The canonical-observation statement `iso_statement_b` of Iso.v is still evaluated per
case as an independent formulation of the same property.)
Restrictions of `serializable` added by this check after Coq evaluated a state it accepted whose round trip is not
isomorphic (Iso.serializable_b; each mirrored in py_serializable): (1) only initializers carry a const_value
(documented as ignored elsewhere); (2) no tensor object is the const_value of two values (tensor names are per
object, the proto has one name per initializer); (3) an initializer that is not a graph input has both a type and a
shape (its payload is a fixpoint of the tensor's fill table; after 420823a missing fields come back filled in).

THE TIE.  Every case is an IR model built through the PUBLIC API only from a JSON recipe: construction ops
(ir.Tensor / StringTensor / ExternalTensor (never read) / LazyTensor / PackedTensor / TensorProtoTensor, ir.Value,
ir.Node with created or supplied outputs, ir.Graph, ir.Function, ir.Model) followed by an edit history through
public mutators (graph.append/extend/insert_before/insert_after/remove(safe)/sort, "move" = remove + insert,
node.replace_input_with/resize_inputs/resize_outputs, value.replace_all_uses_with, value.name/type/shape/dtype/
doc_string/metadata_props/const_value setters, graph.inputs/outputs append/pop/insert/__setitem__,
graph.initializers[...]= / register_initializer / pop, node/graph/function/model header setters, attributes
add/pop).  An op the API rejects is recorded (`reject:<Exc>`) and the history goes on.  20-25% of the cases get one
deliberate breakage of a hypothesis of `serializable` (BREAKS).  Per case, with ONE Interner:
  heap h, model m := ir_heap(model)            o0 := ir_obs(model)                 (before to_proto)
  q  := ProtoConv(to_proto(model)) | None      o1 := ir_obs(model)                 (after to_proto)
  o2 := ir_obs(from_proto(to_proto(model))) | None
and Coq evaluates (vm_compute, one `failing` list per predicate): agree_heap h m o0 (converter self-check),
agree_ser (ser_model = the proto the code wrote, or both raise), agree_after_ser (the heap after ser_model = the IR
after to_proto: only tensor names moved), agree_roundtrip (deser_model (ser_model h) = the IR the code read back),
iso_statement_b (the statement of C03_iso on this state) and Bool.eqb (inv_b h && serializable_b h m) py_flag
where py_flag = (py_serializable(model) == [] and c17.oracle_invariants(model) == []).
THE ORACLE (property itself, public accessors only): (a) a deep snapshot of every accessor of every reachable object
(including producers/consumers outside the model) is unchanged by to_proto except that the name of an initializer's
tensor becomes the name of a value holding it - enforced always, also when to_proto raises; (b) to_proto twice gives
equal protos; (c) IsoCheck(model, from_proto(to_proto(model))): simultaneous traversal building a bijection on
graphs / nodes / values (written independently of Canon / ir_obs) - enforced when the model satisfies the
hypothesis (py_serializable breaks nothing outside BENIGN, and the use-def invariants hold).

READINGS (weaker reading taken where the English is ambiguous)
* "isomorphic": same node order, op identifiers, inputs with None preserved, outputs modulo TRAILING outputs with
  an empty name (serde._remove_trailing_outputs drops them by design), value names, types, shapes, doc strings,
  metadata, const tensors (dtype, shape, bytes / string data / external location+offset+length, doc, metadata),
  attributes in order (floats compared as float32, which is what the format stores), nested graphs recursively,
  initializer keys in order, flags, producer/index, uses as SETS, owning graph, functions (identifier order, doc,
  opset imports, metadata; function attributes compared as a name->attribute MAPPING: the proto keeps attributes
  with a default and those without in two lists, so their interleaving cannot be represented), model header.
* None == "" for graph names, node names, doc strings, producer_name/..., model_version None == 0 (absent proto
  fields read back as None).  A Node whose name is None reads back as "" - Iso.serializable_b demands Some name,
  the Python oracle accepts it (BENIGN "node-name-none").
* Accepted documented deviation: an initializer that is not a graph input comes back with a missing type and/or a
  missing shape filled in from its tensor (serde._deserialize_graph: "Users expect initialized values to have shape
  and type information"; since 420823a also when a value_info entry exists).  Iso.serializable_b demands that such
  an initializer has both (its payload is a fixpoint of the tensor's fill table); the Python oracle accepts the
  filled-in fields, field by field (BENIGN "init-partial-info").
* Not carried by the format, hence not compared: Node.version, opset_imports of subgraphs (only the model's and the
  functions' are serialized), the name of a function's underlying Graph, ExternalTensor.base_dir, meta stores.
* "aligning each initializer tensor's own name": a tensor object shared by two initializers ends with the name of
  the last one serialized; accepted by the oracle (the name of *a* value holding it; the round trip yields one
  tensor per initializer, compared by content and by the VALUE's name).  Iso.serializable_b excludes shared tensor
  objects (condition "shared-tensor", BENIGN; added by this check: the Gallina iso compares tensor names cell by
  cell and was false on such a state).
* const_value on a value that is not an initializer is documented as ignored by serialization
  (Value.const_value docstring): such states are outside `serializable` (condition "const-not-init"; added to
  Iso.serializable_b by this check after it accepted a state whose round trip is not isomorphic).
* Overloaded functions exist from IR version 10: the generator does not combine overloads with ir_version < 10
  (the IR<10 experimental function value-info names cannot carry an overload).
* The property quantifies over consistent IR states: a REJECTED edit can leave the IR inconsistent
  (GraphOutputs.__setitem__ clears the old value's flag/owner before _set_graph raises for the new one: a C01-type
  defect, reported to the orchestrator, not a C03 finding); then (c) is not enforced and py_flag is false.
* ir_version < 10 with functions uses the experimental value-info format: modelled since the deepening round
  (C03/ModelOld.v; flag `old`, tables X/Y), compared in Coq like every other case.
* DEVICE CONFIGURATIONS (statement: "from IR version 11").  Generated through the public API:
  ir.Model(device_configurations=...), model.add_device_configuration / remove_device_configuration(cascade or not,
  by name or by object), Node.set_pipeline_stage (stage 0 included), Node.shard (several axes, device indices,
  optional stage), explicit ir.NodeDeviceConfiguration / ShardingSpec objects (device groups through
  index_to_device_group_map, fused and symbolic SimpleShardedDim incl. SymbolicDim(None)), on nodes of the main
  graph, of subgraphs and of functions; edits: shard / set_stage / add / remove and replace_input_with on a sharded
  input (drops the spec).  About half of the IR-11 models carry them, plus some IR-10 models.  ORACLE: the snapshot
  records them (objects by identity), IsoCheck compares the model configurations in order (name, num_devices,
  device names) and, per node, the configuration (must be THE corresponding object of the round-tripped model),
  the pipeline stage (None is not 0), every sharding spec (value through the bijection, device tuple, groups,
  sharded dims with int vs symbolic kept apart).  Reading: BELOW IR 11 device configurations are not part of the
  round trip - the serializer drops the model's and those of the nodes it reaches with the model's IR version
  (documented, with a warning); no claim is enforced there.  OBSERVED (reported; fixed in /repo by 5e4600e): at
  IR < 11 the nodes of SUBGRAPHS kept their device configurations in the proto because serialize_attribute_into ->
  serialize_graph_into did not pass model_ir_version down, unlike the nodes of the main graph and of functions.
  States outside the hypothesis (py_serializable conditions device-*, only at IR >= 11): a node configuration
  referencing a configuration object that is not registered on the model (dangling after a non-cascading remove;
  it reads back as a placeholder with num_devices=0), a sharding spec without a named value or on a value that is
  no input/output of its node (the leaf serializer raises).  COQ: device configurations are part of the opaque
  node token / model token (PART 1 node_tok / model_tok on the IR side, ProtoConv.node / ProtoConv.model on the
  proto side, both keyed from IR-level objects, values and configurations by NAME, only from IR 11 on); states
  outside the hypothesis skip the Coq comparison (`unmodelled`), so does a proto that still carries node
  configurations below IR 11.

MODELLED, NOT VERIFIED: leaf payloads are tokens from the library's own leaf (de)serializers (C02/C04); the leaf
normalisation table (Model.norm_pay) is supplied per case; recursion limit (fuel); quantization annotations; the
content of device configurations (opaque part of the node / model tokens); per-subgraph opset imports.

FINDINGS
* shape-without-type (known_findings.d/C03.json, proposed_fixes/C03-shape-without-type.diff; FIXED in /repo by
  5c8d56d): a Value with a shape but no type lost the shape on to_proto (serialize_shape_into found no type field and
  skipped with a warning) although tensor_type{shape} without elem_type is representable and is exactly what the
  deserializer reads back as (type None, shape S).  Found by IsoCheck ("iso:shape"), attributed by repair (clearing
  those shapes made the oracle pass).  Now an ordinary supported case: half of the generated models contain such
  values, the witness is replayed on every run (`fixed: property=C03 5c8d56d ...`; failing again ->
  fixed-finding-regressed).  The attribution-by-repair machinery (REPAIRS / known_key) stays for future entries.
* function-value-name-with-slash-below-ir10 (known_findings.d/C03.json; FIXED in /repo by a2fe113, entry flipped to
  "fixed": the witness must pass now, `fixed: property=C03 a2fe113 ...`; the generator variant and the repair stay;
  proposed_fixes/C03-function-value-info-name-with-slash.diff): below IR 10 the type/shape/doc/metadata of a function's
  inputs and node outputs travel in the main graph's value_info under "{domain}::{function}/{value}"; for a value
  whose own name contains "/" (e.g. "a/b") the serializer writes "D::F/a/b" but
  serde._parse_experimental_function_value_info_name demands exactly one "/" and ignores the entry: the value
  reads back without type/shape.  The generator produces it for ~40% of the functions of IR<10 models; the oracle
  sees "iso:type/shape/doc/metadata: fn:..." and attributes it by repair (replacing "/" in those names makes the
  oracle pass); the witness is replayed on every run (KNOWN-FINDING line; known-finding-stale if it stops failing).
* Side observation (C01 territory): `graph.outputs[i] = v` with v owned by another graph raises ValueError after
  clearing is_graph_output/_graph of the old value, which stays in the list.
* After 420823a (C17 fix) an initializer that is not a graph input reads back with a missing type and/or a missing
  shape filled in from its tensor: accepted deviation, field by field.

PART 1 CHANGES (C17 re-checked): function attribute tokens order-insensitive; attr_key/ir_attr_entry take
tensor_key_fn so tensor-valued node attributes are keyed as serialized.

MUTANTS (scratch worktree of /repo at 3fc58a7, quick tier, seed 0; every one reported VIOLATION):
  m1 _remove_trailing_outputs drops one output too many   -> correspondence agree_ser + agree_roundtrip; oracle
     iso:connectivity and roundtrip:from_proto (KeyError); concrete shrunk replays
  m2 `value.const_value.name = value.name` removed         -> agree_ser + agree_after_ser; oracle
     side-effect:tensor-name + iso:initializers (replay = corpus optional_outputs_unsorted_capture)
  m3 node outputs declared per node right before _deserialize_node (not for all nodes first)
                                                           -> agree_roundtrip; oracle roundtrip:from_proto (ValueError),
     iso:sharing / iso:producer on captured later values
  m4 input lookup outermost scope first (no `reversed`)    -> agree_roundtrip; oracle iso:sharing / iso:uses (shadowing)
  m5 value_info also emitted for node outputs that are graph outputs -> agree_ser only (harmless for the round trip:
     reported as VIOLATION ... no-failing-input-found, which is accurate)
  m6 value_info also emitted for initializers that are graph inputs  -> agree_ser only (same remark)
  m7 serialize_node_into names an unnamed node (mutates the IR)      -> agree_ser + agree_after_ser; oracle side-effect:n.name
  m8 node doc_string dropped when the node has metadata    -> agree_ser + agree_roundtrip; oracle iso:doc (5-op replay)
PROTO-BACKED MODELS AND METADATA EDITS.  Recipe op `reload`: model := from_proto(to_proto(model)) - every tensor
  becomes a TensorProtoTensor / proto-backed object and the handles follow the objects through the bijection of
  IsoCheck; emitted right after construction for ~30% of the cases and as an edit.  Edit ops `meta_edit` (clear /
  pop / overwrite / update / add on metadata_props of tensors - initializer and attribute tensors,
  TensorProtoTensor included - values, nodes, graphs, functions, model; targets with non-empty metadata preferred,
  so "emptied after having been non-empty" is frequent) and `tensor_doc`.  PART 1: tensor_key_serialized keys the
  CONTENT of a tensor in serialized form but takes the METADATA from the IR object (it used to come out of the
  serializer under test, which made the model agree with a serializer that re-emits stale proto metadata).
GRAPH INPUT / OUTPUT LISTS AS MUTABLE SEQUENCES.  Recipe op `gio` covers del lst[i] (also negative), del slice, remove,
  clear, extend, slice assignment (besides append / pop / insert / __setitem__), on graph.inputs and graph.outputs,
  with the same value listed several times; edit kind `dup_output_history` builds the pattern "typed node output
  listed twice, one listing deleted (del / del slice / pop), the other removed or replaced (pop / remove / del /
  setitem / slice assignment / clear)".  ORACLE: the use-def / ownership facts of c17.oracle_invariants that are
  INTERNAL contradictions (I1-I7: flag vs listing, uses vs inputs, producer vs outputs, initializer key/flag, owner
  vs flags) are reported as violations ("inv:I4 ...") on the edited model before to_proto - they used to only
  switch (c) off.  I1x / I2x / "I2/I4" (a node outside the model, a foreign output) are what accepted edits such as
  remove(safe=False) legitimately produce and stay unreported.  Histories with rejected edits are included: since
  c5c2382 / a9e4f9d the containers validate before mutating (the GraphOutputs.__setitem__ defect reported earlier
  is fixed); 10000 generated histories on the clean tree gave no internal contradiction.
QUANTIZATION ANNOTATIONS.  Recipe op `set_quant` sets / empties / removes value.meta["quant_parameter_tensor_names"]
  on inputs, initializers, input-initializers (also in subgraphs now), node outputs and graph outputs of the main
  graph and of subgraphs (not in functions: FunctionProto cannot carry them); ~10% of the models at construction
  plus an edit kind.  IsoCheck compares the annotation per value ({} == absent; a value without a name cannot be
  annotated: condition "quant-unnamed"); the snapshot records value.meta.  COQ: cases whose proto carries
  annotations stay `unmodelled` (ProtoConv.graph), the oracle (a)(b)(c) is what checks them.
SEEDED CHANGES round 4: C03-r4m1 (_GraphIO.__delitem__ keeps the refcount of a value still listed elsewhere: stale
  is_graph_output after the last listing goes) - "inv:I4: value ... is flagged graph output but is not in its graph's
  outputs", 9-op replay (gout_append, gio:del, gio:clear); C03-r4m2 (annotation of an input-initializer written by
  neither loop) - "iso:quantization ... vs None", 6-op replay.  Both were missed before these generators existed.
NON-C-CONTIGUOUS TENSORS.  About half of the ir.Tensor / LazyTensor tensors (initializers and attribute tensors) have
  rank 2-3, distinct elements and a backing numpy array that is transposed, Fortran-ordered, strided or reversed
  (recipe field `layout`).  The content is compared LOGICALLY: IsoCheck compares the row-major elements of
  t.numpy() on both sides (not Tensor.tobytes() of the original), and PART 1 tensor_key_serialized checks the
  serialized content against the logical elements of the IR tensor (logical_tensor_bytes) - when they differ the
  heap token is one no proto-side token can equal, so agree_ser / agree_roundtrip fail.  Snapshot (a) still uses
  tobytes() (it only asks "unchanged by to_proto").
SEEDED CHANGES round 3: C03-r3m1 (NodeProto.overload written only for IR >= 10) depended on a rare edit
  (node_set overload at IR < 10); plain nodes now get an overload at construction with probability 0.07 at ANY IR
  version (only FUNCTION overloads are tied to IR >= 10, see the reading above), so it is detected robustly.
SEEDED CHANGES round 3: C03-r3m3 (Tensor.tobytes() dumps a Fortran-contiguous array in memory order: same dtype and
  shape, permuted values) was not detected while the token and the oracle went through tobytes(); now detected.
SEEDED CHANGES round 2: C03-r2m2 (stale metadata_props of a proto-backed tensor re-emitted after
  metadata_props.clear()) was not detected before `reload` / `meta_edit` existed; now agree_ser + agree_roundtrip and
  the oracle ("iso:const ... metadata differ", "iso:attr-tensor ... metadata differ", 6-op replay: tensor, value,
  graph, model, reload, meta_edit).  C03-r2m1, C03-r2m3 and the round-1 m1/m2/m3 are still detected with input.
SEEDED CHANGES (/verif/seeded, tools/seed_eval.py): C03-m1, C03-m2 detected with a concrete replay; C03-m3
  (pipeline_stage written only when truthy: stage 0 reads back as None) was NOT detected before device
  configurations were generated; now detected by agree_ser + agree_roundtrip and by the oracle
  ("iso:device-stage: ... pipeline stage 0 vs None", 6-op shrunk replay).
"""

# --------------------------------------------------------------------------- recipes: building IR models through the public API

NAME_POOL = ["a", "b", "c", "d", "e", "f", "g", "h"]
DTYPES = [1, 7, 6, 2, 9, 10, 11]           # FLOAT INT64 INT32 UINT8 BOOL FLOAT16 DOUBLE


class _Missing(Exception):
    """An op names a handle that does not exist (its creating op was dropped by the shrinker)."""


class Env:
    """Handle registries while a recipe is applied (handles are the strings chosen by the generator)."""

    def __init__(self):
        self.v, self.n, self.g, self.t, self.f = {}, {}, {}, {}, {}
        self.c: dict = {}             # ModelConfiguration objects (multi-device, IR version 11)
        self.model = None
        self.log: list = []           # (op kind, status)

    def V(self, h):
        if h is None:
            return None
        if h not in self.v:
            raise _Missing(h)
        return self.v[h]

    def N(self, h):
        if h not in self.n:
            raise _Missing(h)
        return self.n[h]

    def G(self, h):
        if h not in self.g:
            raise _Missing(h)
        return self.g[h]

    def T(self, h):
        if h is None:
            return None
        if h not in self.t:
            raise _Missing(h)
        return self.t[h]

    def C(self, h):
        if h not in self.c:
            raise _Missing(h)
        return self.c[h]


def mk_type(spec):
    import onnx_ir as ir
    if spec is None:
        return None
    kind, arg, den = spec
    if kind == "T":
        return ir.TensorType(ir.DataType(arg), denotation=den)
    if kind == "S":
        return ir.SparseTensorType(ir.DataType(arg), denotation=den)
    if kind == "Seq":
        return ir.SequenceType(mk_type(arg), denotation=den)
    return ir.OptionalType(mk_type(arg), denotation=den)


def mk_shape(spec):
    import onnx_ir as ir
    if spec is None:
        return None
    return ir.Shape(spec["dims"], denotations=spec.get("den"), frozen=bool(spec.get("frozen")))


def mk_tensor(op):
    import numpy as np
    import onnx
    import onnx_ir as ir
    from onnx_ir import serde
    kind, name, dt, dims, data = op["kind"], op.get("name"), ir.DataType(op["dtype"]), list(op["dims"]), op["data"]
    doc, meta = op.get("doc"), (dict(op["meta"]) if op.get("meta") else None)
    if kind == "ext":
        return ir.ExternalTensor(op["loc"], op.get("offset"), op.get("length"), dt, shape=ir.Shape(dims),
                                 name=name, doc_string=doc, metadata_props=meta, base_dir=op.get("base_dir", ""))
    if kind == "str":
        return ir.StringTensor([bytes(x) for x in data], shape=ir.Shape(dims), name=name, doc_string=doc,
                               metadata_props=meta)
    if kind == "packed":
        return ir.PackedTensor(np.array(data, dtype=np.uint8), ir.DataType.INT4, shape=ir.Shape(dims), name=name,
                               doc_string=doc, metadata_props=meta)
    arr = np.array(data, dtype=np.float64).astype(dt.numpy()).reshape(dims)
    layout = op.get("layout")              # non-C-contiguous backing arrays with the same logical content
    if layout == "T" and len(dims) >= 2:
        arr = np.ascontiguousarray(arr.T).T
    elif layout == "F":
        arr = np.asfortranarray(arr)
    elif layout == "stride" and len(dims) >= 1:
        base = np.full(dims[:-1] + [2 * dims[-1]], 1, dtype=arr.dtype)
        base[..., ::2] = arr
        arr = base[..., ::2]
    elif layout == "rev" and len(dims) >= 1:
        arr = np.ascontiguousarray(arr[::-1])[::-1]
    if kind == "lazy":
        return ir.LazyTensor(lambda a=arr: ir.Tensor(a), dt, ir.Shape(dims), cache=bool(op.get("cache")), name=name,
                             doc_string=doc, metadata_props=meta)
    if kind == "tpt":
        p = onnx.numpy_helper.from_array(arr, name or "")
        if not op.get("raw", True) and op["dtype"] in (1, 6, 7):
            p = onnx.helper.make_tensor(name or "", op["dtype"], dims, arr.flatten().tolist())
        if name is None:
            p.ClearField("name")
        if doc:
            p.doc_string = doc
        for k, v in sorted((meta or {}).items()):
            e = p.metadata_props.add()
            e.key, e.value = k, v
        return serde.deserialize_tensor(p)
    return ir.Tensor(arr, name=name, doc_string=doc, metadata_props=meta)


def mk_attr(env: Env, a):
    """Attribute spec -> ir.Attr (None when a referenced graph/tensor handle is missing)."""
    import onnx_ir as ir
    k, nm, doc = a["k"], a["name"], a.get("doc")
    try:
        if k == "int":
            return ir.AttrInt64(nm, a["v"], doc_string=doc)
        if k == "float":
            return ir.AttrFloat32(nm, float(a["v"]), doc_string=doc)
        if k == "str":
            return ir.AttrString(nm, a["v"], doc_string=doc)
        if k == "bytes":       # STRING attribute holding an opaque byte blob (custom ops): kept as bytes by serde
            return ir.Attr(nm, ir.AttributeType.STRING, bytes.fromhex(a["hex"]), doc_string=doc)
        if k == "strsb":       # STRINGS with bytes elements ({"hex": ..}) among str elements: the leaf serializer rejects bytes
            return ir.Attr(nm, ir.AttributeType.STRINGS,
                           [bytes.fromhex(x["hex"]) if isinstance(x, dict) else x for x in a["v"]], doc_string=doc)
        if k == "ints":
            return ir.AttrInt64s(nm, a["v"], doc_string=doc)
        if k == "floats":
            return ir.AttrFloat32s(nm, [float(x) for x in a["v"]], doc_string=doc)
        if k == "strs":
            return ir.AttrStrings(nm, a["v"], doc_string=doc)
        if k == "tensor":
            return ir.AttrTensor(nm, env.T(a["t"]), doc_string=doc)
        if k == "tensors":
            return ir.AttrTensors(nm, [env.T(t) for t in a["ts"]], doc_string=doc)
        if k == "graph":
            return ir.AttrGraph(nm, env.G(a["g"]), doc_string=doc)
        if k == "graphs":
            return ir.AttrGraphs(nm, [env.G(g) for g in a["gs"] if g in env.g], doc_string=doc)
        if k == "ref":
            return ir.RefAttr(nm, a["ref"], ir.AttributeType(a["type"]), doc_string=doc)
        if k == "type":
            return ir.AttrTypeProto(nm, ir.TypeAndShape(mk_type(a["type"]), mk_shape(a.get("shape"))), doc_string=doc)
        if k == "undef":       # function attribute without a default
            return ir.Attr(nm, ir.AttributeType(a.get("type", 0)), None, doc_string=doc)
    except _Missing:
        return None
    raise ValueError(f"unknown attribute spec {a}")


def _present(d, hs):
    return [d[h] for h in hs if h in d]


def mk_node_devcfgs(env: Env, cfgs) -> tuple:
    """Explicit NodeDeviceConfiguration objects (public dataclasses) from a spec list."""
    import onnx_ir as ir
    out = []
    for c in cfgs:
        specs = []
        for sp in c.get("specs", []):
            dims = tuple(ir.ShardedDim(axis=d["axis"], simple_shardings=tuple(
                ir.SimpleShardedDim(dim=(x["dim"] if isinstance(x["dim"], int) else ir.SymbolicDim(x["dim"])),
                                    num_shards=x["num"]) for x in d["simple"])) for d in sp.get("dims", []))
            specs.append(ir.ShardingSpec(
                value=env.V(sp["v"]), device=tuple(sp.get("device", ())),
                index_to_device_group_map=tuple(ir.IndexToDeviceGroupMapEntry(key=k, value=tuple(vs))
                                                for k, vs in sp.get("groups", [])),
                sharded_dims=dims))
        out.append(ir.NodeDeviceConfiguration(configuration=env.C(c["c"]), sharding_specs=tuple(specs),
                                              pipeline_stage=c.get("stage")))
    return tuple(out)


QUANT_KEY = "quant_parameter_tensor_names"       # serde._QUANT_PARAMETER_TENSOR_NAMES_FIELD (documented meta key)


def _meta_target(env: Env, kind: str, h):
    if kind == "m":
        if env.model is None:
            raise _Missing("model")
        return env.model
    d = {"v": env.v, "n": env.n, "g": env.g, "t": env.t, "f": env.f}[kind]
    if h not in d:
        raise _Missing(h)
    return d[h]


def _reload(env: Env) -> None:
    """model := from_proto(to_proto(model)): everything becomes proto-backed (TensorProtoTensor, ...); the
    handles follow the objects through the correspondence built by IsoCheck (unmatched handles disappear)."""
    import onnx_ir as ir
    if env.model is None:
        raise _Missing("model")
    old = env.model
    new = ir.from_proto(ir.to_proto(old))
    iso = IsoCheck(old, new)
    tm = {}
    for a, b, _ in iso.vpairs:
        if a.const_value is not None and b.const_value is not None:
            tm[id(a.const_value)] = b.const_value
    T = ir.AttributeType
    for a, b, _ in iso.npairs:
        for key, x in a.attributes.items():
            y = b.attributes.get(key)
            if y is None or x.is_ref() or y.is_ref() or x.type != y.type:
                continue
            if x.type == T.TENSOR:
                tm[id(x.value)] = y.value
            elif x.type == T.TENSORS:
                tm.update({id(p): q for p, q in zip(x.value, y.value)})
    env.v = {h: iso.vm[id(o)] for h, o in env.v.items() if id(o) in iso.vm}
    env.n = {h: iso.nm[id(o)] for h, o in env.n.items() if id(o) in iso.nm}
    env.g = {h: iso.gm[id(o)] for h, o in env.g.items() if id(o) in iso.gm}
    env.t = {h: tm[id(o)] for h, o in env.t.items() if id(o) in tm}
    env.c = {h: iso.cm[id(o)] for h, o in env.c.items() if id(o) in iso.cm}
    fmap = {id(x): y for x, y in zip(old.functions.values(), new.functions.values())}
    env.f = {h: fmap[id(o)] for h, o in env.f.items() if id(o) in fmap}
    env.model = new


def apply_op(env: Env, op: dict) -> str:
    """Apply one recipe op through the public API.  'ok' | 'skip' (handle missing) | 'reject:<Exc>'."""
    try:
        _apply(env, op)
        st = "ok"
    except _Missing:
        st = "skip"
    except Exception as e:  # noqa: BLE001  (the API rejected the edit; nothing else to do)
        st = "reject:" + type(e).__name__
    env.log.append((op["op"], st))
    return st


def _apply(env: Env, op: dict) -> None:
    import onnx_ir as ir
    k = op["op"]
    if k == "tensor":
        env.t[op["id"]] = mk_tensor(op)
    elif k == "value":
        env.v[op["id"]] = ir.Value(name=op.get("name"), type=mk_type(op.get("type")), shape=mk_shape(op.get("shape")),
                                   doc_string=op.get("doc"), const_value=env.T(op.get("const")),
                                   metadata_props=dict(op["meta"]) if op.get("meta") else None)
    elif k == "node":
        ins = [env.v.get(h) if h is not None else None for h in op["ins"]]      # a missing input becomes None
        attrs = [x for x in (mk_attr(env, a) for a in op.get("attrs", [])) if x is not None]
        outs = op["outs"]
        kw = dict(overload=op.get("overload", ""), version=op.get("version"), name=op.get("name"),
                  doc_string=op.get("doc"), metadata_props=dict(op["meta"]) if op.get("meta") else None)
        if op.get("graph") is not None:
            kw["graph"] = env.G(op["graph"])
        if outs and all(h in env.v for h in outs):
            n = ir.Node(op.get("domain", ""), op["type"], ins, attrs, outputs=[env.v[h] for h in outs], **kw)
        else:
            n = ir.Node(op.get("domain", ""), op["type"], ins, attrs, num_outputs=len(outs), **kw)
            for h, v in zip(outs, n.outputs):
                env.v[h] = v
        env.n[op["id"]] = n
    elif k == "graph":
        env.g[op["id"]] = ir.Graph(_present(env.v, op["ins"]), _present(env.v, op["outs"]),
                                   nodes=_present(env.n, op["nodes"]), initializers=_present(env.v, op.get("inits", [])),
                                   doc_string=op.get("doc"), opset_imports=dict(op["opsets"]) if op.get("opsets") else None,
                                   name=op.get("name"), metadata_props=dict(op["meta"]) if op.get("meta") else None)
    elif k == "function":
        attrs = [x for x in (mk_attr(env, a) for a in op.get("attrs", [])) if x is not None]
        env.f[op["id"]] = ir.Function(op["domain"], op["name"], op.get("overload", ""), graph=env.G(op["graph"]),
                                      attributes=attrs)
    elif k == "model":
        cfgs = []
        for c in op.get("devcfgs", []):           # configurations handed to the constructor
            env.c[c["id"]] = ir.ModelConfiguration(name=c["name"], num_devices=c["num_devices"],
                                                   device_names=tuple(c.get("names", ())))
            cfgs.append(env.c[c["id"]])
        env.model = ir.Model(env.G(op["graph"]), ir_version=op["ir_version"], producer_name=op.get("producer_name"),
                             producer_version=op.get("producer_version"), domain=op.get("domain"),
                             model_version=op.get("model_version"), doc_string=op.get("doc"),
                             functions=_present(env.f, op.get("funcs", [])),
                             metadata_props=dict(op["meta"]) if op.get("meta") else None,
                             device_configurations=tuple(cfgs))
    # ---- edits: node lists
    elif k == "append":
        env.G(op["g"]).append(env.N(op["n"]))
    elif k == "extend":
        env.G(op["g"]).extend(_present(env.n, op["ns"]))
    elif k == "insert_before":
        env.G(op["g"]).insert_before(env.N(op["at"]), _present(env.n, op["ns"]))
    elif k == "insert_after":
        env.G(op["g"]).insert_after(env.N(op["at"]), _present(env.n, op["ns"]))
    elif k == "remove":
        ns = _present(env.n, op["ns"])
        env.G(op["g"]).remove(ns[0] if len(ns) == 1 and op.get("single") else ns, safe=bool(op.get("safe")))
    elif k == "move":                      # remove + insert elsewhere: the node order may become unsorted
        g, n, at = env.G(op["g"]), env.N(op["n"]), env.N(op["at"])
        if n is at:
            return
        g.remove(n)
        (g.insert_before if op.get("before", True) else g.insert_after)(at, n)
    elif k == "sort":
        env.G(op["g"]).sort()
    # ---- edits: nodes
    elif k == "replace_input":
        env.N(op["n"]).replace_input_with(op["i"], env.V(op.get("v")))
    elif k == "resize_inputs":
        env.N(op["n"]).resize_inputs(op["size"])
    elif k == "resize_outputs":
        n = env.N(op["n"])
        old = len(n.outputs)
        n.resize_outputs(op["size"])
        for h, v in zip(op.get("new", []), n.outputs[old:]):
            env.v[h] = v
    elif k == "node_set":
        setattr(env.N(op["n"]), op["field"], op["val"])        # name / domain / op_type / overload / doc_string / version
    elif k == "node_meta":
        env.N(op["n"]).metadata_props[op["key"]] = op["val"]
    elif k == "attr_add":
        a = mk_attr(env, op["attr"])
        if a is None:
            raise _Missing("attr")
        env.N(op["n"]).attributes.add(a)
    elif k == "attr_pop":
        env.N(op["n"]).attributes.pop(op["name"])
    # ---- edits: values
    elif k == "rauw":
        env.V(op["v"]).replace_all_uses_with(env.V(op["w"]), replace_graph_outputs=bool(op.get("go")))
    elif k == "rename":
        env.V(op["v"]).name = op["name"]
    elif k == "set_type":
        env.V(op["v"]).type = mk_type(op["type"])
    elif k == "set_shape":
        env.V(op["v"]).shape = mk_shape(op["shape"])
    elif k == "set_dtype":
        env.V(op["v"]).dtype = ir.DataType(op["dtype"])
    elif k == "set_doc":
        env.V(op["v"]).doc_string = op["doc"]
    elif k == "set_meta":
        env.V(op["v"]).metadata_props[op["key"]] = op["val"]
    elif k == "set_const":
        env.V(op["v"]).const_value = env.T(op.get("t"))
    # ---- edits: graph inputs / outputs / initializers / header
    elif k in ("gin_append", "gout_append"):
        (env.G(op["g"]).inputs if k[:3] == "gin" else env.G(op["g"]).outputs).append(env.V(op["v"]))
    elif k in ("gin_pop", "gout_pop"):
        (env.G(op["g"]).inputs if k[:3] == "gin" else env.G(op["g"]).outputs).pop(op.get("i", -1))
    elif k in ("gin_insert", "gout_insert"):
        (env.G(op["g"]).inputs if k[:3] == "gin" else env.G(op["g"]).outputs).insert(op["i"], env.V(op["v"]))
    elif k in ("gin_set", "gout_set"):
        (env.G(op["g"]).inputs if k[:3] == "gin" else env.G(op["g"]).outputs)[op["i"]] = env.V(op["v"])
    elif k == "gio":                         # the whole MutableSequence API of graph.inputs / graph.outputs
        lst = env.G(op["g"]).inputs if op["io"] == "in" else env.G(op["g"]).outputs
        a = op["action"]
        sl = slice(op.get("start"), op.get("stop"), op.get("step"))
        if a == "del":
            del lst[op["i"]]
        elif a == "del_slice":
            del lst[sl]
        elif a == "remove":
            lst.remove(env.V(op["v"]))
        elif a == "clear":
            lst.clear()
        elif a == "extend":
            lst.extend(_present(env.v, op["vs"]))
        elif a == "set_slice":
            lst[sl] = _present(env.v, op["vs"])
        else:
            raise ValueError(f"unknown gio action {a}")
    elif k == "set_quant":                   # quantization annotation (TensorAnnotation) of a value
        v = env.V(op["v"])
        if op.get("items") is None:
            v.meta.pop(QUANT_KEY, None)
        else:
            v.meta[QUANT_KEY] = dict(op["items"])
    elif k == "init_set":
        v = env.V(op["v"])
        env.G(op["g"]).initializers[op["key"] if "key" in op else v.name] = v
    elif k == "init_register":
        env.G(op["g"]).register_initializer(env.V(op["v"]))
    elif k == "init_pop":
        env.G(op["g"]).initializers.pop(op["key"])
    elif k == "graph_set":
        setattr(env.G(op["g"]), op["field"], op["val"])         # name / doc_string
    elif k == "graph_meta":
        env.G(op["g"]).metadata_props[op["key"]] = op["val"]
    elif k == "opset":
        env.G(op["g"]).opset_imports[op["domain"]] = op["version"]
    elif k == "model_set":
        if env.model is None:
            raise _Missing("model")
        setattr(env.model, op["field"], op["val"])
    elif k == "model_meta":
        if env.model is None:
            raise _Missing("model")
        env.model.metadata_props[op["key"]] = op["val"]
    # ---- multi-device (IR version 11)
    elif k == "devcfg_add":
        if env.model is None:
            raise _Missing("model")
        env.c[op["id"]] = env.model.add_device_configuration(
            op["name"], num_devices=op.get("num_devices"), device_names=tuple(op.get("names", ())))
    elif k == "devcfg_remove":
        if env.model is None:
            raise _Missing("model")
        env.model.remove_device_configuration(op["name"] if "name" in op else env.C(op["c"]),
                                              cascade=bool(op.get("cascade")))
    elif k == "shard":
        env.N(op["n"]).shard(env.V(op["v"]), configuration=env.C(op["c"]), axis=op["axis"], num_shards=op["num"],
                             device_indices=tuple(op.get("devices", ())), pipeline_stage=op.get("stage"))
    elif k == "set_stage":
        env.N(op["n"]).set_pipeline_stage(env.C(op["c"]), op["stage"])
    elif k == "node_devcfg":
        env.N(op["n"]).device_configurations = mk_node_devcfgs(env, op["cfgs"])
    elif k == "reload":
        _reload(env)
    elif k == "meta_edit":
        obj = _meta_target(env, op["kind"], op.get("h"))
        d = obj.metadata_props
        if op["action"] == "clear":
            d.clear()
        elif op["action"] == "pop":
            d.pop(op["key"] if "key" in op else next(reversed(list(d))))
        elif op["action"] == "update":
            d.update(op["items"])
        else:
            d[op["key"]] = op["val"]
    elif k == "tensor_doc":
        env.T(op["t"]).doc_string = op["doc"]
    elif k == "func_set":
        if op["f"] not in env.f:
            raise _Missing(op["f"])
        setattr(env.f[op["f"]], op["field"], op["val"])         # name / domain / overload / doc_string
    else:
        raise ValueError(f"unknown op {k}")


EDIT_OPS = {"append", "extend", "insert_before", "insert_after", "remove", "move", "sort", "replace_input",
            "resize_inputs", "resize_outputs", "node_set", "node_meta", "attr_add", "attr_pop", "rauw", "rename",
            "set_type", "set_shape", "set_dtype", "set_doc", "set_meta", "set_const", "gin_append", "gout_append",
            "gin_pop", "gout_pop", "gin_insert", "gout_insert", "gin_set", "gout_set", "init_set", "init_register",
            "init_pop", "graph_set", "graph_meta", "opset", "model_set", "model_meta", "func_set",
            "devcfg_add", "devcfg_remove", "shard", "set_stage", "node_devcfg", "reload", "meta_edit", "tensor_doc",
            "gio", "set_quant"}


def build(recipe: dict):
    """Rebuild the model of a recipe.  Returns (model or None, env)."""
    env = Env()
    for op in recipe["ops"]:
        apply_op(env, op)
    return env.model, env

# --------------------------------------------------------------------------- generator (model + edit history -> recipe)

BREAKS = ["dup-name", "name-none", "free-value", "init-no-const", "shadow", "input-twice", "empty-name-used",
          "shared-subgraph", "const-on-non-init", "output-foreign", "remove-unsafe", "node-name-none",
          "init-no-info", "dup-function", "output-name-none"]


class Gen:
    """Generates a recipe while applying it (so that later choices see the real objects)."""

    def __init__(self, rng, profile: str = "mixed"):
        self.rng = rng
        self.env = Env()
        self.ops: list = []
        self.cnt = {"v": 0, "n": 0, "g": 0, "t": 0, "f": 0, "m": 0, "c": 0}
        self.used: list = []
        self.ginfo: dict = {}         # gid -> {"parent": gid | None, "fn": bool}
        self.hv: dict = {}            # id(Value) -> handle
        self.hn: dict = {}            # id(Node) -> handle
        self.shape_no_type = rng.random() < 0.5        # values with a shape but no type (fixed finding 5c8d56d)
        self.profile = profile
        self.breaks: list = []
        self.funcs: list = []         # (fid, domain, name, overload)
        self.ir_version = rng.choice([10, 10, 10, 10, 11, 11, 11, 9, 8])

    # ---- plumbing
    def h(self, kind: str) -> str:
        self.cnt[kind] += 1
        return f"{kind}{self.cnt[kind]}"

    def emit(self, op: dict) -> str:
        st = apply_op(self.env, op)
        self.ops.append(op)
        self.hv, self.hn = {}, {}           # rebuilt every time: `reload` replaces all objects (ids may be reused)
        for hh, v in self.env.v.items():
            self.hv.setdefault(id(v), hh)
        for hh, n in self.env.n.items():
            self.hn.setdefault(id(n), hh)
        return st

    def fresh_name(self) -> str:
        for s in NAME_POOL:
            if s not in self.used:
                self.used.append(s)
                return s
        k = len(self.used)
        s = f"{NAME_POOL[k % len(NAME_POOL)]}{k // len(NAME_POOL)}"
        self.used.append(s)
        return s

    # ---- leaves
    def vfields(self) -> dict:
        r, f = self.rng, {}
        if r.random() < 0.72:
            dt = r.choice(DTYPES)
            q = r.random()
            den = r.choice(["IMAGE", "TENSOR"]) if r.random() < 0.06 else None
            if q < 0.82:
                f["type"] = ["T", dt, den]
            elif q < 0.88:
                f["type"] = ["S", dt, den]
            elif q < 0.96:
                f["type"] = ["Seq", ["T", dt, None], den]
            else:
                f["type"] = ["Opt", ["Seq", ["T", dt, None], None], den]
        if ("type" in f or self.shape_no_type) and r.random() < 0.65:
            dims = [r.choice([1, 2, 3, 0, "N", "M", None]) for _ in range(r.randrange(0, 4))]
            f["shape"] = {"dims": dims}
            if dims and r.random() < 0.08:
                f["shape"]["den"] = [r.choice([None, "DATA_BATCH"]) for _ in dims]
            if r.random() < 0.2:
                f["shape"]["frozen"] = True
        if r.random() < 0.1:
            f["doc"] = r.choice(["vdoc", "vdoc", ""])
        if r.random() < 0.1:
            f["meta"] = {"mk": r.choice(["mv", ""])}
        return f

    def new_tensor(self, name="?") -> str:
        r = self.rng
        kind = r.choice(["np", "np", "np", "np", "str", "ext", "lazy", "packed", "tpt", "tpt"])
        tid = self.h("t")
        n = r.choice([0, 1, 2, 3])
        op = {"op": "tensor", "id": tid, "kind": kind,
              "name": (r.choice([None, "t", "w", f"tn{self.cnt['t']}"]) if name == "?" else name)}
        if kind == "str":
            op.update(dtype=8, dims=[n], data=[[97 + r.randrange(4)] * r.randrange(0, 3) for _ in range(n)])
        elif kind == "ext":
            op.update(dtype=1, dims=[n], data=[], loc=r.choice(["nonexistent_c03/w.bin", "no_such_file.bin"]),
                      offset=r.choice([None, 0, 16]), length=r.choice([None, 4 * n]))
            # base_dir: empty / relative (what ir.load("dir/model.onnx") gives) / absolute; never part of the proto
            # (the key and the oracle use .location, not .path); chosen without a random draw
            op["base_dir"] = ["", "ckpt_c03/run7", "/nonexistent_c03/abs"][self.cnt["t"] % 3]
            if op["name"] is None:
                op["name"] = "ext"          # ExternalTensor requires a name
        elif kind == "packed":
            n = r.choice([1, 2, 4])
            op.update(dtype=22, dims=[n], data=[r.randrange(256) for _ in range((n + 1) // 2)])
        else:
            dims = r.choice([[], [n], [2, n]])
            if kind in ("np", "lazy") and r.random() < 0.5:
                # rank >= 2, distinct elements, backed by a transposed / Fortran / strided / reversed numpy array
                dims = r.choice([[2, 3], [3, 2], [2, 2], [2, 3, 2], [3, 1, 2]])
                op["layout"] = r.choice(["T", "T", "F", "F", "stride", "rev"])
            cnt = 1
            for d in dims:
                cnt *= d
            op.update(dtype=r.choice(DTYPES), dims=dims,
                      data=r.sample(range(cnt + 3), cnt) if "layout" in op else [r.randrange(6) for _ in range(cnt)])
            if kind == "lazy":
                op["cache"] = r.random() < 0.5
            if kind == "tpt":
                op["raw"] = r.random() < 0.6
        if r.random() < 0.1:
            op["doc"] = "tdoc"
        if r.random() < 0.3:
            op["meta"] = {"tk": "tv"} if r.random() < 0.6 else {"tk": "tv", "source": "ckpt"}
        self.emit(op)
        return tid

    def new_value(self, name="?", const=None, like_tensor=False, fields=None) -> str:
        vid = self.h("v")
        op = {"op": "value", "id": vid, "name": self.fresh_name() if name == "?" else name}
        if fields is not None:
            op.update(fields)
        elif like_tensor and const is not None:
            t = self.env.t[const]
            op["type"] = ["T", int(t.dtype), None]
            op["shape"] = {"dims": [int(d) for d in t.shape.dims]}
        else:
            op.update(self.vfields())
        if const is not None:
            op["const"] = const
        self.emit(op)
        return vid

    def plain_attr(self, name=None) -> dict:
        r = self.rng
        nm = name or r.choice(["alpha", "axis", "mode", "vals", "k", "value"])
        q = r.random()
        if q < 0.2:
            a = {"k": "int", "name": nm, "v": r.randrange(-3, 10)}
        elif q < 0.35:
            a = {"k": "float", "name": nm, "v": r.choice([0.0, 0.5, -1.25, 3.0, 1e30, float("inf")])}
        elif q < 0.44:
            a = {"k": "str", "name": nm, "v": r.choice(["s", "", "héllo"])}
        elif q < 0.495:    # byte blobs: invalid UTF-8 (stay bytes), valid UTF-8 / ASCII / empty (read back as str)
            a = {"k": "bytes", "name": nm, "hex": r.choice(["00fffe8041c3", "ff", "c328", "68c3a96c6c6f", "6162", "", "eda080"])}
        elif q < 0.5:
            a = {"k": "strsb", "name": nm, "v": r.choice([[{"hex": "fffe"}], ["x", {"hex": "6162"}], ["x", {"hex": "c328"}, "yy"]])}
        elif q < 0.6:
            a = {"k": "ints", "name": nm, "v": [r.randrange(5) for _ in range(r.randrange(0, 4))]}
        elif q < 0.68:
            a = {"k": "floats", "name": nm, "v": [r.choice([0.25, 2.0]) for _ in range(r.randrange(0, 3))]}
        elif q < 0.74:
            a = {"k": "strs", "name": nm, "v": [r.choice(["x", "yy"]) for _ in range(r.randrange(0, 3))]}
        elif q < 0.9:
            a = {"k": "tensor", "name": nm, "t": self.new_tensor()}
        elif q < 0.94:
            a = {"k": "tensors", "name": nm, "ts": [self.new_tensor(), self.new_tensor()]}
        else:
            a = {"k": "type", "name": nm, "type": ["T", r.choice(DTYPES), None], "shape": {"dims": [1, "N"]}}
        if r.random() < 0.08:
            a["doc"] = "adoc"
        return a

    # ---- scopes
    def own_values(self, gid) -> list:
        """Handles of the values a graph defines now (inputs, initializers, outputs of its nodes)."""
        g = self.env.g[gid]
        out = []
        for v in list(g.inputs) + list(g.initializers.values()) + [o for n in g for o in n.outputs]:
            hh = self.hv.get(id(v))
            if hh is not None and hh not in out:
                out.append(hh)
        return out

    def scope_values(self, gid) -> list:
        out = []
        while gid is not None:
            out += [x for x in self.own_values(gid) if x not in out]
            gid = self.ginfo[gid]["parent"]
        return out

    def graph_nodes(self, gid) -> list:
        return [self.hn[id(n)] for n in self.env.g[gid] if id(n) in self.hn]

    def usable(self, hs) -> list:
        """Values that can be referenced by name (non-empty name)."""
        return [x for x in hs if self.env.v[x].name]

    # ---- construction
    def new_node(self, visible, outer, in_fn=False, op_type=None, domain=None, overload="", attrs=None,
                 graph_attrs=()) -> tuple:
        r = self.rng
        ins = []
        for _ in range(r.randrange(0, 4)):
            q = r.random()
            if q < 0.12:
                ins.append(None)
            elif outer and q < 0.4:
                ins.append(r.choice(outer))
            elif visible:
                ins.append(r.choice(visible))
        n_out = r.choice([1, 1, 1, 2, 2, 3])
        nid = self.h("n")
        outs = [self.h("v") for _ in range(n_out)]
        prebuilt = r.random() < (0.65 if not outer else 0.85)
        if prebuilt:
            empties = set()
            if n_out >= 2 and r.random() < 0.3:
                empties.add(n_out - 1 if r.random() < 0.6 else r.randrange(n_out))     # trailing / middle optional output
            for i, vh in enumerate(outs):
                if i in empties:
                    self.emit({"op": "value", "id": vh, "name": ""})
                else:
                    op = {"op": "value", "id": vh, "name": self.fresh_name()}
                    op.update(self.vfields())
                    self.emit(op)
        al = list(attrs or [])
        for _ in range(r.choice([0, 0, 1, 1, 2])):
            a = self.plain_attr()
            if not any(x["name"] == a["name"] for x in al):
                al.append(a)
        if in_fn and r.random() < 0.3:
            al.append({"k": "ref", "name": "from_outer", "ref": r.choice(["alpha", "beta"]), "type": r.choice([1, 2, 3])})
        al += list(graph_attrs)
        op = {"op": "node", "id": nid, "domain": r.choice(["", "", "", "custom.domain", "ai.onnx"]) if domain is None else domain,
              "type": op_type or r.choice(["Add", "Relu", "Identity", "Custom", "Split", "Constant"]),
              "overload": overload or (r.choice(["v2", "ov"]) if r.random() < 0.07 else ""),     # at any IR version
              "ins": ins, "outs": outs, "attrs": al,
              "name": f"n{self.cnt['n']}" if r.random() < 0.7 else None}
        if r.random() < 0.1:
            op["doc"] = "ndoc"
        if r.random() < 0.1:
            op["meta"] = {"nk": "nv"}
        if r.random() < 0.08:
            op["version"] = 18
        self.emit(op)
        return nid, outs

    def gen_graph(self, depth: int, outer: list, fn: bool = False, parent=None) -> str:
        r = self.rng
        gid = self.h("g")
        self.ginfo[gid] = {"parent": parent, "fn": fn}
        ins = [self.new_value() for _ in range(r.randrange(1, 4) if depth == 0 or fn else r.randrange(0, 3))]
        own = list(ins)
        inits = []
        if not fn:
            for _ in range(r.choice([0, 1, 1, 2, 3]) if depth == 0 else r.choice([0, 0, 0, 1])):
                t = self.new_tensor()
                if ins and r.random() < (0.2 if depth == 0 else 0.3):
                    v = r.choice(ins)
                    if v in inits:
                        continue
                    self.emit({"op": "set_const", "v": v, "t": t})
                    inits.append(v)
                else:
                    q = r.random()
                    # every third tensor: the initializer is named like a name the graph generates (val_<k>), so that
                    # the names given to unnamed node outputs have to avoid it (no extra random draw: streams unchanged)
                    nm = f"val_{len(inits)}" if self.cnt["t"] % 3 == 1 and f"val_{len(inits)}" not in self.used else "?"
                    if nm != "?":
                        self.used.append(nm)
                    if q < 0.92:
                        v = self.new_value(name=nm, const=t, like_tensor=True)
                    elif q < 0.96:
                        v = self.new_value(name=nm, const=t, fields={"doc": "only a doc"})
                    else:
                        v = self.new_value(name=nm, const=t)
                    inits.append(v)
                    own.append(v)
        n_plain = r.randrange(1, 6) if depth == 0 else r.randrange(0, 4)
        n_ctrl = 0 if depth >= 2 else (r.choice([0, 0, 1, 1, 2]) if depth == 0 else r.choice([0, 0, 0, 1]))
        plan = ["p"] * n_plain + ["c"] * n_ctrl
        if depth == 0 and not fn:
            plan += [("call", f) for f in self.funcs if r.random() < 0.8]
        r.shuffle(plan)
        slots = []                       # node handle per plan position (control nodes are filled in afterwards)
        before = []                      # values visible before each plan position
        for kind in plan:
            before.append(list(own))
            if kind == "p":
                nid, outs = self.new_node(self.usable(own), self.usable(outer), in_fn=fn)
                own += outs
                slots.append(nid)
            elif kind == "c":
                slots.append(None)
            else:
                _, dom, name, ov = kind[1]
                nid, outs = self.new_node(self.usable(own), [], op_type=name, domain=dom, overload=ov)
                own += outs
                slots.append(nid)
        for i, kind in enumerate(plan):
            if kind != "c":
                continue
            late = r.random() < 0.3          # the subgraph may capture values defined LATER in this graph
            vis = self.usable((own if late else before[i]) + outer)
            q = r.random()
            if q < 0.55:
                ga = [{"k": "graph", "name": "body", "g": self.gen_graph(depth + 1, vis, parent=gid)}]
                ot = "Loop"
            elif q < 0.85:
                ga = [{"k": "graph", "name": "then_branch", "g": self.gen_graph(depth + 1, vis, parent=gid)},
                      {"k": "graph", "name": "else_branch", "g": self.gen_graph(depth + 1, vis, parent=gid)}]
                ot = "If"
            else:
                ga = [{"k": "graphs", "name": "branches",
                       "gs": [self.gen_graph(depth + 1, vis, parent=gid) for _ in range(r.randrange(1, 3))]}]
                ot = "Switch"
            nid, outs = self.new_node(self.usable(before[i]), self.usable(outer), in_fn=fn, op_type=ot, domain="",
                                      graph_attrs=ga)
            own += outs
            slots[i] = nid
        order = list(slots)
        if r.random() < 0.2:
            r.shuffle(order)                 # unsorted node order
        cands = self.usable([v for v in own if v not in ins and v not in inits]) or self.usable(own)
        outs = []
        for _ in range(r.randrange(1, 3) if depth == 0 or fn else r.randrange(0, 3)):
            q = r.random()
            if cands and q < 0.85:
                outs.append(r.choice(cands))
            elif self.usable(own):
                outs.append(r.choice(self.usable(own)))
        op = {"op": "graph", "id": gid, "ins": ins, "outs": outs, "nodes": order, "inits": inits,
              "name": r.choice(["main", "g", "", None]) if depth == 0 else r.choice(["sub", "body", "", None])}
        if r.random() < 0.12:
            op["doc"] = "gdoc"
        if r.random() < 0.1:
            op["meta"] = {"gk": "gv"}
        if depth == 0 and not fn:
            op["opsets"] = {"": r.choice([17, 20])}
            if r.random() < 0.4:
                op["opsets"]["custom.domain"] = 1
        elif fn:
            op["opsets"] = {"": 18} if r.random() < 0.8 else {}
        elif r.random() < 0.05:
            op["opsets"] = {"": 13}          # opset imports of a subgraph (not part of the proto format)
        self.emit(op)
        return gid

    def gen_function(self) -> None:
        r = self.rng
        save = self.used
        self.used = []                       # function scopes reuse the small name pool (separate scope)
        gid = self.gen_graph(1 if r.random() < 0.7 else 0, [], fn=True)
        self.used = save + [x for x in self.used if x not in save]
        fid = self.h("f")
        dom, name = r.choice(["custom.domain", "fd"]), f"F{self.cnt['f']}"
        ov = r.choice(["", "", "ov"]) if self.ir_version >= 10 else ""      # overloads exist from IR version 10
        attrs = []
        if r.random() < 0.6:
            attrs.append({"k": "undef", "name": "alpha", "type": r.choice([0, 1, 2])})
        if r.random() < 0.4:
            attrs.append({"k": "int", "name": "beta", "v": 3})
        self.emit({"op": "function", "id": fid, "domain": dom, "name": name, "overload": ov, "graph": gid, "attrs": attrs})
        self.funcs.append((fid, dom, name, ov))
        if self.ir_version < 10 and r.random() < 0.4:
            # known finding function-value-name-with-slash-below-ir10: a "/" in the name of a typed function value
            g = self.env.g[gid]
            c = [v for v in list(g.inputs) + [o for n in g for o in n.outputs]
                 if v.name and id(v) in self.hv and value_payload_key(v) is not None]
            if c:
                v = r.choice(c)
                self.emit({"op": "rename", "v": self.hv[id(v)], "name": v.name + "/" + r.choice(["b", "out/0"])})

    def gen_model(self) -> None:
        r = self.rng
        if r.random() < 0.3:
            for _ in range(r.choice([1, 1, 2])):
                self.gen_function()
        gid = self.gen_graph(0, [])
        self.root = gid
        op = {"op": "model", "graph": gid, "funcs": [f[0] for f in self.funcs],
              "ir_version": self.ir_version}
        if r.random() < 0.3:
            op["producer_name"] = "verif"
        if r.random() < 0.15:
            op["producer_version"] = "1.0"
        if r.random() < 0.1:
            op["domain"] = "dom"
        if r.random() < 0.1:
            op["model_version"] = 3
        if r.random() < 0.15:
            op["doc"] = "mdoc"
        if r.random() < 0.15:
            op["meta"] = {"mk": "mv", "b": "2"}
        # multi-device configurations: carried by the format from IR version 11 (dropped with a warning below)
        want_dev = r.random() < (0.5 if self.ir_version >= 11 else 0.15 if self.ir_version == 10 else 0.0)
        if want_dev and r.random() < 0.4:
            op["devcfgs"] = [self.devcfg_fields()]
        self.emit(op)
        if want_dev:
            for _ in range(r.choice([1, 1, 2]) - len(op.get("devcfgs", []))):
                self.emit(dict(self.devcfg_fields(), op="devcfg_add"))
            for _ in range(r.randrange(1, 6)):
                self.gen_shard()
        if r.random() < 0.1:                 # kept moderate: such cases skip the Coq comparison (unmodelled)
            for _ in range(r.randrange(1, 4)):
                self.gen_quant()
        if r.random() < 0.3:
            self.emit({"op": "reload"})          # the edit history starts from a proto-backed model

    # ---- graph.inputs / graph.outputs as MutableSequences: duplicates, del, slices, remove, clear, extend
    def gen_gio(self, gid, wild=False) -> None:
        r = self.rng
        g = self.env.g[gid]
        io = "out" if r.random() < 0.75 else "in"
        lst = g.outputs if io == "out" else g.inputs
        own = self.usable(self.own_values(gid))
        free = lambda v: io == "out" or wild or not v.uses()      # noqa: E731  (dropping a used input frees it)
        a = r.choice(["dup", "dup", "del", "del", "del_slice", "remove", "extend", "set_slice", "clear"])
        op = {"op": "gio", "g": gid, "io": io}
        if a == "dup":
            c = [self.hv[id(v)] for v in lst if id(v) in self.hv] if io == "out" else []
            if c:
                self.emit({"op": "gout_append" if r.random() < 0.7 else "gout_insert", "g": gid, "v": r.choice(c),
                           "i": r.randrange(len(lst) + 1)})
        elif a == "del" and len(lst):
            i = r.randrange(len(lst))
            if free(lst[i]):
                self.emit(dict(op, action="del", i=i if r.random() < 0.7 else i - len(lst)))
        elif a == "del_slice" and len(lst):
            start = r.randrange(len(lst))
            stop = min(len(lst), start + r.choice([1, 1, 2]))
            if all(free(v) for v in lst[start:stop]):
                self.emit(dict(op, action="del_slice", start=start, stop=stop, step=None))
        elif a == "remove" and len(lst):
            v = r.choice(list(lst))
            if free(v) and id(v) in self.hv:
                self.emit(dict(op, action="remove", v=self.hv[id(v)]))
        elif a == "extend":
            vs = [r.choice(own) for _ in range(r.choice([1, 2]))] if io == "out" and own else [self.new_value()]
            self.emit(dict(op, action="extend", vs=vs))
        elif a == "set_slice" and len(lst):
            start = r.randrange(len(lst))
            stop = min(len(lst), start + r.choice([1, 2]))
            if all(free(v) for v in lst[start:stop]):
                vs = [r.choice(own) for _ in range(r.choice([0, 1, 2]))] if io == "out" and own else [self.new_value()]
                self.emit(dict(op, action="set_slice", start=start, stop=stop, step=None, vs=vs))
        elif a == "clear" and io == "out" and r.random() < 0.4:
            self.emit(dict(op, action="clear"))

    def gen_dup_output_history(self, gid) -> None:
        """A typed node output listed twice in graph.outputs, one listing deleted, then the other removed or replaced
        (the value becomes an ordinary intermediate value again: flags, owner and value_info must follow)."""
        r = self.rng
        g = self.env.g[gid]
        c = [self.hv[id(o)] for n in g for o in n.outputs
             if id(o) in self.hv and o.name and value_payload_key(o) is not None]
        if not c:
            return
        v = r.choice(c)
        val = self.env.v[v]
        while sum(1 for x in g.outputs if x is val) < 2:
            self.emit({"op": "gout_append", "g": gid, "v": v})
        first = [i for i, x in enumerate(g.outputs) if x is val]
        q = r.random()
        if q < 0.6:
            self.emit({"op": "gio", "g": gid, "io": "out", "action": "del", "i": r.choice(first)})
        elif q < 0.8:
            self.emit({"op": "gio", "g": gid, "io": "out", "action": "del_slice", "start": first[0], "stop": first[0] + 1, "step": None})
        else:
            self.emit({"op": "gout_pop", "g": gid, "i": r.choice(first)})
        rest = [i for i, x in enumerate(g.outputs) if x is val]
        if not rest or r.random() < 0.15:
            return
        i = rest[0]
        others = [x for x in self.usable(self.own_values(gid)) if x != v]
        how = r.choice(["pop", "remove", "del", "set", "clear", "set_slice"])
        if how == "pop":
            self.emit({"op": "gout_pop", "g": gid, "i": i})
        elif how == "remove":
            self.emit({"op": "gio", "g": gid, "io": "out", "action": "remove", "v": v})
        elif how == "del":
            self.emit({"op": "gio", "g": gid, "io": "out", "action": "del", "i": i})
        elif how == "set" and others:
            self.emit({"op": "gout_set", "g": gid, "i": i, "v": r.choice(others)})
        elif how == "set_slice" and others:
            self.emit({"op": "gio", "g": gid, "io": "out", "action": "set_slice", "start": i, "stop": i + 1, "step": None,
                       "vs": [r.choice(others)]})
        else:
            self.emit({"op": "gio", "g": gid, "io": "out", "action": "clear"})
            if others:
                self.emit({"op": "gout_append", "g": gid, "v": r.choice(others)})

    # ---- quantization annotations (value.meta["quant_parameter_tensor_names"], GraphProto.quantization_annotation)
    def gen_quant(self, gid=None) -> None:
        r = self.rng
        gids = [x for x in sorted(self.env.g) if not self.ginfo[x]["fn"]]      # FunctionProto cannot carry them
        if not gids:
            return
        gid = gid if gid in gids and r.random() < 0.5 else r.choice(gids)
        g = self.env.g[gid]
        both = [v for v in g.inputs if v.is_initializer()]                     # input with a default value
        pool = both if both and r.random() < 0.5 else \
            list(g.inputs) + list(g.initializers.values()) + [o for n in g for o in n.outputs] + list(g.outputs)
        pool = [v for v in pool if v.name and id(v) in self.hv]
        if not pool:
            return
        v = r.choice(pool)
        items = r.choice([{"SCALE_TENSOR": "scale", "ZERO_POINT_TENSOR": "zp"}, {"SCALE_TENSOR": "s"}, {}, None]) \
            if v.meta.get(QUANT_KEY) else r.choice([{"SCALE_TENSOR": "scale", "ZERO_POINT_TENSOR": "zp"}, {"SCALE_TENSOR": "s"}])
        self.emit({"op": "set_quant", "v": self.hv[id(v)], "items": items})

    # ---- metadata / doc string edits (clear / pop / overwrite / add), on every carrier
    def gen_meta_edit(self) -> None:
        r = self.rng
        env = self.env
        kind = r.choice(["t", "t", "t", "t", "v", "v", "n", "g", "f", "m"])
        pool = {"t": env.t, "v": env.v, "n": env.n, "g": env.g, "f": env.f, "m": {None: env.model}}[kind]
        hs = sorted(pool, key=str)
        if not hs:
            return
        full = [h for h in hs if pool[h].metadata_props]
        h = r.choice(full) if full and r.random() < 0.75 else r.choice(hs)
        d = pool[h].metadata_props
        q = r.random()
        op = {"op": "meta_edit", "kind": kind, "h": h}
        if d and q < 0.4:
            op["action"] = "clear"                        # emptied after having been non-empty
        elif d and q < 0.65:
            op.update(action="pop", key=r.choice(sorted(d)))
        elif d and q < 0.8:
            op.update(action="set", key=r.choice(sorted(d)), val=r.choice(["overwritten", ""]))
        elif q < 0.9:
            op.update(action="update", items={"added": "1", "zz": "2"})
        else:
            op.update(action="set", key=r.choice(["new", "tk"]), val="nv")
        self.emit(op)
        if kind == "t" and r.random() < 0.15:
            self.emit({"op": "tensor_doc", "t": h, "doc": r.choice(["edited tdoc", "", None])})

    # ---- multi-device
    def devcfg_fields(self) -> dict:
        r = self.rng
        cid = self.h("c")
        nd = r.choice([1, 2, 2, 3])
        names = [["CPU", "GPU:0", "GPU:1"][i] for i in range(nd)] if r.random() < 0.6 else []
        return {"id": cid, "name": f"cfg{self.cnt['c']}", "num_devices": nd, "names": names}

    def live_cfgs(self) -> list:
        m = self.env.model
        return [h for h, c in sorted(self.env.c.items()) if any(c is x for x in m.device_configurations)]

    def member_nodes(self) -> list:
        return [self.hn[id(n)] for gid in sorted(self.env.g) for n in self.env.g[gid] if id(n) in self.hn]

    def gen_shard(self) -> None:
        """One valid node-level annotation: pipeline stage (0 included), a sharding through Node.shard, or an
        explicit NodeDeviceConfiguration (device groups, symbolic / fused sharded dims)."""
        r = self.rng
        cfgs, nodes = self.live_cfgs(), self.member_nodes()
        if not cfgs or not nodes:
            return
        c, n = r.choice(cfgs), r.choice(nodes)
        node, nd = self.env.n[n], self.env.c[c].num_devices
        io = [v for v in list(node.inputs) + list(node.outputs)
              if v is not None and v.name and id(v) in self.hv and (v.shape is None or len(v.shape) > 0)]
        stage = r.choice([None, None, 0, 0, 1, 2])
        q = r.random()
        if q < 0.3 or not io:
            self.emit({"op": "set_stage", "n": n, "c": c, "stage": r.choice([0, 0, 1, 2])})
            return
        v = r.choice(io)
        rank = len(v.shape) if v.shape is not None else None
        axis = r.randrange(-rank, rank) if rank else r.choice([0, 1, -1])
        if q < 0.8:
            self.emit({"op": "shard", "n": n, "v": self.hv[id(v)], "c": c, "axis": axis, "num": r.choice([1, 2, 2, 4]),
                       "devices": sorted(r.sample(range(nd), r.randrange(0, nd + 1))), "stage": stage})
        else:
            simple = [{"dim": r.choice([8, 6, "B", None]), "num": r.choice([1, 2])}]
            if r.random() < 0.3:
                simple.append({"dim": r.choice([4, None]), "num": 2})
            spec = {"v": self.hv[id(v)], "device": [-1, r.randrange(nd)] if r.random() < 0.5 else [r.randrange(nd)],
                    "groups": [], "dims": [{"axis": axis, "simple": simple}]}
            if -1 in spec["device"]:
                spec["groups"] = [[-1, sorted(r.sample(range(nd), r.randrange(1, nd + 1)))]]
            self.emit({"op": "node_devcfg", "n": n, "cfgs": [{"c": c, "stage": stage, "specs": [spec]}]})

    # ---- edit history
    def pick_graph(self):
        return self.rng.choice(sorted(self.env.g))

    def unused_outputs(self, gid) -> list:
        g = self.env.g[gid]
        return [self.hv[id(o)] for n in g for o in n.outputs
                if id(o) in self.hv and not o.uses() and not o.is_graph_output()]

    def gen_edit(self, wild: bool = False) -> None:
        r = self.rng
        kinds = [("rename", 8), ("rename_empty", 4), ("set_type", 4), ("set_shape", 4), ("set_dtype", 3), ("set_doc", 2),
                 ("set_meta", 2), ("append", 6), ("insert", 5), ("extend", 2), ("remove", 5), ("move", 6), ("sort", 3),
                 ("replace_input", 6), ("resize_inputs", 3), ("resize_outputs", 4), ("rauw", 4), ("gin_append", 2),
                 ("gin_pop", 1), ("gin_insert", 1), ("gin_set", 1), ("gout_append", 3), ("gout_pop", 2), ("gout_set", 2),
                 ("gout_insert", 1), ("init_set", 3), ("init_register", 2), ("init_pop", 2), ("set_const", 2),
                 ("node_set", 4), ("node_meta", 1), ("attr_add", 3), ("attr_pop", 1), ("graph_set", 2),
                 ("graph_meta", 1), ("opset", 1), ("model_set", 1), ("model_meta", 1), ("func_set", 1),
                 ("shard", 4), ("devcfg_remove", 3), ("devcfg_add", 1), ("replace_sharded_input", 3),
                 ("meta_edit", 14), ("reload", 2),
                 ("gio", 8), ("dup_output_history", 5), ("set_quant", 2)]
        k = r.choices([x for x, _ in kinds], [w for _, w in kinds])[0]
        gid = self.pick_graph()
        g = self.env.g[gid]
        fn = self.ginfo[gid]["fn"]
        nodes = self.graph_nodes(gid)
        own = self.own_values(gid)
        scope = self.usable(self.scope_values(gid))
        allv = sorted(self.env.v)
        if k == "rename" and own:
            v = r.choice(own)
            self.emit({"op": "rename", "v": v, "name": r.choice(self.used) if wild and self.used else self.fresh_name()})
        elif k == "rename_empty":
            c = self.unused_outputs(gid) if not wild else own
            if not wild and r.random() < 0.85:          # an empty name cannot carry type/shape/doc/metadata
                c = [x for x in c if value_payload_key(self.env.v[x]) is None]
            if c:
                self.emit({"op": "rename", "v": r.choice(c), "name": ""})
        elif k in ("set_type", "set_shape", "set_dtype", "set_doc", "set_meta") and own:
            v = r.choice(own)
            f = self.vfields()
            if k == "set_type":
                if self.env.v[v].shape is not None and "type" not in f and not self.shape_no_type:
                    self.emit({"op": "set_shape", "v": v, "shape": None})
                self.emit({"op": "set_type", "v": v, "type": f.get("type")})
            elif k == "set_shape":
                sh = f.get("shape", {"dims": [2, "K"]}) if (self.env.v[v].type is not None or self.shape_no_type) else None
                self.emit({"op": "set_shape", "v": v, "shape": sh if r.random() < 0.8 else None})
            elif k == "set_dtype":
                self.emit({"op": "set_dtype", "v": v, "dtype": r.choice(DTYPES)})
            elif k == "set_doc":
                self.emit({"op": "set_doc", "v": v, "doc": r.choice(["edited doc", "", None])})
            else:
                self.emit({"op": "set_meta", "v": v, "key": r.choice(["mk", "k2"]), "val": r.choice(["x", ""])})
        elif k in ("append", "insert", "extend"):
            outer = [] if self.ginfo[gid]["parent"] is None else self.usable(self.scope_values(self.ginfo[gid]["parent"]))
            new = [self.new_node(self.usable(own), outer, in_fn=fn)[0] for _ in range(2 if k == "extend" else 1)]
            if k == "append":
                self.emit({"op": "append", "g": gid, "n": new[0]})
            elif k == "extend" or not nodes:
                self.emit({"op": "extend", "g": gid, "ns": new})
            else:
                self.emit({"op": r.choice(["insert_before", "insert_after"]), "g": gid, "at": r.choice(nodes), "ns": new})
        elif k == "remove" and nodes:
            ns = r.sample(nodes, 1 if r.random() < 0.8 else min(2, len(nodes)))
            self.emit({"op": "remove", "g": gid, "ns": ns, "safe": not wild, "single": r.random() < 0.5})
        elif k == "move" and len(nodes) >= 2:
            n, at = r.sample(nodes, 2)
            self.emit({"op": "move", "g": gid, "n": n, "at": at, "before": r.random() < 0.5})
        elif k == "sort":
            self.emit({"op": "sort", "g": gid})
        elif k == "replace_input" and nodes:
            n = r.choice(nodes)
            k_in = len(self.env.n[n].inputs)
            if k_in:
                pool = allv if wild else scope
                v = r.choice(pool) if pool and r.random() < 0.85 else None
                self.emit({"op": "replace_input", "n": n, "i": r.randrange(k_in), "v": v})
        elif k == "resize_inputs" and nodes:
            n = r.choice(nodes)
            k_in = len(self.env.n[n].inputs)
            size = max(0, k_in + r.choice([-1, 1, 1, 2]))
            self.emit({"op": "resize_inputs", "n": n, "size": size})
            for i in range(k_in, size):
                if scope and r.random() < 0.6:
                    self.emit({"op": "replace_input", "n": n, "i": i, "v": r.choice(scope)})
        elif k == "resize_outputs" and nodes:
            n = r.choice(nodes)
            cur = list(self.env.n[n].outputs)
            size = max(0, len(cur) + r.choice([-1, -1, 1, 1, 2]))
            if size < len(cur) and not wild and any(o.is_graph_output() for o in cur[size:]):
                return
            new = [self.h("v") for _ in range(max(0, size - len(cur)))]
            st = self.emit({"op": "resize_outputs", "n": n, "size": size, "new": new})
            if st == "ok":
                for j, vh in enumerate(new):           # the new outputs are unnamed: the user names them
                    q = r.random()
                    if q < 0.6:
                        self.emit({"op": "rename", "v": vh, "name": self.fresh_name()})
                    elif q < 0.9:
                        self.emit({"op": "rename", "v": vh, "name": ""})
        elif k == "rauw" and len(own) >= 2:
            v, w = r.sample(own, 2)
            if not self.env.v[w].name and not wild:
                return
            self.emit({"op": "rauw", "v": v, "w": w, "go": r.random() < 0.6})
        elif k in ("gin_append", "gin_insert"):
            v = self.new_value()
            if k == "gin_append":
                self.emit({"op": "gin_append", "g": gid, "v": v})
            else:
                self.emit({"op": "gin_insert", "g": gid, "i": r.randrange(len(g.inputs) + 1), "v": v})
        elif k in ("gin_pop", "gin_set") and len(g.inputs):
            i = r.randrange(len(g.inputs))
            if g.inputs[i].uses() and not wild:
                return
            if k == "gin_pop":
                self.emit({"op": "gin_pop", "g": gid, "i": i})
            else:
                self.emit({"op": "gin_set", "g": gid, "i": i, "v": self.new_value()})
        elif k in ("gout_append", "gout_insert", "gout_set") and own:
            pool = allv if wild else self.usable(own)
            if not pool:
                return
            v = r.choice(pool)
            if k == "gout_append":
                self.emit({"op": "gout_append", "g": gid, "v": v})
            elif k == "gout_insert":
                self.emit({"op": "gout_insert", "g": gid, "i": r.randrange(len(g.outputs) + 1), "v": v})
            elif len(g.outputs):
                self.emit({"op": "gout_set", "g": gid, "i": r.randrange(len(g.outputs)), "v": v})
        elif k == "gout_pop" and len(g.outputs):
            self.emit({"op": "gout_pop", "g": gid, "i": r.randrange(len(g.outputs))})
        elif k in ("init_set", "init_register") and not fn:
            t = self.new_tensor()
            v = self.new_value(const=t, like_tensor=r.random() < 0.9)
            self.emit({"op": k, "g": gid, "v": v})
        elif k == "init_pop" and len(g.initializers):
            key = r.choice(list(g.initializers))
            v = g.initializers[key]
            if v.uses() and not v.is_graph_input() and not wild:
                return
            self.emit({"op": "init_pop", "g": gid, "key": key})
        elif k == "set_const" and len(g.initializers):
            v = self.hv.get(id(g.initializers[r.choice(list(g.initializers))]))
            if v:
                self.emit({"op": "set_const", "v": v, "t": self.new_tensor()})
        elif k == "node_set" and nodes:
            n = r.choice(nodes)
            field = r.choice(["name", "domain", "op_type", "overload", "doc_string", "version"])
            self.cnt["m"] += 1
            val = {"name": f"m{self.cnt['m']}", "domain": r.choice(["", "ai.onnx", "other.domain"]),
                   "op_type": r.choice(["Mul", "Edited"]), "overload": r.choice(["", "o2"]),
                   "doc_string": r.choice(["edited", "", None]), "version": r.choice([None, 19])}[field]
            self.emit({"op": "node_set", "n": n, "field": field, "val": val})
        elif k == "node_meta" and nodes:
            self.emit({"op": "node_meta", "n": r.choice(nodes), "key": "nk2", "val": "v"})
        elif k == "attr_add" and nodes:
            self.emit({"op": "attr_add", "n": r.choice(nodes), "attr": self.plain_attr()})
        elif k == "attr_pop" and nodes:
            n = r.choice(nodes)
            names = [a for a, x in self.env.n[n].attributes.items() if x.is_ref() or int(x.type) not in (5, 10)]
            if names:
                self.emit({"op": "attr_pop", "n": n, "name": r.choice(names)})
        elif k == "graph_set":
            field = r.choice(["name", "doc_string"])
            self.emit({"op": "graph_set", "g": gid, "field": field, "val": r.choice(["renamed", "", None])})
        elif k == "graph_meta":
            self.emit({"op": "graph_meta", "g": gid, "key": "gk2", "val": "gv2"})
        elif k == "opset":
            self.emit({"op": "opset", "g": gid, "domain": r.choice(["", "other.domain"]), "version": r.choice([1, 21])})
        elif k == "model_set":
            field = r.choice(["producer_name", "doc_string", "model_version", "ir_version", "domain"])
            val = {"producer_name": "edited", "doc_string": r.choice(["", "md2"]), "model_version": r.choice([None, 0, 7]),
                   "ir_version": r.choice([10, 11]), "domain": "d2"}[field]
            self.emit({"op": "model_set", "field": field, "val": val})
        elif k == "model_meta":
            self.emit({"op": "model_meta", "key": "mk2", "val": "mv2"})
        elif k == "gio":
            self.gen_gio(gid, wild)
        elif k == "dup_output_history":
            self.gen_dup_output_history(gid)
        elif k == "set_quant":
            self.gen_quant(gid)
        elif k == "reload":
            self.emit({"op": "reload"})
        elif k == "meta_edit":
            self.gen_meta_edit()
        elif k == "shard":
            self.gen_shard()
        elif k == "devcfg_add" and (self.env.c or wild) and self.env.model.ir_version >= 10:
            self.emit(dict(self.devcfg_fields(), op="devcfg_add"))
        elif k == "devcfg_remove" and self.live_cfgs():
            c = r.choice(self.live_cfgs())
            op = {"op": "devcfg_remove", "cascade": r.random() < 0.8}
            op.update({"name": self.env.c[c].name} if r.random() < 0.5 else {"c": c})
            self.emit(op)
        elif k == "replace_sharded_input":
            c = [(n, i) for n in self.member_nodes() for i, v in enumerate(self.env.n[n].inputs)
                 if v is not None and self.env.n[n].sharding_of(v)]
            if c:
                n, i = r.choice(c)
                gids = [g for g in sorted(self.env.g) if self.env.n[n].graph is self.env.g[g]]
                pool = self.usable(self.scope_values(gids[0])) if gids else []
                self.emit({"op": "replace_input", "n": n, "i": i, "v": r.choice(pool) if pool and r.random() < 0.8 else None})
        elif k == "func_set" and self.funcs:
            f = r.choice(self.funcs)[0]
            field = r.choice(["name", "doc_string", "overload"] if self.env.model.ir_version >= 10 else ["name", "doc_string"])
            self.emit({"op": "func_set", "f": f, "field": field,
                       "val": {"name": "Frenamed", "doc_string": "fdoc", "overload": "ov2"}[field]})

    # ---- deliberate breakage of one hypothesis of `serializable`
    def gen_break(self) -> None:
        r = self.rng
        b = r.choice(BREAKS)
        gids = sorted(self.env.g)
        gid = r.choice(gids)
        g = self.env.g[gid]
        own = self.own_values(gid)
        nodes = self.graph_nodes(gid)
        done = False
        if b == "dup-name" and len(self.usable(own)) >= 2:
            v, w = r.sample(self.usable(own), 2)
            done = self.emit({"op": "rename", "v": v, "name": self.env.v[w].name}) == "ok"
        elif b == "name-none" and own:
            c = self.unused_outputs(gid) or own
            done = self.emit({"op": "rename", "v": r.choice(c), "name": None}) == "ok"
        elif b == "output-name-none" and self.unused_outputs(gid):
            done = self.emit({"op": "rename", "v": r.choice(self.unused_outputs(gid)), "name": None}) == "ok"
        elif b == "free-value" and nodes:
            v = self.new_value()
            n = r.choice(nodes)
            k_in = len(self.env.n[n].inputs)
            self.emit({"op": "resize_inputs", "n": n, "size": k_in + 1})
            done = self.emit({"op": "replace_input", "n": n, "i": k_in, "v": v}) == "ok"
        elif b == "init-no-const" and len(g.initializers):
            v = self.hv.get(id(g.initializers[r.choice(list(g.initializers))]))
            done = v is not None and self.emit({"op": "set_const", "v": v, "t": None}) == "ok"
        elif b == "init-no-info" and not self.ginfo[gid]["fn"]:
            v = self.new_value(const=self.new_tensor(), fields={})
            done = self.emit({"op": "init_set", "g": gid, "v": v}) == "ok"
        elif b == "shadow" and self.ginfo[gid]["parent"] is not None and own:
            outer = self.usable(self.scope_values(self.ginfo[gid]["parent"]))
            if outer:
                done = self.emit({"op": "rename", "v": r.choice(own), "name": self.env.v[r.choice(outer)].name}) == "ok"
        elif b == "input-twice" and len(g.inputs):
            v = self.hv.get(id(r.choice(list(g.inputs))))
            done = v is not None and self.emit({"op": "gin_append", "g": gid, "v": v}) == "ok"
        elif b == "empty-name-used":
            c = [x for x in own if self.env.v[x].uses() or self.env.v[x].is_graph_output()]
            if c:
                done = self.emit({"op": "rename", "v": r.choice(c), "name": ""}) == "ok"
        elif b == "shared-subgraph" and nodes and len(gids) >= 2:
            sub = [x for x in gids if self.ginfo[x]["parent"] is not None]
            if sub:
                done = self.emit({"op": "attr_add", "n": r.choice(nodes),
                                  "attr": {"k": "graph", "name": "shared", "g": r.choice(sub)}}) == "ok"
        elif b == "const-on-non-init":
            c = [x for x in own if not self.env.v[x].is_initializer()]
            if c:
                done = self.emit({"op": "set_const", "v": r.choice(c), "t": self.new_tensor()}) == "ok"
        elif b == "output-foreign":
            others = [x for x in sorted(self.env.v) if x not in own and self.env.v[x].name]
            if others:
                done = self.emit({"op": "gout_append", "g": gid, "v": r.choice(others)}) == "ok"
        elif b == "remove-unsafe" and nodes:
            c = [n for n in nodes if any(o.uses() for o in self.env.n[n].outputs)] or nodes
            done = self.emit({"op": "remove", "g": gid, "ns": [r.choice(c)], "safe": False}) == "ok"
        elif b == "node-name-none" and nodes:
            done = self.emit({"op": "node_set", "n": r.choice(nodes), "field": "name", "val": None}) == "ok"
        elif b == "dup-function" and len(self.funcs) >= 2:
            done = self.emit({"op": "func_set", "f": self.funcs[0][0], "field": "name", "val": self.funcs[1][2]}) == "ok"
            self.emit({"op": "func_set", "f": self.funcs[0][0], "field": "domain", "val": self.funcs[1][1]})
            self.emit({"op": "func_set", "f": self.funcs[0][0], "field": "overload", "val": self.funcs[1][3]})
        if done:
            self.breaks.append(b)

    def recipe(self) -> dict:
        return {"ops": self.ops, "breaks": self.breaks}


def gen_recipe(rng) -> dict:
    """One generated case: construction, an edit history, and (for a minority) one deliberate breakage."""
    g = Gen(rng)
    g.gen_model()
    q = rng.random()
    n_edits = 0 if q < 0.25 else rng.randrange(1, 4) if q < 0.6 else rng.randrange(3, 10)
    for _ in range(n_edits):
        g.gen_edit(wild=rng.random() < 0.04)
    if rng.random() < 0.2:
        for _ in range(3):
            g.gen_break()
            if g.breaks:
                break
    return g.recipe()

# --------------------------------------------------------------------------- oracle, part (a): snapshots of every public accessor


def _shape_facts(s):
    if s is None:
        return None
    return (id(s), tuple(repr(d) for d in s.dims), tuple(s.get_denotation(i) for i in range(len(s.dims))), s.frozen)


def _type_facts(t):
    if t is None:
        return None
    return (id(t), repr(t), getattr(t, "denotation", None))


def _tensor_facts(t) -> dict:
    import onnx
    import onnx_ir as ir
    from onnx_ir import serde
    f = {"class": type(t).__name__, "name": t.name, "dtype": int(t.dtype), "shape": _shape_facts(t.shape)[1:],
         "doc": t.doc_string, "meta": dict(t.metadata_props)}
    if isinstance(t, ir.ExternalTensor):        # never read: the file does not exist
        f["ext"] = (os.fspath(t.location), t.offset, t.length, os.fspath(t.base_dir))
    elif isinstance(t, serde.TensorProtoTensor):
        p = onnx.TensorProto()
        p.CopyFrom(t.raw)
        p.ClearField("name")
        f["raw"] = p.SerializeToString(deterministic=True)
    elif isinstance(t, ir.StringTensor):
        f["data"] = tuple(bytes(x) for x in t.string_data())
    else:
        f["data"] = t.tobytes()
    return f


class Reach:
    """Every object reachable from a model through public accessors (own traversal, independent of PART 1):
    graphs (root, function bodies, graph attributes), nodes (members + producers + consumers found through
    uses()), values, tensors, attributes, functions."""

    def __init__(self, model):
        import onnx_ir as ir
        self.model = model
        self.graphs, self.nodes, self.values, self.tensors, self.attrs = {}, {}, {}, {}, {}
        self.member_nodes = set()
        self.refs: dict = {}                       # id(graph) -> number of references (root/function/attribute)
        self._T = ir.AttributeType
        self._graph(model.graph)
        for f in model.functions.values():
            self._graph(f.graph)
            for a in f.attributes.values():
                self._attr(a)
        work = list(self.values.values())
        while work:                                # closure through producer() / uses()
            v = work.pop()
            for n in [v.producer()] + [u.node for u in v.uses()]:
                if n is not None and id(n) not in self.nodes:
                    before = set(self.values)
                    self._node(n, member=False)
                    work += [self.values[k] for k in set(self.values) - before]

    def _value(self, v):
        if v is None or id(v) in self.values:
            return
        self.values[id(v)] = v
        if v.const_value is not None:
            self.tensors[id(v.const_value)] = v.const_value

    def _attr(self, a):
        self.attrs[id(a)] = a
        if a.is_ref() or a.value is None:
            return
        T = self._T
        if a.type == T.GRAPH:
            self._graph(a.value)
        elif a.type == T.GRAPHS:
            for g in a.value:
                self._graph(g)
        elif a.type == T.TENSOR:
            self.tensors[id(a.value)] = a.value
        elif a.type == T.TENSORS:
            for t in a.value:
                self.tensors[id(t)] = t

    def _node(self, n, member=True):
        if id(n) in self.nodes:
            return
        self.nodes[id(n)] = n
        for v in n.inputs:
            self._value(v)
        for v in n.outputs:
            self._value(v)
        if member:                                 # graphs hanging off a node outside the model are not part of it
            for a in n.attributes.values():
                self._attr(a)

    def _graph(self, g):
        self.refs[id(g)] = self.refs.get(id(g), 0) + 1
        if id(g) in self.graphs:
            return
        self.graphs[id(g)] = g
        for v in g.inputs:
            self._value(v)
        for v in g.initializers.values():
            self._value(v)
        for n in g:
            self.member_nodes.add(id(n))
            self._node(n)
        for v in g.outputs:
            self._value(v)


def _devcfg_facts(cfgs) -> tuple:
    """Node.device_configurations as facts (objects by id)."""
    out = []
    for c in cfgs:
        specs = tuple((None if sp.value is None else id(sp.value), tuple(sp.device),
                       tuple((e.key, tuple(e.value)) for e in sp.index_to_device_group_map),
                       tuple((d.axis, tuple((repr(x.dim), x.num_shards) for x in d.simple_shardings))
                             for d in sp.sharded_dims)) for sp in c.sharding_specs)
        out.append((id(c), None if c.configuration is None else id(c.configuration), c.pipeline_stage, specs))
    return tuple(out)


def _attr_facts(a):
    import onnx_ir as ir
    T = ir.AttributeType
    if a.is_ref() or a.value is None:
        val = None
    elif a.type == T.GRAPH:
        val = id(a.value)
    elif a.type == T.GRAPHS:
        val = tuple(id(g) for g in a.value)
    elif a.type == T.TENSOR:
        val = id(a.value)
    elif a.type == T.TENSORS:
        val = tuple(id(t) for t in a.value)
    elif a.type in (T.TYPE_PROTO,):
        val = (_type_facts(a.value.type), _shape_facts(a.value.shape))
    else:
        val = repr(a.value)
    return (id(a), a.name, int(a.type), a.ref_attr_name, a.doc_string, val)


def snapshot(model) -> dict:
    """Deep structural snapshot: object id -> every public fact (references as object ids).  The objects stay
    alive between two snapshots of the same model, so ids are stable handles."""
    R = Reach(model)
    s = {"_keep": R}
    for i, v in R.values.items():
        p = v.producer()
        s[("v", i)] = {
            "name": v.name, "type": _type_facts(v.type), "shape": _shape_facts(v.shape), "doc": v.doc_string,
            "meta": dict(v.metadata_props), "store": {k: repr(x) for k, x in v.meta.items()},
            "const": None if v.const_value is None else id(v.const_value), "producer": None if p is None else id(p),
            "index": v.index(), "uses": tuple((id(u.node), u.idx) for u in v.uses()),
            "consumers": tuple(id(n) for n in v.consumers()), "dtype": None if v.dtype is None else int(v.dtype),
            "graph": None if v.graph is None else id(v.graph),
            "flags": (v.is_graph_input(), v.is_graph_output(), v.is_initializer())}
    for i, n in R.nodes.items():
        s[("n", i)] = {
            "name": n.name, "domain": n.domain, "op_type": n.op_type, "overload": n.overload, "version": n.version,
            "inputs": tuple(None if v is None else id(v) for v in n.inputs), "outputs": tuple(id(v) for v in n.outputs),
            "attrs": tuple((k, _attr_facts(a)) for k, a in n.attributes.items()), "doc": n.doc_string,
            "meta": dict(n.metadata_props), "graph": None if n.graph is None else id(n.graph),
            "devices": _devcfg_facts(n.device_configurations)}
    for i, g in R.graphs.items():
        s[("g", i)] = {
            "name": g.name, "doc": g.doc_string, "opsets": tuple(g.opset_imports.items()), "meta": dict(g.metadata_props),
            "inputs": tuple(id(v) for v in g.inputs), "outputs": tuple(id(v) for v in g.outputs),
            "inits": tuple((k, id(v)) for k, v in g.initializers.items()), "nodes": tuple(id(n) for n in g)}
    for i, t in R.tensors.items():
        s[("t", i)] = _tensor_facts(t)
    for k, f in model.functions.items():
        s[("f", id(f))] = {"key": k, "domain": f.domain, "name": f.name, "overload": f.overload, "doc": f.doc_string,
                           "opsets": tuple(f.opset_imports.items()), "meta": dict(f.metadata_props),
                           "attrs": tuple((k2, _attr_facts(a)) for k2, a in f.attributes.items()), "graph": id(f.graph)}
    m = model
    s[("m", 0)] = {"ir_version": m.ir_version, "producer_name": m.producer_name, "producer_version": m.producer_version,
                   "domain": m.domain, "model_version": m.model_version, "doc": m.doc_string, "meta": dict(m.metadata_props),
                   "functions": tuple((k, id(f)) for k, f in m.functions.items()), "graph": id(m.graph),
                   "opsets": tuple(m.opset_imports.items()), "devices": tuple((id(c), c.name, c.num_devices, tuple(c.device_names)) for c in m.device_configurations)}
    return s


def snapshot_diff(s0: dict, s1: dict) -> list:
    """Facts that differ between two snapshots, except the documented effect: the name of a tensor that is the
    const_value of an initializer may become the name of (one of) the initializer value(s) holding it."""
    bad = []
    holders: dict = {}                    # tensor id -> names of the initializer values holding it
    for key, f in s0.items():
        if key[0] == "g":
            for _, vid in f["inits"]:
                vf = s0[("v", vid)]
                if vf["const"] is not None:
                    holders.setdefault(vf["const"], set()).add(vf["name"])
    for key in s0:
        if key == "_keep":
            continue
        if key not in s1:
            bad.append(f"side-effect:{key[0]}.reachable: object no longer reachable after to_proto")
            continue
        a, b = s0[key], s1[key]
        if a == b:
            continue
        for fld in a:
            if a[fld] != b.get(fld):
                if key[0] == "t" and fld == "name" and b["name"] in holders.get(key[1], ()):
                    continue
                bad.append(f"side-effect:{key[0]}.{fld}: {key[0]} {a.get('name')!r}: {fld} changed {a[fld]!r} -> {b.get(fld)!r}"[:300])
    for key in s1:
        if key not in s0:
            bad.append(f"side-effect:{key[0]}.reachable: new object reachable after to_proto")
    return bad


def tensor_names_aligned(model) -> list:
    """After a successful to_proto every initializer tensor carries the name of a value that holds it."""
    bad = []
    R = Reach(model)
    holders: dict = {}
    for g in R.graphs.values():
        for v in g.initializers.values():
            if v.const_value is not None:
                holders.setdefault(id(v.const_value), set()).add(v.name)
    for tid, names in holders.items():
        t = R.tensors[tid]
        if t.name not in names:
            bad.append(f"side-effect:tensor-name: initializer tensor name {t.name!r} is not the name of its value {sorted(map(repr, names))}")
    return bad


# --------------------------------------------------------------------------- oracle, part (c): independent isomorphism check


def _falsy_eq(a, b) -> bool:
    return (a or None) == (b or None)


def _same_type(a, b) -> bool:
    if a is None or b is None:
        return a is None and b is None
    if type(a).__name__ != type(b).__name__ or not _falsy_eq(getattr(a, "denotation", None), getattr(b, "denotation", None)):
        return False
    if type(a).__name__ in ("TensorType", "SparseTensorType"):
        return int(a.dtype) == int(b.dtype)
    return _same_type(a.elem_type, b.elem_type)


def _dim_fact(d):
    return d if isinstance(d, int) else ("sym", d.value)        # SymbolicDim(None) is not the int 0


def _dims(s):
    return tuple((d if isinstance(d, int) else ("sym", d.value), s.get_denotation(i) or None) for i, d in enumerate(s.dims))


def _same_shape(a, b) -> bool:
    if a is None or b is None:
        return a is None and b is None
    return _dims(a) == _dims(b)


def _tensor_content(t):
    import onnx_ir as ir
    if isinstance(t, ir.ExternalTensor):
        return ("ext", os.fspath(t.location), t.offset, t.length)
    if int(t.dtype) == 8:
        return ("str", tuple(bytes(x) for x in t.string_data()))
    import numpy as np
    try:                                   # the LOGICAL elements in row-major order, not Tensor.tobytes()
        a = np.ascontiguousarray(t.numpy())
        return ("elements", str(a.dtype), tuple(a.shape), a.tobytes())
    except Exception:  # noqa: BLE001
        return ("bytes", t.tobytes())


def _same_tensor(a, b, name_b=None) -> list:
    """Differences between two tensors (dtype, shape, bytes, doc, metadata, name)."""
    d = []
    if int(a.dtype) != int(b.dtype):
        d.append(f"dtype {a.dtype} vs {b.dtype}")
    if _dims(a.shape) != _dims(b.shape):
        d.append(f"shape {a.shape} vs {b.shape}")
    try:
        if _tensor_content(a) != _tensor_content(b):
            d.append("bytes differ")
    except Exception as e:  # noqa: BLE001
        d.append(f"content unreadable: {type(e).__name__}")
    if not _falsy_eq(a.doc_string, b.doc_string):
        d.append(f"doc {a.doc_string!r} vs {b.doc_string!r}")
    if dict(a.metadata_props) != dict(b.metadata_props):
        d.append("metadata differ")
    want = a.name if name_b is None else name_b
    if not _falsy_eq(want, b.name):
        d.append(f"name {want!r} vs {b.name!r}")
    return d


def _f32(x):
    import struct
    return "nan" if x != x else struct.pack("<f", x)


def _trim(outs):
    outs = list(outs)
    while outs and not outs[-1].name:
        outs.pop()
    return outs


class IsoCheck:
    """Simultaneous traversal of two models building a bijection on graphs / nodes / values."""

    def __init__(self, m1, m2):
        import onnx_ir as ir
        self.T = ir.AttributeType
        self.bad: list = []
        self.vm, self.nm, self.gm = {}, {}, {}          # id(obj1) -> obj2
        self.rv, self.rn, self.rg = {}, {}, {}          # id(obj2) -> obj1
        self.vpairs, self.fn_graphs = [], set()
        self.cm: dict = {}                              # id(ModelConfiguration of m1) -> that of m2
        self.npairs: list = []
        self.multi_device = m1.ir_version >= MULTI_DEVICE_IR_VERSION
        self.model(m1, m2)
        self.links()

    def err(self, aspect, msg):
        self.bad.append(f"iso:{aspect}: {msg}"[:300])

    def bind(self, fwd, rev, a, b, what) -> bool:
        """True when the pair is new (and must be compared)."""
        if id(a) in fwd:
            if fwd[id(a)] is not b:
                self.err("sharing", f"{what} {getattr(a, 'name', None)!r} corresponds to two different objects after the round trip")
            return False
        if id(b) in rev:
            self.err("sharing", f"two different {what}s correspond to the same object {getattr(b, 'name', None)!r} after the round trip")
            return False
        fwd[id(a)], rev[id(b)] = b, a
        return True

    # ---- leaves
    def value(self, a, b, where):
        if a is None or b is None:
            if not (a is None and b is None):
                self.err("connectivity", f"{where}: optional (None) input not preserved: {a!r} vs {b!r}")
            return
        if not self.bind(self.vm, self.rv, a, b, "value"):
            return
        self.vpairs.append((a, b, where))
        if a.name != b.name:
            self.err("name", f"{where}: value name {a.name!r} vs {b.name!r}")
        # documented: "Users expect initialized values to have shape and type information": an initializer's
        # missing type / missing shape may come back filled in from its tensor
        fill = a.is_initializer() and b.const_value is not None
        if not _same_type(a.type, b.type):
            if not (fill and a.type is None and _same_type(b.type, _tensor_type(b.const_value))):
                self.err("type", f"{where}: value {a.name!r} type {a.type!r} vs {b.type!r}")
        if not _same_shape(a.shape, b.shape):
            if not (fill and a.shape is None and _same_shape(b.shape, b.const_value.shape)):
                self.err("shape", f"{where}: value {a.name!r} shape {a.shape!r} (type {a.type!r}) vs {b.shape!r}")
        if not _falsy_eq(a.doc_string, b.doc_string):
            self.err("doc", f"{where}: value {a.name!r} doc {a.doc_string!r} vs {b.doc_string!r}")
        if dict(a.metadata_props) != dict(b.metadata_props):
            self.err("metadata", f"{where}: value {a.name!r} metadata {dict(a.metadata_props)} vs {dict(b.metadata_props)}")
        if (a.const_value is None) != (b.const_value is None):
            self.err("const", f"{where}: value {a.name!r} const_value present {a.const_value is not None} vs {b.const_value is not None}")
        elif a.const_value is not None:
            d = _same_tensor(a.const_value, b.const_value, name_b=b.name if a.is_initializer() else None)
            if d:
                self.err("const", f"{where}: tensor of {a.name!r}: {d}")
        qa, qb = a.meta.get(QUANT_KEY) or None, b.meta.get(QUANT_KEY) or None
        if qa != qb and not (a.graph is not None and id(a.graph) in self.fn_graphs):      # not carried by FunctionProto
            self.err("quantization", f"{where}: value {a.name!r} quantization annotation {qa} vs {qb}")
        fa = (a.is_graph_input(), a.is_graph_output(), a.is_initializer())
        fb = (b.is_graph_input(), b.is_graph_output(), b.is_initializer())
        if fa != fb:
            self.err("flags", f"{where}: value {a.name!r} (input,output,initializer) flags {fa} vs {fb}")

    def attr(self, a, b, where):
        T = self.T
        if a.name != b.name or a.is_ref() != b.is_ref() or (a.type != b.type and not (a.value is None and b.value is None and not a.is_ref())):
            self.err("attr", f"{where}: attribute {a.name!r}/{a.type!r}/ref={a.is_ref()} vs {b.name!r}/{b.type!r}/ref={b.is_ref()}")
            return
        if not _falsy_eq(a.doc_string, b.doc_string):
            self.err("doc", f"{where}: attribute {a.name!r} doc {a.doc_string!r} vs {b.doc_string!r}")
        if a.is_ref():
            if a.ref_attr_name != b.ref_attr_name:
                self.err("attr", f"{where}: attribute {a.name!r} refers to {a.ref_attr_name!r} vs {b.ref_attr_name!r}")
            return
        x, y = a.value, b.value
        if x is None or y is None:
            if not (x is None and y is None):
                self.err("attr", f"{where}: attribute {a.name!r} value {x!r} vs {y!r}")
            return
        w = f"{where}.{a.name}"
        if a.type == T.GRAPH:
            self.graph(x, y, w)
        elif a.type == T.GRAPHS:
            if len(x) != len(y):
                self.err("attr", f"{w}: {len(x)} graphs vs {len(y)}")
            for i, (g, h2) in enumerate(zip(x, y)):
                self.graph(g, h2, f"{w}[{i}]")
        elif a.type == T.TENSOR:
            d = _same_tensor(x, y)
            if d:
                self.err("attr-tensor", f"{w}: {d}")
        elif a.type == T.TENSORS:
            if len(x) != len(y):
                self.err("attr", f"{w}: {len(x)} tensors vs {len(y)}")
            for t, u in zip(x, y):
                d = _same_tensor(t, u)
                if d:
                    self.err("attr-tensor", f"{w}: {d}")
        elif a.type == T.FLOAT:
            if _f32(x) != _f32(y):
                self.err("attr", f"{w}: {x!r} vs {y!r}")
        elif a.type == T.FLOATS:
            if [_f32(v) for v in x] != [_f32(v) for v in y]:
                self.err("attr", f"{w}: {x!r} vs {y!r}")
        elif a.type == T.TYPE_PROTO:
            if not _same_type(x.type, y.type) or not _same_shape(x.shape, y.shape):
                self.err("attr", f"{w}: {x!r} vs {y!r}")
        elif a.type in (T.INTS, T.STRINGS):
            if list(x) != list(y):
                self.err("attr", f"{w}: {x!r} vs {y!r}")
        elif a.type == T.STRING and isinstance(x, (bytes, bytearray)):
            # a byte blob comes back as the SAME bytes, or - when it is valid UTF-8 - as the str it decodes to
            # (text canonicalisation of the reader; the np table of the model carries the same normalisation)
            try:
                txt = bytes(x).decode("utf-8")
            except UnicodeDecodeError:
                txt = None
            if not ((isinstance(y, (bytes, bytearray)) and bytes(y) == bytes(x) and txt is None) or (isinstance(y, str) and txt is not None and y == txt)):
                self.err("attr", f"{w}: {x!r} vs {y!r} (type {type(y).__name__})")
        elif a.type == T.STRING:
            if type(x) is not type(y) or x != y:
                self.err("attr", f"{w}: {x!r} vs {y!r} (type {type(y).__name__})")
        elif x != y:
            self.err("attr", f"{w}: {x!r} vs {y!r}")

    def attrs(self, A, B, where, ordered=True):
        if (list(A) != list(B)) if ordered else (sorted(A) != sorted(B)):
            self.err("attr", f"{where}: attribute names {list(A)} vs {list(B)}")
        for k in A:
            if k in B:
                self.attr(A[k], B[k], where)

    # ---- structure
    def node(self, a, b, where):
        if not self.bind(self.nm, self.rn, a, b, "node"):
            return
        if not _falsy_eq(a.name, b.name):
            self.err("name", f"{where}: node name {a.name!r} vs {b.name!r}")
        if (a.domain, a.op_type, a.overload) != (b.domain, b.op_type, b.overload):
            self.err("op", f"{where}: operator {a.op_identifier()} vs {b.op_identifier()}")
        if not _falsy_eq(a.doc_string, b.doc_string):
            self.err("doc", f"{where}: node doc {a.doc_string!r} vs {b.doc_string!r}")
        if dict(a.metadata_props) != dict(b.metadata_props):
            self.err("metadata", f"{where}: node metadata {dict(a.metadata_props)} vs {dict(b.metadata_props)}")
        if len(a.inputs) != len(b.inputs):
            self.err("connectivity", f"{where}: {len(a.inputs)} inputs vs {len(b.inputs)}")
        for i, (x, y) in enumerate(zip(a.inputs, b.inputs)):
            self.value(x, y, f"{where}.in[{i}]")
        oa, ob = _trim(a.outputs), _trim(b.outputs)        # trailing empty-named outputs are dropped by design
        if len(oa) != len(ob):
            self.err("connectivity", f"{where}: outputs {[v.name for v in a.outputs]} vs {[v.name for v in b.outputs]}")
        for i, (x, y) in enumerate(zip(oa, ob)):
            self.value(x, y, f"{where}.out[{i}]")
        self.attrs(a.attributes, b.attributes, where)
        self.npairs.append((a, b, where))

    def device_configurations(self, a, b, where):
        """Node-level multi-device data (through the finished bijection): the configuration must be the model
        configuration object corresponding to the original one, pipeline stage None is not stage 0, sharding
        specs refer to the corresponding values."""
        ca, cb = tuple(a.device_configurations), tuple(b.device_configurations)
        if not self.multi_device:
            # below IR 11 device configurations are not part of the round trip (the serializer drops those of the
            # nodes it reaches with the model's IR version, with a warning; nodes of subgraphs keep theirs because
            # serialize_attribute_into does not pass the IR version down: observed, no claim either way)
            return
        if len(ca) != len(cb):
            self.err("device", f"{where}: {len(ca)} node device configurations vs {len(cb)}")
        for x, y in zip(ca, cb):
            w = f"{where}@{getattr(x.configuration, 'name', None)}"
            if x.configuration is None or y.configuration is None or self.cm.get(id(x.configuration)) is not y.configuration:
                self.err("device", f"{w}: configuration {x.configuration!r} vs {y.configuration!r} (not the corresponding model configuration)")
            if (x.pipeline_stage is None) != (y.pipeline_stage is None) or x.pipeline_stage != y.pipeline_stage:
                self.err("device-stage", f"{w}: pipeline stage {x.pipeline_stage!r} vs {y.pipeline_stage!r}")
            if len(x.sharding_specs) != len(y.sharding_specs):
                self.err("device-spec", f"{w}: {len(x.sharding_specs)} sharding specs vs {len(y.sharding_specs)}")
            for sx, sy in zip(x.sharding_specs, y.sharding_specs):
                if sx.value is None or self.vm.get(id(sx.value)) is not sy.value:
                    self.err("device-spec", f"{w}: sharded value {getattr(sx.value, 'name', None)!r} vs {getattr(sy.value, 'name', None)!r} (not the corresponding value)")
                if tuple(sx.device) != tuple(sy.device):
                    self.err("device-spec", f"{w}: devices {sx.device} vs {sy.device}")
                gx = tuple((e.key, tuple(e.value)) for e in sx.index_to_device_group_map)
                gy = tuple((e.key, tuple(e.value)) for e in sy.index_to_device_group_map)
                if gx != gy:
                    self.err("device-spec", f"{w}: device groups {gx} vs {gy}")
                dx = tuple((d.axis, tuple((_dim_fact(q.dim), q.num_shards) for q in d.simple_shardings)) for d in sx.sharded_dims)
                dy = tuple((d.axis, tuple((_dim_fact(q.dim), q.num_shards) for q in d.simple_shardings)) for d in sy.sharded_dims)
                if dx != dy:
                    self.err("device-spec", f"{w}: sharded dims {dx} vs {dy}")

    def graph(self, a, b, where, fn=False):
        if not self.bind(self.gm, self.rg, a, b, "graph"):
            return
        if fn:
            self.fn_graphs.add(id(a))
        elif not _falsy_eq(a.name, b.name):
            self.err("name", f"{where}: graph name {a.name!r} vs {b.name!r}")
        if not _falsy_eq(a.doc_string, b.doc_string):
            self.err("doc", f"{where}: graph doc {a.doc_string!r} vs {b.doc_string!r}")
        if dict(a.metadata_props) != dict(b.metadata_props):
            self.err("metadata", f"{where}: graph metadata {dict(a.metadata_props)} vs {dict(b.metadata_props)}")
        for what, xs, ys in (("inputs", list(a.inputs), list(b.inputs)), ("outputs", list(a.outputs), list(b.outputs))):
            if len(xs) != len(ys):
                self.err("connectivity", f"{where}: graph {what} {[v.name for v in xs]} vs {[v.name for v in ys]}")
            if what == "outputs":
                continue
            for i, (x, y) in enumerate(zip(xs, ys)):
                self.value(x, y, f"{where}.{what}[{i}]")
        if list(a.initializers) != list(b.initializers):
            self.err("initializers", f"{where}: initializer keys {list(a.initializers)} vs {list(b.initializers)}")
        for k, x in a.initializers.items():
            if k in b.initializers:
                self.value(x, b.initializers[k], f"{where}.init[{k}]")
        na, nb = list(a), list(b)
        if len(na) != len(nb):
            self.err("nodes", f"{where}: {len(na)} nodes vs {len(nb)}")
        for i, (x, y) in enumerate(zip(na, nb)):
            self.node(x, y, f"{where}/{i}:{x.op_type}")
        for i, (x, y) in enumerate(zip(a.outputs, b.outputs)):
            self.value(x, y, f"{where}.outputs[{i}]")

    def model(self, m1, m2):
        hdr = lambda m: (m.ir_version, m.producer_name or None, m.producer_version or None, m.domain or None,  # noqa: E731
                         m.model_version or None, m.doc_string or None, dict(m.metadata_props),
                         tuple(m.opset_imports.items()))
        if hdr(m1) != hdr(m2):
            self.err("header", f"model header {hdr(m1)} vs {hdr(m2)}")
        d1, d2 = tuple(m1.device_configurations), tuple(m2.device_configurations)
        dk = lambda c: (c.name, c.num_devices, tuple(c.device_names))  # noqa: E731
        if self.multi_device:
            if [dk(c) for c in d1] != [dk(c) for c in d2]:
                self.err("device", f"model device configurations {[dk(c) for c in d1]} vs {[dk(c) for c in d2]}")
            for x, y in zip(d1, d2):
                self.cm[id(x)] = y
        elif d2:
            self.err("device", "model device configurations appear after a round trip below IR 11")
        self.graph(m1.graph, m2.graph, "main")
        f1, f2 = list(m1.functions.values()), list(m2.functions.values())
        if [f.identifier() for f in f1] != [f.identifier() for f in f2]:
            self.err("functions", f"function identifiers {[f.identifier() for f in f1]} vs {[f.identifier() for f in f2]}")
        for x, y in zip(f1, f2):
            w = "fn:" + x.name
            if (x.doc_string or None, dict(x.opset_imports), dict(x.metadata_props)) != \
                    (y.doc_string or None, dict(y.opset_imports), dict(y.metadata_props)):
                self.err("functions", f"{w}: doc/opsets/metadata differ")
            self.attrs(x.attributes, y.attributes, w, ordered=False)      # the proto keeps defaults / no-defaults apart
            self.graph(x.graph, y.graph, w, fn=True)

    def links(self):
        """Redundant links, compared through the finished bijection: producer/index, uses (as sets), owning graph."""
        for a, b, where in self.vpairs:
            pa, pb = a.producer(), b.producer()
            if (pa is None) != (pb is None) or (pa is not None and (self.nm.get(id(pa)) is not pb or a.index() != b.index())):
                self.err("producer", f"{where}: value {a.name!r} producer/index {getattr(pa, 'name', None)!r}/{a.index()} "
                                     f"vs {getattr(pb, 'name', None)!r}/{b.index()}")
            ua = set()
            for u in a.uses():
                n2 = self.nm.get(id(u.node))
                ua.add((id(n2) if n2 is not None else ("outside", id(u.node)), u.idx))
            ub = {(id(u.node), u.idx) for u in b.uses()}
            if ua != ub:
                self.err("uses", f"{where}: value {a.name!r} uses {[(u.node.name, u.idx) for u in a.uses()]} "
                                 f"vs {[(u.node.name, u.idx) for u in b.uses()]}")
            ga, gb = a.graph, b.graph
            if (ga is None) != (gb is None) or (ga is not None and self.gm.get(id(ga)) is not gb):
                self.err("owner", f"{where}: value {a.name!r} graph {getattr(ga, 'name', None)!r} vs {getattr(gb, 'name', None)!r}")
        for a, b, where in self.npairs:
            self.device_configurations(a, b, where)
        for i, b in self.nm.items():
            a = self.rn[id(b)]
            ga, gb = a.graph, b.graph
            if (ga is None) != (gb is None) or (ga is not None and self.gm.get(id(ga)) is not gb):
                self.err("owner", f"node {a.name!r} graph differs after the round trip")


def _tensor_type(t):
    import onnx_ir as ir
    return ir.TensorType(t.dtype)


# --------------------------------------------------------------------------- the hypothesis, re-stated in Python

def device_conditions(model, R=None) -> list:
    """What makes the multi-device data of a model (IR >= 11) unserializable or not round-trippable: a node
    configuration that does not reference a configuration object registered on the model (dangling after
    remove_device_configuration without cascade, or a same-named imposter), duplicated configuration names, a
    sharding spec without a named value or on a value that is not an input/output of its node."""
    R = R or Reach(model)
    bad = set()
    regs = list(model.device_configurations)
    if len({c.name for c in regs}) != len(regs) or any(not c.name for c in regs):
        bad.add("device-config-names")
    for i in R.member_nodes:
        n = R.nodes[i]
        io = [v for v in list(n.inputs) + list(n.outputs) if v is not None]
        for c in n.device_configurations:
            if c.configuration is None or not any(c.configuration is x for x in regs):
                bad.add("device-dangling-config")
            for sp in c.sharding_specs:
                if sp.value is None or not sp.value.name:
                    bad.add("device-spec-unnamed")
                elif not any(sp.value is x for x in io):
                    bad.add("device-spec-foreign")
    return sorted(bad)


BENIGN = {"node-name-none", "init-partial-info", "shared-tensor"}     # conditions only the Gallina statement needs (see C03_LOG)


def py_serializable(model) -> list:
    """Names of the conditions of `serializable` that the model breaks ([] = serializable).  Written against
    public accessors; mirrors Iso.serializable_b condition by condition."""
    import onnx_ir as ir
    T = ir.AttributeType
    R = Reach(model)
    bad = set()
    if any(c > 1 for c in R.refs.values()):
        bad.add("shared-graph")
    ids = [(f.domain, f.name, f.overload) for f in model.functions.values()]
    if len(set(ids)) != len(ids):
        bad.add("dup-function-id")
    fn_graphs = {id(f.graph) for f in model.functions.values()}
    visiting = set()

    def table_of(g):
        entries = []
        ins = {id(v) for v in g.inputs}
        for v in g.inputs:
            entries.append(v)
        for v in g.initializers.values():
            if id(v) not in ins:
                entries.append(v)
        for n in g:
            entries += list(n.outputs)
        return [(v.name, v) for v in entries if v.name]

    def lookup(name, scopes):
        for tbl in scopes:
            for k, v in tbl:
                if k == name:
                    return v
        return None

    def scope(g, outer, fn):
        if id(g) in visiting:
            bad.add("cyclic-graph")
            return
        visiting.add(id(g))
        ins = list(g.inputs)
        if len({id(v) for v in ins}) != len(ins):
            bad.add("input-twice")
        if any(not v.name for v in ins):
            bad.add("input-unnamed")
        for k, v in g.initializers.items():
            if v.name != k or not k:
                bad.add("init-key")
            if v.const_value is None:
                bad.add("init-no-const")
            if not any(v is x for x in ins) and (v.type is None or v.shape is None):
                bad.add("init-partial-info")       # comes back completed from the tensor (accepted deviation)
        tbl = table_of(g)
        names = [k for k, _ in tbl]
        if len(set(names)) != len(names):
            bad.add("dup-name")
        scopes = [tbl] + outer
        for n in g:
            if n.name is None:
                bad.add("node-name-none")
            for v in n.inputs:
                if v is None:
                    continue
                if not v.name:
                    bad.add("input-unnamed-value")
                elif lookup(v.name, scopes) is not v:
                    bad.add("input-unresolved")
            for v in n.outputs:
                if v.name is None:
                    bad.add("output-name-none")
                elif v.name == "" and (v.uses() or v.is_graph_output() or value_payload_key(v) is not None):
                    bad.add("empty-output-used")
            for a in n.attributes.values():
                if not a.is_ref() and a.type == T.GRAPH:
                    scope(a.value, scopes, False)
                elif not a.is_ref() and a.type == T.GRAPHS:
                    for sg in a.value:
                        scope(sg, scopes, False)
                elif attr_ser_bad(a):
                    bad.add("attr-unserializable")
        for v in g.outputs:
            if not v.name or lookup(v.name, [tbl]) is not v:
                bad.add("output-not-own")
        if fn and len(g.initializers):
            bad.add("function-inits")
        visiting.discard(id(g))

    scope(model.graph, [], False)
    for f in model.functions.values():
        scope(f.graph, [], True)
    for v in R.values.values():
        if any(id(u.node) not in R.member_nodes for u in v.uses()):
            bad.add("use-outside")
        if v.const_value is not None and not v.is_initializer():
            bad.add("const-not-init")
        if v.meta.get(QUANT_KEY) and not v.name:
            bad.add("quant-unnamed")              # a TensorAnnotation refers to its tensor by name
    if model.ir_version >= MULTI_DEVICE_IR_VERSION:
        bad |= set(device_conditions(model, R))
    held = [id(v.const_value) for v in R.values.values() if v.const_value is not None]
    if len(set(held)) != len(held):
        bad.add("shared-tensor")
    return sorted(bad)

# --------------------------------------------------------------------------- one case: implementation + oracle + Coq term

CASE_HEADER_C03 = CASE_HEADER + "From IRV Require Import C03.Inv C03.Iso C03.Tree C03.TreeF.\n"


def describe_devices(model) -> str:
    """Multi-device data (str(model) does not show it)."""
    lines = [f"device configuration {c.name!r}: num_devices={c.num_devices} names={tuple(c.device_names)}"
             for c in model.device_configurations]
    for n in Reach(model).nodes.values():
        for c in n.device_configurations:
            lines.append(f"node {n.name!r}: configuration={getattr(c.configuration, 'name', None)!r} "
                         f"pipeline_stage={c.pipeline_stage!r} specs={node_devcfg_key([c])[0][2]}")
    return "\n".join(lines)


def describe_model(model) -> str:
    try:
        d = describe_devices(model)
        return str(model)[:3000] + ("\n" + d[:1200] if d else "")
    except Exception as e:  # noqa: BLE001
        return f"<unprintable model: {type(e).__name__}>"


def generated_name_clashes(recipe: dict, env) -> list:
    """Names the LIBRARY gave to unnamed node outputs (values the recipe never named) must avoid the explicit names
    of the inputs / initializers the graph was constructed with (Graph registers those with its name authority
    first): otherwise a model built through the public API alone has two values of one name in one graph, to_proto
    writes both and from_proto rejects the result.  Only constructor-time, never-renamed names are considered."""
    explicit, renamed, ctor = {}, set(), {}
    for op in recipe.get("ops", []):
        k = op.get("op")
        if k == "value":
            explicit[op["id"]] = op.get("name")
        elif k == "rename":
            renamed.add(op.get("v"))
        elif k == "graph":
            ctor[op["id"]] = set(op.get("ins", [])) | set(op.get("inits", []))
    hv = {id(v): h for h, v in env.v.items()}
    msgs = []
    for gh, g in env.g.items():
        fixed = {}
        for h in ctor.get(gh, ()):
            v = env.v.get(h)
            if v is None or h in renamed or not explicit.get(h) or v.name != explicit[h]:
                continue
            if any(v is x for x in g.inputs) or any(v is x for x in g.initializers.values()):
                fixed[v.name] = v
        for n in g:
            for i, o in enumerate(n.outputs):
                h = hv.get(id(o))
                if o.name in fixed and fixed[o.name] is not o and h not in renamed and explicit.get(h) is None:
                    msgs.append(f"generated-name: output {i} of node {n.name!r} ({n.op_type}) was named {o.name!r} by the "
                                f"graph: the name of an input/initializer the graph was constructed with")
    return msgs[:3]


def run_case(recipe: dict, want_term: bool = True, repair=None) -> dict:
    """Build the model of a recipe, run to_proto twice and from_proto on the implementation, evaluate the
    property oracle, and (want_term) produce the Coq case term.  `repair(model)` is applied before everything
    else (known-finding attribution)."""
    import onnx_ir as ir
    model, env = build(recipe)
    res = {"model": model, "env": env, "oracle": [], "term": None, "unmodelled": [], "ser": None, "conds": None}
    if model is None:
        res["outcome"] = "no-model"
        return res
    if repair is not None:
        repair(model)
    from harness.props import c17
    conds = py_serializable(model)
    inv = c17.oracle_invariants(model)        # C01's use-def / ownership invariants (a rejected edit may break them)
    res["conds"], res["inv"] = conds, inv
    enforce_iso = all(c in BENIGN for c in conds) and not inv
    # Redundant links that disagree with each other (flag vs listing, uses vs inputs, producer vs outputs, ...)
    # are reported, not merely used to switch (c) off: the property quantifies over the states edit histories
    # reach, and e.g. a stale is_graph_output flag makes to_proto drop the value_info of the value.  Also after
    # histories with REJECTED edits: since c5c2382 / a9e4f9d the tracked containers validate before mutating (the
    # earlier GraphOutputs.__setitem__ defect is fixed); 10000 generated histories on the clean tree gave none.  (I1x/I2x/"I2/I4": nodes outside the model or a foreign output are
    # what accepted edits such as remove(safe=False) legitimately produce - not reported.)
    rejected = [k for k, st in env.log if st.startswith("reject")]
    internal = [m for m in inv if m.split(":")[0] in ("I1", "I2", "I3", "I4", "I5", "I6", "I7")]
    if internal and repair is None:
        res["oracle"] += ["inv:" + m + (f" (rejected edits in the history: {rejected[:3]})" if rejected else "")
                          for m in internal[:4]]
    if repair is None:
        try:
            res["oracle"] += generated_name_clashes(recipe, env)
        except Exception as e:  # noqa: BLE001
            res["oracle"].append(f"harness error in generated_name_clashes: {type(e).__name__}: {e}")
    # ---- converter (before to_proto): heap + observation with one interner for the whole case
    it = Interner()
    heap = mdl = o0 = None
    if want_term:
        try:
            heap, mdl, _ = ir_heap(model, it, tensor_key_fn=tensor_key_serialized)
            o0 = ir_obs(model, it, tensor_key_fn=tensor_key_serialized)
        except Unmodelled as e:
            res["unmodelled"].append(str(e))
        except Exception as e:  # noqa: BLE001
            res["unmodelled"].append(f"converter: {type(e).__name__}: {e}"[:120])
        if any(c.startswith("device-") for c in conds):
            # the structural model carries device configurations as opaque tokens: it knows neither that the leaf
            # serializer rejects a spec without a named value nor what a dangling configuration reads back as
            res["unmodelled"].append("device configuration outside the hypothesis (dangling / unnamed value)")
        # quantization annotations are not in the structural model: decide by the IR (not by the proto, which does
        # not exist when to_proto raises, e.g. for an annotated value without a name)
        from onnx_ir import serde as _serde
        if any(v.meta.get(_serde._QUANT_PARAMETER_TENSOR_NAMES_FIELD) for v in IRWalk(model).values):  # noqa: SLF001
            res["unmodelled"].append("graph.quantization_annotation")
    # ---- (a) + (b): snapshots around two serializations
    s0 = snapshot(model)
    q1 = q2 = None
    try:
        q1 = ir.to_proto(model)
        res["ser"] = "ok"
    except RecursionError:
        res["ser"] = "raise:RecursionError"
    except Exception as e:  # noqa: BLE001
        res["ser"] = "raise:" + type(e.__cause__ or e).__name__
    s1 = snapshot(model)
    res["oracle"] += snapshot_diff(s0, s1)
    if q1 is not None:
        res["oracle"] += tensor_names_aligned(model)
        try:
            q2 = ir.to_proto(model)
            if q1 != q2:
                res["oracle"].append("twice:proto: the second to_proto(model) differs from the first")
        except Exception as e:  # noqa: BLE001
            res["oracle"].append(f"twice:raises: the second to_proto(model) raises {type(e.__cause__ or e).__name__}")
        res["oracle"] += snapshot_diff(s1, snapshot(model))
    elif enforce_iso:
        res["oracle"].append(f"roundtrip:to_proto: to_proto raises {res['ser']} on a serializable model")
    # ---- (c): round trip
    m2 = None
    if q1 is not None:
        try:
            m2 = ir.from_proto(copy.deepcopy(q1))
            res["deser"] = "ok"
        except Exception as e:  # noqa: BLE001
            res["deser"] = "raise:" + type(e.__cause__ or e).__name__
            if enforce_iso:
                res["oracle"].append(f"roundtrip:from_proto: from_proto(to_proto(model)) raises {res['deser']} on a serializable model")
        if m2 is not None:
            iso = IsoCheck(model, m2).bad
            res["iso"] = iso
            if enforce_iso:
                res["oracle"] += iso
    res["outcome"] = ("inconsistent-ir" if inv else "serializable" if not conds else "benign" if enforce_iso
                      else "not-serializable") + "/" + \
                     (res["ser"] if q1 is None else "ser-ok/" + res.get("deser", "?"))
    res["m2"], res["q1"] = m2, q1
    # ---- Coq term
    if want_term and heap is not None:
        try:
            o1 = ir_obs(model, it, tensor_key_fn=tensor_key_serialized)
            pc = ProtoConv(it)
            q = "None" if q1 is None else f"(Some {pc.model(q1)})"
            o2 = "None" if m2 is None else f"(Some {ir_obs(m2, it)})"
            res["unmodelled"] += [u for u in pc.unmodelled if u not in res["unmodelled"]]
            if it.norm_failed:
                res["unmodelled"].append("payload normalisation failed")
            if it.nonstr:
                res["unmodelled"].append("names that are not str")
            flag = (not conds) and not inv
            res["flag"] = flag
            oldfmt = model.ir_version < 10 and len(model.functions) > 0   # IR<10 experimental function value info
            xs, ys = exp_tables(it, protos=[q1], models=[model, m2]) if oldfmt else ("[]", "[]")
            res["term"] = (f"({common.cbool(oldfmt)}, {xs}, {ys}, {it.norm_table()}, {heap}, {mdl}, {o0}, {q}, {o1}, {o2}, "
                           f"{common.cbool(flag)})")
        except Unmodelled as e:
            res["unmodelled"].append(str(e))
    return res


PREDICATES = [
    ("agree_heap", "agree_heap h m o0"),
    # `old` selects the IR<10 experimental function value-info format (C03/ModelOld.v; tables X, Y)
    ("agree_ser", "agree_ser_x old Y np h m q"),
    ("agree_after_ser", "agree_after_ser_x old Y np h m o1"),
    ("agree_roundtrip", "agree_roundtrip_x old X Y np h m o2"),
    ("iso_statement", "iso_statement_b np h m"),
    # the statement of theorem C03_iso (tree form: Tree.v / TreeF.v) on this state, and old hypothesis => new one
    ("iso_tree_statement", "iso_tm_statement_b np h m"),
    ("serializable_implies_tree", "implb (inv_b h && serializable_b h m) (serializable_tm np h m)"),
    ("serializable_flag", "old || Bool.eqb (inv_b h && serializable_b h m) f"),
]


def _parse_lists(out: str) -> list:
    lists = []
    for m in re.finditer(r"=\s*(\[[^\]]*\]|nil)\s*:\s*list nat", out):
        body = m.group(1)
        lists.append([] if body == "nil" else [int(x) for x in re.findall(r"\d+", body)])
    return lists


def correspondence(ck, terms: list, tag: str) -> dict:
    """Predicate name -> indices (into terms) on which it is false."""
    files, chunk = [], max(40, min(110, (len(terms) + 3) // 4))
    for i in range(0, len(terms), chunk):
        text = CASE_HEADER_C03 + (
            "Definition cases : list (bool * xparse * xcomp * list (N * N) * heap * model * obs * option mproto * obs * option obs * bool) :=\n  "
            + "[" + ";\n  ".join(terms[i:i + chunk]) + "].\n")
        for _, body in PREDICATES:
            text += f"Eval vm_compute in (failing (fun c => let '(old, X, Y, np, h, m, o0, q, o1, o2, f) := c in {body}) cases).\n"
        files.append((f"{tag}_{i // chunk}", text))
    outs = []
    for i in range(0, len(files), 4):                # at most 4 coqc processes at a time
        outs += ck.coq_eval_many(files[i:i + 4])
    bad = {name: [] for name, _ in PREDICATES}
    for k, (rc, out) in enumerate(outs):
        if rc != 0:
            raise RuntimeError(f"case file {files[k][0]} did not compile:\n{out[-3000:]}")
        ls = _parse_lists(out)
        if len(ls) != len(PREDICATES):
            raise RuntimeError("unexpected coq output:\n" + out[-2000:])
        for (name, _), l in zip(PREDICATES, ls):
            bad[name] += [k * chunk + j for j in l]
    return bad


# --------------------------------------------------------------------------- known findings, shrinking, search


def failure_site(msg: str) -> str:
    return ":".join(msg.split(":")[:2])


def repair_shape_without_type(model) -> None:
    """Remove the recorded defect site: values with a shape but no type (the shape cannot be written)."""
    for v in Reach(model).values.values():
        if v.type is None and v.shape is not None:
            v.shape = None


def repair_function_value_slash(model) -> None:
    """Remove the recorded defect site: below IR 10 the value info of a function's inputs / node outputs travels
    in the main graph under "{domain}::{function}/{value}"; a "/" in the value name makes the entry unreadable."""
    if model.ir_version >= 10:
        return
    for f in model.functions.values():
        for v in list(f.inputs) + [o for n in f for o in n.outputs]:
            if v.name and "/" in v.name:
                v.name = v.name.replace("/", "_")


REPAIRS = {"shape-without-type": repair_shape_without_type,
           "function-value-name-with-slash-below-ir10": repair_function_value_slash}


def known_key(ck, recipe: dict, msgs: list):
    """A failure is attributed to a known finding only if every message is of the recorded kind and removing
    the recorded site from the model makes the oracle pass."""
    for k in ck._known:  # noqa: SLF001
        if k.get("status") != "known" or k["key"] not in REPAIRS:
            continue
        if not all(k.get("site", {}).get("message_contains", "\0") in m for m in msgs):
            continue
        if not run_case(recipe, want_term=False, repair=REPAIRS[k["key"]])["oracle"]:
            return k["key"]
    return None


def oracle_fails(recipe: dict) -> list:
    try:
        return run_case(recipe, want_term=False)["oracle"]
    except Exception as e:  # noqa: BLE001
        return [f"harness: error {type(e).__name__}: {e}"]


def shrink(recipe: dict, fails) -> dict:
    """Greedy: drop ops (last first), then attributes / inputs of node ops, while `fails` stays true."""
    ops = list(recipe["ops"])
    changed, rounds = True, 0
    while changed and rounds < 8:
        changed = False
        rounds += 1
        i = len(ops) - 1
        while i >= 0:
            if ops[i]["op"] != "model":
                cand = ops[:i] + ops[i + 1:]
                if fails({"ops": cand}):
                    ops, changed = cand, True
            i -= 1
        for i, op in enumerate(ops):
            if op["op"] == "node":
                for fld in ("attrs", "ins"):
                    j = len(op.get(fld, [])) - 1
                    while j >= 0:
                        op2 = dict(op)
                        op2[fld] = op[fld][:j] + op[fld][j + 1:]
                        cand = ops[:i] + [op2] + ops[i + 1:]
                        if fails({"ops": cand}):
                            ops, op, changed = cand, op2, True
                        j -= 1
            elif op["op"] == "value":
                for fld in ("doc", "meta", "shape", "type"):
                    if op.get(fld) is not None:
                        op2 = {k: v for k, v in op.items() if k != fld}
                        cand = ops[:i] + [op2] + ops[i + 1:]
                        if fails({"ops": cand}):
                            ops, op, changed = cand, op2, True
    return {"ops": ops}


def report_violation(ck, recipe: dict, msgs: list, kind: str) -> None:
    site = failure_site(msgs[0])
    small = shrink(recipe, lambda c, s=site: any(failure_site(m) == s for m in oracle_fails(c)))
    res = run_case(small, want_term=False)
    ck.violation({"kind": kind, "recipe": small, "model": describe_model(res["model"]), "conditions": res["conds"],
                  "outcome": res.get("outcome"), "failures": res["oracle"][:6], "broken": ck.broken_items[:3]})


def search(ck, diverging: list) -> None:
    """Violation search after a broken obligation / correspondence: the diverging cases first, then fresh
    cases (oracle only)."""
    for recipe in diverging:
        msgs = oracle_fails(recipe)
        if msgs and not known_key(ck, recipe, msgs):
            report_violation(ck, recipe, msgs, "oracle-after-broken-obligation")
            return
    for _ in range(1500 if not ck.thorough else 15000):
        recipe = gen_recipe(ck.rng)
        ck.count()
        msgs = oracle_fails(recipe)
        if msgs and not known_key(ck, recipe, msgs):
            report_violation(ck, recipe, msgs, "oracle-after-broken-obligation")
            return


def replay_known(ck) -> None:
    for k in ck._known:  # noqa: SLF001
        msgs = oracle_fails(k["witness"]["recipe"])
        ck.count()
        if k.get("status") == "fixed":
            # a repaired finding is an ordinary supported case: its witness must pass now
            if msgs:
                ck.broken(f"fixed-finding-regressed:{k['key']}",
                          f"the witness of the finding fixed in {k.get('commit')} fails again: {msgs[:3]}")
            else:
                print(f"fixed: property=C03 {k.get('commit')} {k.get('what', k['key'])[:160]}", flush=True)
            continue
        if k.get("status") != "known":
            continue
        if msgs and all(k["site"]["message_contains"] in m for m in msgs):
            ck.known_finding(k["key"], k["what"])
        else:
            ck.broken(f"known-finding-stale:{k['key']}",
                      f"the recorded witness no longer fails as recorded on the implementation (now: {msgs[:2]})")


def load_corpus() -> list:
    out = []
    d = os.path.join(common.CORPUS, "C03")
    if os.path.isdir(d):
        for fn in sorted(os.listdir(d)):
            if fn.endswith(".json"):
                with open(os.path.join(d, fn)) as f:
                    out.append((fn, json.load(f)))
    return out


def recipe_features(res: dict) -> dict:
    env = res["env"]
    edits = [k for k, st in env.log if k in EDIT_OPS and st == "ok"]
    model = res["model"]
    R = Reach(model)
    return {"edits": edits, "nesting": len(R.graphs) > 1 + len(model.functions), "functions": len(model.functions),
            "tensors": sorted({type(t).__name__ for t in R.tensors.values()}), "values": len(R.values),
            "devices": [("IR>=11" if model.ir_version >= MULTI_DEVICE_IR_VERSION else "IR<11 (dropped)") + ":" +
                        ("stage=None" if c.pipeline_stage is None else "stage=0" if c.pipeline_stage == 0 else "stage>0")
                        + (":sharded" if c.sharding_specs else "")
                        for n in R.nodes.values() for c in n.device_configurations],
            "model_devices": len(model.device_configurations),
            "nodes": len(R.nodes), "graphs": len(R.graphs)}


# --------------------------------------------------------------------------- main


def run(ck) -> None:
    import logging
    logging.disable(logging.WARNING)
    ck.trust("Coq 8.16.1 kernel (coqc; vm_compute in case files)",
             "harness/props/c03.py (recipe interpreter and generator, IR->heap / IR->observation / proto->term "
             "converters, snapshots, independent isomorphism check, py_serializable)",
             "leaf payloads are tokens computed by the library's own leaf (de)serializers (tensor, type/shape, "
             "plain attribute, metadata): modelled, not verified here (C02/C04); Model.norm_pay is supplied per case",
             "protobuf message equality (q1 == q2)",
             "modelled not verified: Python recursion limit (ser_graph fuel = number of graphs + 1), quantization "
             "annotations, content of device configurations (opaque part of tokens), per-subgraph opset imports; "
             "IR<10 function value-info format: structure modelled (C03/ModelOld.v), its two name operations "
             "(parse / compose of \"domain::function/value\") are per-case tables computed by the library")
    ck.assumptions += ["onnx/protobuf/numpy as installed in /venv"]
    ck.coverage["rule"] = ("non-trivial = model satisfying `serializable` (Python and Coq agree) that has a nested "
                           "graph, a function or a non-empty edit history, round-tripped and compared by the "
                           "independent isomorphism check")
    ck.level = "proof"      # C03_iso is proved (Property.v); its statement is also evaluated per case
    ck.prove("C03")
    n_cases = 420 if not ck.thorough else 9000
    recipes = [(c["recipe"], "corpus:" + fn) for fn, c in load_corpus()]
    recipes += [(gen_recipe(ck.rng), "gen") for _ in range(n_cases)]
    terms, term_idx, failures = [], [], []
    stats = {"serializable": 0, "nesting": 0, "functions": 0, "edited": 0}
    for i, (recipe, src) in enumerate(recipes):
        res = run_case(recipe)
        ck.count()
        if res["model"] is None:
            ck.hist("outcomes", "no-model")
            continue
        ft = recipe_features(res)
        ck.hist("outcomes", res["outcome"])
        ck.hist("serializable", "yes" if not res["conds"] else "no")
        for c in res["conds"]:
            ck.hist("broken_conditions", c)
        for b in recipe.get("breaks", []):
            ck.hist("deliberate_breaks", b)
        for k, st in res["env"].log:
            if k in EDIT_OPS:
                ck.hist("edit_ops", k if st == "ok" else f"{k}:{st}")
        for t in ft["tensors"]:
            ck.hist("tensor_kinds", t)
        for op in recipe["ops"]:
            if op["op"] == "tensor" and op.get("layout"):
                ck.hist("non_contiguous_tensor_layouts", f"{op['kind']}:{op['layout']}:rank{len(op['dims'])}")
        for d in ft["devices"]:
            ck.hist("node_device_configurations", d)
        if ft["model_devices"]:
            ck.hist("models_with_device_configurations", "IR>=11" if res["model"].ir_version >= MULTI_DEVICE_IR_VERSION else "IR<11")
        if res.get("iso"):
            for m in res["iso"]:
                ck.hist("iso_differences(all models)", failure_site(m))
        if not res["conds"]:
            stats["serializable"] += 1
            stats["nesting"] += bool(ft["nesting"])
            stats["functions"] += bool(ft["functions"])
            stats["edited"] += bool(ft["edits"])
            if ft["nesting"] or ft["functions"] or ft["edits"]:
                ck.nontriv(("C03", common.digest(recipe["ops"])))
            if len(ck.coverage["samples"]) < 4 and ft["nesting"] and ft["edits"] and ft["nodes"] <= 6 and not res["oracle"]:
                ck.sample({"model": describe_model(res["model"])[:900], "edits": ft["edits"], "outcome": res["outcome"],
                           "tensors": ft["tensors"]})
        if res["oracle"]:
            failures.append((recipe, res["oracle"]))
        if res["unmodelled"] or res["term"] is None:
            for u in res["unmodelled"] or ["no term"]:
                ck.hist("unmodelled", u.split(":")[0][:60])
            continue
        terms.append(res["term"])
        term_idx.append(i)
    ck.coverage["traces_validated_against_impl"] = len(terms)
    ck.coverage["serializable_cases"] = stats
    try:
        bad = correspondence(ck, terms, "c03")
    except RuntimeError as e:
        bad = {}
        ck.broken("correspondence:case-files", str(e))
    diverging = []
    for name, lst in bad.items():
        for j in lst[:2]:
            recipe = recipes[term_idx[j]][0]
            diverging.append(recipe)
            r2 = run_case(recipe, want_term=False)
            path = ck.write_replay({"kind": "correspondence-break", "predicate": name, "recipe": recipe},
                                   tag=f"corr-{name}-{j}")
            ck.broken(f"correspondence:{name}", json.dumps({
                "cases_failing": len(lst), "recipe_file": path, "conditions": r2["conds"], "outcome": r2.get("outcome"),
                "model": describe_model(r2["model"])[:2500]}))
    replay_known(ck)
    reported = set()
    for recipe, msgs in failures:
        key = known_key(ck, recipe, msgs)
        if key:
            ck.known_finding(key, next(k["what"] for k in ck._known if k["key"] == key))  # noqa: SLF001
            ck.hist("known_finding_cases", key)
            continue
        site = failure_site(msgs[0])
        if site in reported or len(reported) >= 4:
            continue
        reported.add(site)
        report_violation(ck, recipe, msgs, "oracle")
    if ck.broken_items and not ck.violations:
        search(ck, diverging)


def replay(rp: dict) -> int:
    import logging
    logging.disable(logging.WARNING)
    if "recipe" not in rp:
        print("replay names a broken obligation/correspondence, no concrete input:",
              json.dumps(rp.get("broken"), indent=1)[:3000])
        return 1
    res = run_case(rp["recipe"], want_term=False)
    print(describe_model(res["model"]))
    print(json.dumps({"ops": [(k, st) for k, st in res["env"].log], "broken_conditions_of_serializable": res["conds"],
                      "outcome": res.get("outcome"), "failures": res["oracle"]}, indent=1))
    return 1 if res["oracle"] else 0

"""C03 — IR -> proto -> IR preserves the model; serialization has no side effects.

PART 1 of this module (up to the marker `# ==== C03 check`) is the converter layer shared with C17
(harness/props/c17.py imports it): interning of strings, canonical keys of leaf payloads, ONNX proto ->
Gallina `mproto` term, Python IR -> canonical observation (`Canon.obs`) and Python IR -> Gallina heap.
PART 2 is the C03 check itself (see the log at the top of PART 2).

Model: coq/theories/C03/Model.v (protos, IR heap, constructors, deser_*, ser_*), C03/Canon.v (canonical
observations).  Names are tokens (0 = ""), leaf payloads (tensor contents, type+shape+doc+metadata of a
value, plain attributes, doc/metadata of nodes and graphs, model header) are opaque tokens computed HERE
by running the library's leaf (de)serializers on the leaf in isolation: modelled, not verified (C02/C04).
"""

from __future__ import annotations

import json
import os

from harness import common
from harness.common import REPO, clist

# --------------------------------------------------------------------------- interning / keys


class Interner:
    """Strings/keys -> small naturals; 0 is reserved for the empty name / the empty payload."""

    def __init__(self):
        self.tab: dict = {}
        self.nonstr = False
        self.norm: dict = {}          # payload token -> payload token after a leaf serialize/deserialize round trip
        self.norm_failed = False

    def pay_tok(self, type_, shape, metadata, doc, _depth=0) -> int:
        """Token of a value payload; records how the leaf serializer normalises it (Model.norm_pay)."""
        tok = self.tok(payload_key(type_, shape, metadata, doc))
        if tok and tok not in self.norm and _depth < 4:
            import onnx_ir as ir
            from onnx_ir import serde
            try:
                v = ir.Value(name="x", type=type_, shape=shape, doc_string=doc,
                             metadata_props=dict(metadata) if metadata else None)
                vp = serde.serialize_value(v)
                self.norm[tok] = tok          # guard against cycles
                self.norm[tok] = self.pay_tok(serde.deserialize_type_proto_for_type(vp.type),
                                              serde.deserialize_type_proto_for_shape(vp.type),
                                              serde.deserialize_metadata_props(vp.metadata_props),
                                              vp.doc_string if vp.HasField("doc_string") else None, _depth + 1)
            except Exception:  # noqa: BLE001
                self.norm_failed = True
        return tok

    def norm_table(self) -> str:
        return clist(f"({a}%N, {b}%N)" for a, b in sorted(self.norm.items()) if a != b)

    def tok(self, key) -> int:
        if isinstance(key, bytes):
            self.nonstr = True          # protobuf hands out bytes for a string field holding invalid UTF-8
        if key is None or key == "" or key == b"":
            return 0
        k = repr(key)
        if k not in self.tab:
            self.tab[k] = len(self.tab) + 1
        return self.tab[k]


def cNtok(n: int) -> str:
    return f"{n}%N"


def type_key(t):
    if t is None:
        return None
    from onnx_ir import _core
    d = getattr(t, "denotation", None) or ""
    if isinstance(t, (_core.TensorType, _core.SparseTensorType)):
        return (type(t).__name__, int(t.dtype), d)
    return (type(t).__name__, type_key(t.elem_type), d)


def shape_key(s):
    if s is None:
        return None
    dims = []
    for i, d in enumerate(s.dims):
        dims.append((d if isinstance(d, int) else ("sym", d.value), s.get_denotation(i) or ""))
    return tuple(dims)


def payload_key(type_, shape, metadata, doc):
    """None exactly when serde._should_create_value_info_for_value finds nothing to serialize."""
    if shape is None and type_ is None and not metadata and not doc:
        return None
    return ("pay", type_key(type_), shape_key(shape), tuple(sorted((metadata or {}).items())), doc or "")


def value_payload_key(v):
    return payload_key(v.type, v.shape, v._metadata_props, v.doc_string)  # noqa: SLF001 (avoid creating the dict)


def value_pay_tok(it, v) -> int:
    return it.pay_tok(v.type, v.shape, v._metadata_props, v.doc_string)  # noqa: SLF001


def tensor_key(t):
    """Content key of an IR tensor, computed without touching the file system (name excluded)."""
    import onnx_ir as ir
    from onnx_ir import serde
    meta = tuple(sorted((t.metadata_props or {}).items()))
    if isinstance(t, serde.TensorProtoTensor):
        import onnx
        p = onnx.TensorProto()
        p.CopyFrom(t.raw)
        p.ClearField("name")
        del p.metadata_props[:]
        return ("tp", p.SerializeToString(deterministic=True), meta)
    if isinstance(t, ir.ExternalTensor):
        return ("ext", os.fspath(t.location), t.offset, t.length, int(t.dtype), shape_key(t.shape),
                t.doc_string or "", meta)
    if isinstance(t, ir.StringTensor):
        return ("str", tuple(bytes(x) for x in t.string_data()), shape_key(t.shape), t.doc_string or "", meta)
    # other implementations (Tensor, LazyTensor, PackedTensor): dtype, shape and bytes
    return ("mem", int(t.dtype), shape_key(t.shape), t.tobytes(), t.doc_string or "", meta)


def tensor_key_serialized(t):
    """Key of the tensor as it will look after one serialization round trip (leaf level)."""
    from onnx_ir import serde
    return tensor_key(serde.deserialize_tensor(serde.serialize_tensor(t)))


def attr_key(a, tensor_key_fn=None):
    """Key of a non-graph IR attribute (tensor_key_fn: how tensor-valued attributes are keyed; default tensor_key)."""
    tensor_key_fn = tensor_key_fn or tensor_key
    import onnx_ir as ir
    T = ir.AttributeType
    doc = a.doc_string or ""
    if a.is_ref():
        return ("ref", int(a.type), a.ref_attr_name, doc)
    v = a.value
    if a.type == T.TENSOR:
        vk = tensor_key_fn(v)
    elif a.type == T.TENSORS:
        vk = tuple(tensor_key_fn(x) for x in v)
    elif a.type == T.TYPE_PROTO:
        vk = (type_key(v.type), shape_key(v.shape))
    elif a.type == T.TYPE_PROTOS:
        vk = tuple((type_key(x.type), shape_key(x.shape)) for x in v)
    elif a.type in (T.FLOAT,):
        import struct
        vk = struct.pack("<f", v) if v == v else "nan"
    elif a.type in (T.FLOATS,):
        import struct
        vk = tuple(struct.pack("<f", x) if x == x else "nan" for x in v)
    else:
        vk = repr(v)
    return ("attr", int(a.type), vk, doc)


def attr_ser_bad(a) -> bool:
    """Does the leaf serializer reject this (non-graph) attribute?"""
    from onnx_ir import serde
    try:
        serde.serialize_attribute(a) if not a.is_ref() else serde.serialize_reference_attribute(a)
        return False
    except Exception:  # noqa: BLE001
        return True


def meta_key(doc, metadata):
    if not doc and not metadata:
        return None
    return ("meta", doc or "", tuple(sorted((metadata or {}).items())))


def normalize_domain(d):
    return "" if d == "ai.onnx" else d


# --------------------------------------------------------------------------- ONNX proto -> Gallina term


def has_nonstr(msg) -> bool:
    """protobuf hands out `bytes` for a proto2 string field that holds invalid UTF-8 (byte-level mutations):
    the library's behaviour on such names is type-driven (TypeError in some containers), not modelled."""
    from google.protobuf.descriptor import FieldDescriptor as FD
    for fd, val in msg.ListFields():
        if fd.type == FD.TYPE_STRING:
            vals = [val] if isinstance(val, (str, bytes)) else list(val)
            if any(isinstance(x, bytes) for x in vals):
                return True
        elif fd.type == FD.TYPE_MESSAGE:
            if fd.message_type.GetOptions().map_entry:
                continue
            vals = [val] if hasattr(val, "ListFields") else list(val)
            if any(has_nonstr(x) for x in vals):
                return True
    return False


class Unmodelled(Exception):
    """The proto uses a feature the structural model leaves out (the oracle still runs on it)."""


class ProtoConv:
    """ModelProto -> `mproto` term.  Leaf payloads go through the library's leaf deserializers."""

    def __init__(self, it: Interner):
        self.it = it
        self.unmodelled: list[str] = []

    # leaves
    def vinfo(self, p) -> str:
        from onnx_ir import serde
        bad, pay = False, 0
        try:
            shape = serde.deserialize_type_proto_for_shape(p.type)
            typ = serde.deserialize_type_proto_for_type(p.type)
            meta = serde.deserialize_metadata_props(p.metadata_props)
            doc = p.doc_string if p.HasField("doc_string") else None
            pay = self.it.pay_tok(typ, shape, meta, doc)
        except Exception:  # noqa: BLE001
            bad = True
        return f"(mkVI {cNtok(self.it.tok(p.name))} {cNtok(pay)} {common.cbool(bad)})"

    def tensor(self, p) -> str:
        import onnx_ir as ir
        from onnx_ir import serde
        name, tok, pay, bad_ctor, bad_info = 0, 0, 0, False, False
        try:
            t = serde.deserialize_tensor(p)
            name = self.it.tok(t.name or "")
            tok = self.it.tok(tensor_key(t))
            try:
                pay = self.it.pay_tok(ir.TensorType(t.dtype), t.shape, None, None)
            except Exception:  # noqa: BLE001
                bad_info = True
        except Exception:  # noqa: BLE001
            bad_ctor = True
        return (f"(mkTP {cNtok(name)} {cNtok(tok)} {cNtok(pay)} {common.cbool(bad_ctor)} "
                f"{common.cbool(bad_info)})")

    def attr(self, p) -> str:
        import onnx
        from onnx_ir import serde
        k = cNtok(self.it.tok(p.name))
        A = onnx.AttributeProto
        is_ref = p.HasField("ref_attr_name") and bool(p.ref_attr_name)
        if not is_ref and p.type == A.GRAPH:
            return f"(AGraph {k} {self.graph(p.g)})"
        if not is_ref and p.type == A.GRAPHS:
            gs = "GNil"
            for g in reversed(p.graphs):
                gs = f"(GCons {self.graph(g)} {gs})"
            return f"(AGraphs {k} {gs})"
        try:
            a = serde._deserialize_attribute(p, [])  # noqa: SLF001
        except Exception:  # noqa: BLE001
            return f"(APlain {k} 0%N true false)"
        return f"(APlain {k} {cNtok(self.it.tok(attr_key(a)))} false {common.cbool(attr_ser_bad(a))})"

    def node(self, p) -> str:
        if len(getattr(p, "device_configurations", ())):
            self.unmodelled.append("node.device_configurations")
        op = self.it.tok(("op", normalize_domain(p.domain), p.op_type, getattr(p, "overload", "")))
        from onnx_ir import serde
        ntok = self.it.tok(meta_key(p.doc_string if p.HasField("doc_string") else None,
                                    serde.deserialize_metadata_props(p.metadata_props)))
        attrs = "ANil"
        for a in reversed(p.attribute):
            attrs = f"(ACons {self.attr(a)} {attrs})"
        return (f"(Np {cNtok(self.it.tok(p.name))} {cNtok(op)} {cNtok(ntok)} "
                f"{clist(cNtok(self.it.tok(x)) for x in p.input)} {clist(cNtok(self.it.tok(x)) for x in p.output)} {attrs})")

    def nodes(self, ps) -> str:
        out = "NNil"
        for n in reversed(ps):
            out = f"(NCons {self.node(n)} {out})"
        return out

    def graph(self, p) -> str:
        from onnx_ir import serde
        if len(p.quantization_annotation):
            self.unmodelled.append("graph.quantization_annotation")
        gtok = self.it.tok(meta_key(p.doc_string if p.HasField("doc_string") else None,
                                    serde.deserialize_metadata_props(p.metadata_props)))
        gname = self.it.tok(p.name if p.HasField("name") else "")
        # value info applied to the same value more than once merges metadata instead of overwriting
        names_with_meta = [i.name for i in list(p.input) + list(p.output) + list(p.value_info) if len(i.metadata_props)]
        if names_with_meta:
            allnames = [i.name for i in list(p.input) + list(p.output) + list(p.value_info)]
            if any(allnames.count(n) > 1 for n in names_with_meta):
                self.unmodelled.append("value_info metadata merge")
        return (f"(Gp {cNtok(gname)} {cNtok(gtok)} {clist(self.vinfo(i) for i in p.input)} "
                f"{clist(self.vinfo(i) for i in p.output)} {clist(self.tensor(t) for t in p.initializer)} "
                f"{clist(self.vinfo(i) for i in p.value_info)} {self.nodes(p.node)})")

    def function(self, p) -> str:
        from onnx_ir import serde
        fid = self.it.tok(("fn", p.domain, p.name, getattr(p, "overload", "")))
        bad = False
        akeys = {}
        try:
            for a in p.attribute_proto:
                akeys[a.name] = attr_key(serde._deserialize_attribute(a, []))  # noqa: SLF001
            for n in p.attribute:
                akeys[n] = ("undef",)
        except Exception:  # noqa: BLE001
            bad = True
        ftok = self.it.tok(("f", p.doc_string if p.HasField("doc_string") else "",
                            tuple({o.domain: o.version for o in p.opset_import}.items()),
                            tuple(sorted((serde.deserialize_metadata_props(p.metadata_props) or {}).items())),
                            tuple(sorted(akeys.items()))))      # a function's attributes are a name -> default mapping
        return (f"(mkFP {cNtok(fid)} {cNtok(ftok)} {clist(cNtok(self.it.tok(x)) for x in p.input)} "
                f"{clist(cNtok(self.it.tok(x)) for x in p.output)} "
                f"{clist(self.vinfo(i) for i in getattr(p, 'value_info', []))} {self.nodes(p.node)} {common.cbool(bad)})")

    def model(self, p) -> str:
        from onnx_ir import serde
        if len(p.functions) and p.ir_version < 10:
            self.unmodelled.append("function value_info in the IR<10 experimental format")
        if len(getattr(p, "configuration", ())):
            self.unmodelled.append("model.configuration")
        if has_nonstr(p):
            self.unmodelled.append("string field holding invalid UTF-8 (bytes)")
        mtok = self.it.tok(model_header_key(
            p.ir_version, {o.domain: o.version for o in p.opset_import},
            p.producer_name, p.producer_version, p.domain, p.model_version, p.doc_string,
            serde.deserialize_metadata_props(p.metadata_props)))
        return f"(mkMP {cNtok(mtok)} {self.graph(p.graph)} {clist(self.function(f) for f in p.functions)})"


def model_header_key(ir_version, opsets, producer_name, producer_version, domain, model_version, doc, metadata):
    return ("m", ir_version, tuple(opsets.items()), producer_name or "", producer_version or "", domain or "",
            model_version or 0, doc or "", tuple(sorted((metadata or {}).items())))


# --------------------------------------------------------------------------- Python IR -> observation / heap


def _z(n: int) -> str:
    return f"(L ({n}))" if n < 0 else f"(L {n})"


def _t(items) -> str:
    return "(T [" + "; ".join(items) + "])"


class IRWalk:
    """First-visit traversal of an IR model through public accessors (same order as Canon.reach)."""

    def __init__(self, model):
        self.model = model
        self.values, self.nodes, self.graphs = [], [], []
        self.vi, self.ni, self.gi = {}, {}, {}
        self.fn_graphs = set()
        self._visit_graph(model.graph)
        for f in model.functions.values():
            self.fn_graphs.add(id(f.graph))
            self._visit_graph(f.graph)

    def _see_v(self, v):
        if id(v) not in self.vi:
            self.vi[id(v)] = len(self.values)
            self.values.append(v)

    def _visit_graph(self, g):
        import onnx_ir as ir
        if id(g) in self.gi:
            return
        self.gi[id(g)] = len(self.graphs)
        self.graphs.append(g)
        for v in g.inputs:
            self._see_v(v)
        for v in g.initializers.values():
            self._see_v(v)
        for n in g:
            if id(n) not in self.ni:
                self.ni[id(n)] = len(self.nodes)
                self.nodes.append(n)
            for v in n.inputs:
                if v is not None:
                    self._see_v(v)
            for v in n.outputs:
                self._see_v(v)
            for a in n.attributes.values():
                if a.is_ref():
                    continue
                if a.type == ir.AttributeType.GRAPH:
                    self._visit_graph(a.value)
                elif a.type == ir.AttributeType.GRAPHS:
                    for sg in a.value:
                        self._visit_graph(sg)
        for v in g.outputs:
            self._see_v(v)

    # labels: -1 = None, -2 = object outside the traversal
    def lv(self, v):
        return -1 if v is None else self.vi.get(id(v), -2)

    def ln(self, n):
        return -1 if n is None else self.ni.get(id(n), -2)

    def lg(self, g):
        return -1 if g is None else self.gi.get(id(g), -2)


def _name_tok(it, s):
    return -1 if s is None else it.tok(s)


def node_tok(it, n):
    return it.tok(meta_key(n.doc_string, n._metadata_props))  # noqa: SLF001


def node_op_tok(it, n):
    return it.tok(("op", n.domain, n.op_type, n.overload))


def ir_attr_entry(it, a, tensor_key_fn=None):
    """('plain', tok) | ('graph', Graph) | ('graphs', [Graph])"""
    import onnx_ir as ir
    if not a.is_ref() and a.type == ir.AttributeType.GRAPH:
        return ("graph", a.value)
    if not a.is_ref() and a.type == ir.AttributeType.GRAPHS:
        return ("graphs", list(a.value))
    return ("plain", it.tok(attr_key(a, tensor_key_fn)))


def function_tok(it, f):
    akeys = {}
    for k, a in f.attributes.items():
        akeys[k] = ("undef",) if a.value is None and not a.is_ref() else attr_key(a)
    return it.tok(("f", f.doc_string or "", tuple(f.opset_imports.items()),
                   tuple(sorted((f._graph._metadata_props or {}).items())), tuple(sorted(akeys.items()))))  # noqa: SLF001


def model_tok(it, m):
    return it.tok(model_header_key(m.ir_version, m.graph.opset_imports, m.producer_name, m.producer_version,
                                   m.domain, m.model_version, m.doc_string, m._metadata_props))  # noqa: SLF001


def ir_obs(model, it: Interner, tensor_key_fn=tensor_key) -> str:
    """Canonical observation of an IR model as a `Canon.obs` term (mirrors Canon.canon)."""
    w = IRWalk(model)
    vals = []
    for v in w.values:
        p = v.producer()
        c = v.const_value
        vals.append(_t([
            _z(_name_tok(it, v.name)),
            _t([]) if p is None else _t([_z(w.ln(p)), _z(v.index() if v.index() is not None else -1)]),
            _t(_t([_z(w.ln(u.node)), _z(u.idx)]) for u in v.uses()),
            _z(w.lg(v.graph)),
            _z(int(v.is_graph_input())), _z(int(v.is_graph_output())), _z(int(v.is_initializer())),
            _t([]) if c is None else _t([_z(_name_tok(it, c.name)), _z(it.tok(tensor_key_fn(c)))]),
            _z(value_pay_tok(it, v)),
        ]))
    nodes = []
    for n in w.nodes:
        attrs = []
        for k, a in n.attributes.items():
            kind, x = ir_attr_entry(it, a, tensor_key_fn)
            if kind == "plain":
                attrs.append(_t([_z(it.tok(k)), _z(0), _z(x)]))
            elif kind == "graph":
                attrs.append(_t([_z(it.tok(k)), _z(1), _z(w.lg(x))]))
            else:
                attrs.append(_t([_z(it.tok(k)), _z(2), _t(_z(w.lg(g)) for g in x)]))
        nodes.append(_t([
            _z(_name_tok(it, n.name)), _z(node_op_tok(it, n)), _z(node_tok(it, n)),
            _t(_z(w.lv(v)) for v in n.inputs), _t(_z(w.lv(v)) for v in n.outputs), _t(attrs), _z(w.lg(n.graph))]))
    graphs = []
    for g in w.graphs:
        fn = id(g) in w.fn_graphs
        graphs.append(_t([
            _z(0 if fn else it.tok(g.name or "")),
            _z(0 if fn else it.tok(meta_key(g.doc_string, g._metadata_props))),  # noqa: SLF001
            _t(_z(w.lv(v)) for v in g.inputs), _t(_z(w.lv(v)) for v in g.outputs),
            _t(_t([_z(it.tok(k)), _z(w.lv(v))]) for k, v in g.initializers.items()),
            _t(_z(w.ln(n)) for n in g)]))
    funcs = [_t([_z(it.tok(("fn", f.domain, f.name, f.overload))), _z(function_tok(it, f)), _z(w.lg(f.graph))])
             for f in model.functions.values()]
    return _t([_z(model_tok(it, model)), _z(w.lg(model.graph)), _t(funcs), _t(vals), _t(nodes), _t(graphs)])


def copt_nat(x) -> str:
    return "None" if x is None or x < 0 else f"(Some {x}%nat)"


def copt_name(it, s) -> str:
    return "None" if s is None else f"(Some {cNtok(it.tok(s))})"


def ir_heap(model, it: Interner, tensor_key_fn=tensor_key) -> tuple[str, str, IRWalk]:
    """Python IR -> (`heap` term, `model` term): object labels of the traversal are the heap addresses.
    Objects outside the traversal (a consumer node that is in no reachable graph, ...) make the model
    `Unmodelled` for the heap-based C03 prediction."""
    w = IRWalk(model)
    tensors, tix = [], {}
    vals = []
    for v in w.values:
        p = v.producer()
        c = v.const_value
        ct = None
        if c is not None:
            if id(c) not in tix:
                tix[id(c)] = len(tensors)
                tensors.append(c)
            ct = tix[id(c)]
        uses = []
        for u in v.uses():
            if w.ln(u.node) < 0:
                raise Unmodelled("value used by a node outside the model")
            uses.append(f"({w.ln(u.node)}%nat, {u.idx}%nat)")
        if p is not None and w.ln(p) < 0:
            raise Unmodelled("value produced by a node outside the model")
        owner = v._graph  # noqa: SLF001  (the raw owner field; v.graph falls back to the producer's graph)
        if owner is not None and w.lg(owner) < 0:
            raise Unmodelled("value owned by a graph outside the model")
        vals.append("(mkV {} {} {} {} {} {} {} {} {})".format(
            copt_name(it, v.name),
            "None" if p is None else f"(Some ({w.ln(p)}%nat, {v.index()}%nat))",
            clist(uses), copt_nat(None if owner is None else w.lg(owner)),
            common.cbool(v.is_graph_input()), common.cbool(v.is_graph_output()), common.cbool(v.is_initializer()),
            copt_nat(ct), cNtok(value_pay_tok(it, v))))
    nodes = []
    for n in w.nodes:
        attrs = []
        for k, a in n.attributes.items():
            kind, x = ir_attr_entry(it, a, tensor_key_fn)
            if kind == "plain":
                attrs.append(f"({cNtok(it.tok(k))}, AtPlain {cNtok(x)} {common.cbool(attr_ser_bad(a))})")
            elif kind == "graph":
                attrs.append(f"({cNtok(it.tok(k))}, AtGraph {w.lg(x)}%nat)")
            else:
                attrs.append(f"({cNtok(it.tok(k))}, AtGraphs {clist(f'{w.lg(g)}%nat' for g in x)})")
        if n.graph is not None and w.lg(n.graph) < 0:
            raise Unmodelled("node owned by a graph outside the model")
        nodes.append("(mkN {} {} {} {} {} {} {})".format(
            copt_name(it, n.name), cNtok(node_op_tok(it, n)), cNtok(node_tok(it, n)),
            clist(copt_nat(w.lv(v)) if v is not None else "None" for v in n.inputs),
            clist(f"{w.lv(v)}%nat" for v in n.outputs), clist(attrs), copt_nat(w.lg(n.graph))))
    graphs = []
    for g in w.graphs:
        fn = id(g) in w.fn_graphs
        for k in g.initializers:
            if not isinstance(k, str):
                raise Unmodelled("initializer key is not a string")
        graphs.append("(mkG {} {} {} {} {} {})".format(
            cNtok(0 if fn else it.tok(g.name or "")),
            cNtok(0 if fn else it.tok(meta_key(g.doc_string, g._metadata_props))),  # noqa: SLF001
            clist(f"{w.lv(v)}%nat" for v in g.inputs), clist(f"{w.lv(v)}%nat" for v in g.outputs),
            clist(f"({cNtok(it.tok(k))}, {w.lv(v)}%nat)" for k, v in g.initializers.items()),
            clist(f"{w.ln(n)}%nat" for n in g)))
    tens = []
    for t in tensors:
        try:
            import onnx_ir as ir
            pay, bad = it.pay_tok(ir.TensorType(t.dtype), t.shape, None, None), False
        except Exception:  # noqa: BLE001
            pay, bad = 0, True
        tens.append(f"(mkT {copt_name(it, t.name)} {cNtok(it.tok(tensor_key_fn(t)))} {cNtok(pay)} {common.cbool(bad)})")
    heap = f"(mkH {clist(vals)} {clist(nodes)} {clist(graphs)} {clist(tens)})"
    funcs = [f"(mkF {cNtok(it.tok(('fn', f.domain, f.name, f.overload)))} {cNtok(function_tok(it, f))} {w.lg(f.graph)}%nat)"
             for f in model.functions.values()]
    mdl = f"(mkM {cNtok(model_tok(it, model))} {w.lg(model.graph)}%nat {clist(funcs)})"
    return heap, mdl, w


CASE_HEADER = """From Coq Require Import NArith ZArith List Bool.
From IRV Require Import Base.Exn C03.Model C03.Canon.
Import ListNotations.
Open Scope Z_scope.
"""


# ==== C03 check

"""C13 — clones are faithful and fully independent of their originals.

Decided by: Coq theorems (coq/theories/C13/Property.v, 21 theorems, all "Closed under the global context") about
the executable heap model in C13/Model.v (Cloner.clone_graph / clone_node / clone_attr / _clone_or_get_value /
clone_meta / _remap_device_configurations, Graph.clone, GraphView.clone, Function.clone, Model.clone,
functionalize), tied to /repo on every run by a correspondence check: models are built through the public API,
cloned by the real code, the object graph of original + clone is dumped (one cell per mutable sub-object,
object identity -> id) and embedded in case files; inside Coq the model clones the same heap and the two
results are compared up to a bijection of the NEW identities (C13/Iso.v: which sub-objects are shared and which
are fresh, and all contents); then a random edit history is applied to either copy on both sides (every op's
outcome compared) and the heaps are compared again.  The model's canonical serialization `gcanon` is tied to
ir.to_proto by comparing its projection (names, op ids, connectivity by name, attribute names + nested graphs,
initializer names, doc strings, metadata_props) with the same projection of the proto the implementation
serializes, for the original and for the clone.  The property oracle (public API only) searches a concrete
failing input: proto(clone) == proto(original), canonical structure equal, no mutable object shared, every
reference inside the clone points into the clone (or to a captured outer-scope value when allowed), the
original's snapshot + proto unchanged by cloning and by applying every setter to the clone (and vice versa),
and functionalize(p) never alters its input.

LOG
---
Model (C13/Model.v).  One heap `id -> option cell`, one allocation counter, cells: value, node, graph(/view),
shape, type (whole element-type chain), dict (metadata_props and opset_imports), meta store, attr, meta object,
function, model; tensors are immutable tokens.  Cloner state = heap + value map + two ghost lists: `passed`
(node inputs passed through as outer-scope values) and `kept` (sharding-spec values left unmapped).  The
Cloner is modelled as instantiated by the clone() entry points (attr_map={}, metadata_props={}, post_process
no-op, resolve_ref_attrs=False).  clone_graph order as in the code: inputs, initializers, nodes in order
(inputs via value map / pass-through / error, attributes before the node's outputs enter the map, outputs,
device-configuration remap), outputs via _get_value (KeyError -> RuntimeError), dict of initializers re-keyed by
name, fresh opset/metadata dicts, meta copied item by item then invalid keys.  All exceptions reach the caller as
RuntimeError (_capture_error_context).  The type fix (copy.deepcopy(value.type)) is modelled; the dtype-setter
witness stays in corpus/C13/dtype_setter.json.

Theorems (Property.v; Proofs1..12.v ~ 2600 lines, build ~35 s):
  C13_clone_only_allocates (+ model/function)  no existing cell is written, for any outcome incl. rejection
  C13_fresh (+ _model, _function, _without_flag)  every cell reachable from the clone through new cells is new,
      except shared non-graph Attr cells, meta objects when deep_copy=False, passed-through values only when
      allow_outer_scope_values, and - only if the original violates C19's invariant wf_dev - kept spec values
  C13_closed        if no passed/kept value later receives a clone (no use before definition), the old cells
                    reachable from the clone are shared Attr / shallow meta objects / values the graph does NOT own
  C13_faithful (+ _function, _model)   canonical serialization of clone = original's (hyp. dicts_wf: unique dict
                    keys, attributes/initializers filed under their names), for every recursion depth
  C13_independent_step  footprint + separation for each of the 19 setters, for ANY two-colouring
  C13_independent, _canon, _sym, _model   histories of edits on one copy leave the other copy's cells (and the
                    original's serialization) unchanged
  C13_functional_pass_pure   functionalize(p)(m) leaves m's cells and serialization unchanged for every program of
                    edits over the clone it is given (environment contract, see trusted base)
  C13_closed_accepted   C13_closed WITHOUT that hypothesis for every accepted clone of a graph satisfying wf_dev: since
                    82dd72c clone_graph itself rejects a passed-through value that later receives a clone (check_passed)
  C13_unsorted_rejected   the former witness of the defect is rejected with and without the flag (vm_compute)
  C13_clone_is_graph, Example C13_hypotheses_satisfiable
All full strength for the model; Raise OtherError (dangling id / fuel) is excluded by requiring Ok results, and
the case files show the fuel given by the harness (next id) always suffices (a mismatch would be Ok vs Raise).

Deepening round (2026-09-26): tensors are no longer opaque tokens but heap cells CTensor(name) shared by clone and
original (v_const and TENSOR attributes link to them); the Value.name setter is modelled with its tensor rename,
in-place Attr edits (attr.doc_string / attr.name) are two new operations (21 setters).  New theorems:
C13_independent_step (rename-free ops: full frame), C13_independent_step_any (every op: all non-tensor cells of the
other side unchanged), C13_independent (every clone-sided history, non-tensor cells), C13_independent_no_tensor_rename
/ _canon / _model / C13_functional_pass_pure (rename-free histories: all cells, serialization),
C13_independent_tensor_rename_refuted (known finding tensor-rename-alias, vm_compute witness w2 = Constant(value=t) -> v
with v.const_value = t), C13_shared_attr_edit_visible (in-place edit of the shared Attr is visible in the original,
replacing the dict entry is not), Example C13_no_tensor_rename_satisfiable.  Moved from "modelled, not verified" /
oracle-only into model + correspondence: tensor objects' names (dumped as cells; renames through Value.name compared
after every history; attribute tensor names in the to_proto projection), in-place mutation of shared Attr objects.
Harness: one serialization warm-up before the first dump (serde syncs initializer tensor names), at most one
initializer name per tensor object in generated models, every tensor object is a root of the initial heap.

Second deepening round: (1) per-run translation of the source.  generate() regenerates Gen/C13Gen.v from /repo:
(a) the statements (one normalised string each, error messages dropped) of the seven Cloner methods, the four clone()
entry points in _core.py and _FunctionalPassWrapper.call - Property.v C13_source_pinned proves them equal to
C13/Pinned.v (the statements the model was written against, with the method -> model definition table), so ANY edit of
these methods breaks a proof obligation (all seeded changes of rounds 1-5 edited exactly these methods);
(b) Cloner._remap_device_configurations translated statement by statement (RemapTranslator: lets, appends, two
nested for loops as fold_left over the assigned variables, continue, if/else, conditional return; fail closed) into
gen_remap, proved equal to the model's map (remap_dev m) for every None-free value map (C13_remap_translation,
C13/GenEquiv.v), and run against the method itself on 150 (1500) random value maps / configurations per run inside
Coq, 40% of them with None-mapped values (the "drop the spec" branch the clone() entry points never reach).
(2) Type denotation (every level of the element-type chain), MetadataStore invalid keys and Node.overload were
already model fields covered by C13_fresh / C13_faithful; C13_canon_observes_denotation_invalid_keys_overload makes
that explicit.  Still not modelled: sharing of an INNER element-type object between two values of the original.

Readings of the English (weaker reading where ambiguous):
  * "tensors may be shared" and non-graph Attr objects are shared by the code on purpose: mutating a shared Attr
    object in place (attr.name / doc_string / meta) or a tensor's own fields is outside the property; "attribute
    sets" = the node.attributes dict (set / pop an entry).
  * "serializes exactly like the original": byte equality of the deterministic proto, except for a GraphView,
    whose own serialization lists value_info by the OWNING graph's is_graph_output(); a view and its clone are
    compared modulo value_info + by py_canon (names, types, shapes, metadata of every value).
  * metadata_props key order is not part of the serialization (serde sorts keys); the first serialization may
    itself rename initializer tensors (serde syncs tensor.name), so baselines are taken after a warm-up.
  * captured outer-scope values are shared by design: their use lists change and edits of them are visible on
    both sides; the oracle skips them.  Model.meta is not copied by Model.clone (new empty store): not serialized.
Modelled, not verified: back-pointers (uses/producer/graph) and the name authority; tensor fields other than
the name (doc_string, metadata_props of the tensor); the initializer branch of the Value.name setter (re-keying the
graph's initializer dict: generated histories do not rename initializers); inner element-type objects shared between values of the ORIGINAL; meta values other than ints / lists of ints.

Findings: (1) FIXED 82dd72c, unsorted-outer-scope: Graph.clone(allow_outer_scope_values=True) of an unsorted graph
kept the original's value in the clone; now the use before definition raises (early, before the node is built, for
outputs of nodes of the graphs being cloned; and after the outputs are looked up for any passed-through value that
received a clone).  The model has the second check only (same RuntimeError; only the exception kind is compared on
rejection).  classify() no longer knows this finding: any reference from a clone to the original's own value, and any
change of the original by a rejected clone, is a VIOLATION.  corpus unsorted_outer carries "expect": "rejected".
(proposed_fixes/C13-predeclare-node-outputs.diff is the larger alternative that clones unsorted graphs correctly.)
(2) known, tensor-rename-alias: Value.name setter renames
the tensor object shared by clone and original; with the tensor also used as a node attribute the original's
serialized proto changes after renaming the CLONE's value (corpus/C13/tensor_attr_shared.json); attributed by
re-running the oracle with value renaming off; no small safe fix (documented setter behaviour).
(3) fixed 823601c type-object-shared (witness kept in the corpus).

Mutants tried in a scratch worktree (all VIOLATION with a concrete replay; C = caught by the correspondence,
O = by the oracle): M1 clone_node shares output.type (C,O); M2 _clone_or_get_value shares shape (C,O); M3
opset_imports not copied (C,O); M4 initializers cloned after nodes (C,O); M5 device configurations not
remapped (C,O); M6 invalid meta keys dropped (C,O after adding is_valid probes to py_canon); M7 Model.clone
shares metadata_props (C,O); M8 functionalize without clone (O only - the 2-line wrapper is tied by the oracle);
M9 GRAPHS attributes shared (C,O); M10 node metadata_props dict shared (C,O); M12 deep_copy ignored for output
meta (C,O); M13 Graph.clone ignores allow_outer_scope_values=False (C,O); M14 specs about node inputs not
remapped (C,O).  Seeded C13-m3 (clone_graph passes unmapped declared outputs through) was first MISSED: generated
views only listed outputs produced inside the view.  Now views list foreign outputs / extra foreign inputs at
random positions, nested graphs list foreign (enclosing-scope intermediate) outputs, the traversal records "out"
events, the oracle requires rejection for any declared output without a clone (corpus view_foreign_output) and
compares the original's snapshot after a rejected as well as an accepted clone -> caught (C,O).
Round 6: r6m3 (outer-scope check moved from per input to once per graph: same error, but the discarded nodes stay
registered as users of the original's captured values) was caught only by the statement pin; the oracle skipped
uses() of captured values also for rejected clones.  Now, without the flag, a rejected clone must leave the FULL
snapshot (uses()/consumers() of captured values included) unchanged -> caught with input (O).
Round 3: r3m2 (functionalize skips the clone for passes that declare themselves functional) was MISSED because
the functionalize oracle only wrapped a plain in-place pass; it now runs 5 shapes (in-place; Sequential /
PassManager / nested Sequential of an honest functional pass that returns a new Model on the SAME graph followed
by an in-place pass; in-place then functional) and also requires the result not to share the input's graph
-> caught (O).  r3m3 (specs of values without a map entry dropped instead of kept) was MISSED because sharded
CAPTURED inputs were too rare: nodes of nested graphs now shard a captured input with probability 0.6 when a
device configuration exists (corpus sharded_capture) -> caught (C,O).
Round 4: r4m3 (remap result discarded when the node's LAST device configuration needed no remapping) was MISSED
because every generated node had at most one device configuration; nodes now get 1..3 configurations under
different model configurations in random order (value-bound own/captured specs, placement-only, value=None spec,
foreign-value spec; corpus multi_device_configs) -> caught (C,O).  Applying the proposed fix makes the
correspondence break and the known finding stale, as it must.
"""

from __future__ import annotations

import json
import os
import random

import translate as T
from harness import common
from harness.common import cN, cZ, cbool, clist, cnat, copt, cpair

PROP = "C13"

# --------------------------------------------------------------------------- registry: identity -> id


class Reg:
    """Python object identity -> model id (positive), strings -> interned N, immutable objects -> tokens."""

    def __init__(self):
        self.ids: dict[int, int] = {}
        self.objs: list = []          # keeps registered objects alive so id() is never reused
        self.next = 1
        self.strs: dict[str, int] = {"": 0}
        self.toks: dict[int, int] = {}
        self.dictkind: dict[int, str] = {}

    def id(self, o) -> int:
        k = id(o)
        if k not in self.ids:
            self.ids[k] = self.next
            self.next += 1
            self.objs.append(o)
        return self.ids[k]

    def has(self, o) -> bool:
        return id(o) in self.ids

    def s(self, x):
        if x is None:
            return None
        x = str(x)
        if x not in self.strs:
            self.strs[x] = len(self.strs)
        return self.strs[x]

    def tok(self, o) -> int:
        k = id(o)
        if k not in self.toks:
            self.toks[k] = len(self.toks) + 1
            self.objs.append(o)
        return self.toks[k]


def P(n: int) -> str:
    return str(n)            # case files open positive_scope


def oP(x) -> str:
    return "None" if x is None else f"(Some {x})"


def oN(x) -> str:
    return "None" if x is None else f"(Some {cN(x)})"


def oZ(x) -> str:
    return "None" if x is None else f"(Some {cZ(x)})"


TYPE_KIND = {"TensorType": 0, "SparseTensorType": 1, "SequenceType": 2, "OptionalType": 3}


class Dumper:
    """Dump everything reachable from a list of roots as Coq cells (Model.v constructors)."""

    def __init__(self, reg: Reg):
        import onnx_ir as ir
        from onnx_ir import _metadata
        self.ir = ir
        self.MS = _metadata.MetadataStore
        self.R = reg

    # -- leaf printers
    def dim(self, d) -> str:
        ir = self.ir
        if isinstance(d, ir.SymbolicDim):
            return f"(DSym {oN(self.R.s(d.value))})"
        return f"(DInt {cZ(int(d))})"

    def ty(self, t) -> str:
        R = self.R
        k = TYPE_KIND[type(t).__name__]
        if k < 2:
            return f"(TBase {cN(k)} {cN(int(t.dtype))} {oN(R.s(t.denotation))})"
        return f"(TWrap {cN(k)} {self.ty(t.elem_type)} {oN(R.s(t.denotation))})"

    def attr_tok(self, a) -> int:
        ir, R = self.ir, self.R
        v = a.value
        if a.type == ir.AttributeType.TENSOR:
            return R.s(f"tensor:{R.tok(v)}")
        if a.type == ir.AttributeType.TENSORS:
            return R.s("tensors:" + ",".join(str(R.tok(x)) for x in v))
        return R.s(f"{type(v).__name__}:{v!r}")

    # -- cells
    def cell(self, o):
        """-> (coq term, [child objects])."""
        ir, R = self.ir, self.R
        kids: list = []

        def ref(x, kind=None):
            if kind is not None:
                R.dictkind.setdefault(id(x), kind)
            kids.append(x)
            return R.id(x)

        def oref(x):
            return None if x is None else ref(x)

        if isinstance(o, ir.Value):
            t = oP(oref(o.type))
            s = oP(oref(o.shape))
            mp = ref(o.metadata_props, "str")
            me = ref(o.meta)
            c = oP(oref(o.const_value))
            return (f"CValue (Val {oN(R.s(o.name))} {t} {s} {oN(R.s(o.doc_string))} {c} {P(mp)} {P(me)})", kids)
        if isinstance(o, ir.Node):
            ins = clist(oP(oref(v)) for v in o.inputs)
            outs = clist(P(ref(v)) for v in o.outputs)
            ats = clist(f"({cN(R.s(k))}, {P(ref(a))})" for k, a in o.attributes.items())
            mp = ref(o.metadata_props, "str")
            me = ref(o.meta)
            devs = []
            for d in o.device_configurations:
                specs = clist(
                    f"(Spc {oP(oref(s.value))} {cN(R.s(repr((s.device, s.index_to_device_group_map, s.sharded_dims))))})"
                    for s in d.sharding_specs)
                devs.append(f"(Dev {cN(R.tok(d.configuration))} {oZ(d.pipeline_stage)} {specs})")
            return (f"CNode (Nod {oN(R.s(o.name))} {cN(R.s(o.domain))} {cN(R.s(o.op_type))} {cN(R.s(o.overload))} "
                    f"{oZ(o.version)} {ins} {outs} {ats} {oN(R.s(o.doc_string))} {P(mp)} {P(me)} {clist(devs)})", kids)
        if isinstance(o, (ir.Graph, ir.GraphView)):
            ins = clist(P(ref(v)) for v in o.inputs)
            outs = clist(P(ref(v)) for v in o.outputs)
            inits = clist(f"({oN(R.s(k))}, {P(ref(v))})" for k, v in o.initializers.items())
            nodes = clist(P(ref(n)) for n in o)
            ops = ref(o.opset_imports, "int")
            mp = ref(o.metadata_props, "str")
            me = ref(o.meta)
            return (f"CGraph (Gra {oN(R.s(o.name))} {ins} {outs} {inits} {nodes} {oN(R.s(o.doc_string))} "
                    f"{P(ops)} {P(mp)} {P(me)} {cbool(isinstance(o, ir.GraphView))})", kids)
        if isinstance(o, ir.Shape):
            dens = [o.get_denotation(i) for i in range(len(o))]
            return (f"CShape (Shp {clist(self.dim(d) for d in o.dims)} {clist(oN(R.s(x)) for x in dens)} "
                    f"{cbool(o.frozen)})", kids)
        if type(o).__name__ in TYPE_KIND:
            return (f"CType {self.ty(o)}", kids)
        if isinstance(o, self.MS):
            data = []
            for k, v in o.items():
                if isinstance(v, list):
                    data.append(f"({cN(R.s(k))}, MObj {P(ref(v))})")
                else:
                    data.append(f"({cN(R.s(k))}, MAtom {cZ(int(v))})")
            inv = sorted(R.s(k) for k in o._invalid_keys)   # set: canonical order
            return (f"CMeta (Met {clist(data)} {clist(cN(k) for k in inv)})", kids)
        if isinstance(o, dict):
            if R.dictkind.get(id(o)) == "int":
                return (f"CDict {clist(f'({cN(R.s(k))}, {cN(int(v))})' for k, v in o.items())}", kids)
            return (f"CDict {clist(f'({cN(R.s(k))}, {cN(R.s(v))})' for k, v in o.items())}", kids)
        if isinstance(o, ir.Attr):
            T = ir.AttributeType
            if o.is_ref():
                av = f"(ARef {cN(int(o.type))} {cN(R.s(o.ref_attr_name))})"
            elif o.type == T.GRAPH:
                av = f"(AGraph {P(ref(o.value))})"
            elif o.type == T.GRAPHS:
                av = f"(AGraphs {clist(P(ref(g)) for g in o.value)})"
            elif o.type == T.TENSOR and o.value is not None:
                av = f"(ATensor {P(ref(o.value))})"
            else:
                av = f"(AVal {cN(int(o.type))} {cN(self.attr_tok(o))})"
            return (f"CAttr (Att {cN(R.s(o.name))} {av} {oN(R.s(o.doc_string))})", kids)
        if isinstance(o, list):
            return (f"CObj {clist(cZ(int(x)) for x in o)}", kids)
        if isinstance(o, ir.TensorProtocol):
            # a tensor object: its data is its identity (never copied), its name is mutable (Value.name setter, serde)
            return (f"CTensor {oN(R.s(o.name))}", kids)
        if isinstance(o, ir.Function):
            g = ref(o._graph)  # noqa: SLF001  (identity of the underlying graph has no public accessor)
            ats = clist(f"({cN(R.s(k))}, {P(ref(a))})" for k, a in o.attributes.items())
            return (f"CFunc (Fun {cN(R.s(o.domain))} {cN(R.s(o.name))} {cN(R.s(o.overload))} {P(g)} {ats})", kids)
        if isinstance(o, ir.Model):
            g = ref(o.graph)
            fs = clist(P(ref(f)) for f in o.functions.values())
            info = R.s(repr((o.ir_version, o.producer_name, o.producer_version, o.domain, o.model_version,
                             o.doc_string, tuple(R.tok(c) for c in o.device_configurations))))
            mp = ref(o.metadata_props, "str")
            me = ref(o.meta)
            return (f"CModel (Mod {P(g)} {fs} {cN(info)} {P(mp)} {P(me)})", kids)
        raise TypeError(f"cannot dump {type(o)}")

    def dump(self, roots) -> dict[int, str]:
        out: dict[int, str] = {}
        stack = list(reversed(list(roots)))
        for r in roots:
            self.R.id(r)
        while stack:
            o = stack.pop()
            i = self.R.id(o)
            if i in out:
                continue
            term, kids = self.cell(o)
            out[i] = term
            stack.extend(reversed(kids))
        return out


def cells_term(d: dict[int, str]) -> str:
    return "[" + ";\n    ".join(f"({P(i)}, {t})" for i, t in sorted(d.items())) + "]"


# --------------------------------------------------------------------------- generator (public API only)

DTYPES = [1, 6, 7, 10, 11]


class Gen:
    """Builds a model with nested subgraphs, captured and shared values, metadata and device annotations."""

    def __init__(self, rng: random.Random, size: int = 3):
        import numpy as np
        import onnx_ir as ir
        self.ir, self.np, self.rng, self.size = ir, np, rng, size
        self.n = 0
        self.tensors = []
        self.init_tensors = set()
        self.types = []
        self.cfgs = []
        self.subgraphs = []
        self.unsorted_graphs = []
        self.in_function = False

    def fresh(self, p):
        self.n += 1
        return f"{p}{self.n}"

    def tensor(self, for_init=False):
        """A tensor object, often shared (attributes, const_value of several values); at most ONE initializer name
        per tensor: serde sets tensor.name = initializer name on every serialization, and with two differently named
        initializers on one tensor object a serialization is not idempotent (see serialize())."""
        ir, np, rng = self.ir, self.np, self.rng
        pool = [t for t in self.tensors if not (for_init and id(t) in self.init_tensors)]
        if pool and rng.random() < 0.4:
            t = rng.choice(pool)
            if for_init:
                self.init_tensors.add(id(t))
            return t
        t = ir.Tensor(np.array([rng.randrange(9) for _ in range(rng.randrange(1, 3))], dtype=np.float32),
                      name=self.fresh("t"))
        self.tensors.append(t)
        if for_init:
            self.init_tensors.add(id(t))
        return t

    def mk_type(self):
        ir, rng = self.ir, self.rng
        r = rng.random()
        if r < 0.15:
            return None
        if r < 0.3 and self.types:
            return rng.choice(self.types)       # a type object shared between values of the original
        dt = ir.DataType(rng.choice(DTYPES))
        den = rng.choice([None, None, "IMAGE"])
        k = rng.random()
        if k < 0.6:
            t = ir.TensorType(dt, denotation=den)
        elif k < 0.7:
            t = ir.SparseTensorType(dt)
        elif k < 0.85:
            t = ir.SequenceType(ir.TensorType(dt), denotation=den)
        else:
            t = ir.OptionalType(ir.SequenceType(ir.TensorType(dt)))
        self.types.append(t)
        return t

    def mk_shape(self):
        ir, rng = self.ir, self.rng
        r = rng.random()
        if r < 0.2:
            return None
        dims = [rng.choice([1, 2, 3, "N", "M", None]) for _ in range(rng.randrange(0, 4))]
        dens = None
        if dims and rng.random() < 0.3:
            dens = [rng.choice([None, "DATA_BATCH", "DATA_CHANNEL"]) for _ in dims]
        return ir.Shape(dims, denotations=dens, frozen=rng.random() < 0.2)

    def decorate(self, o, meta=True):
        rng = self.rng
        if rng.random() < 0.4:
            for _ in range(rng.randrange(1, 3)):
                o.metadata_props[rng.choice(["k1", "k2", "k3"])] = rng.choice(["a", "b", ""])
        if meta and rng.random() < 0.4:
            for _ in range(rng.randrange(1, 3)):
                k = rng.choice(["m1", "m2", "m3"])
                o.meta[k] = rng.choice([0, 5, [1, 2], [7]])
            if rng.random() < 0.5:
                o.meta.invalidate(rng.choice(["m1", "m2", "m9"]))
        if rng.random() < 0.2:
            o.doc_string = rng.choice(["doc", ""])

    def mk_value(self, prefix="v", const=False):
        ir = self.ir
        v = ir.Value(name=self.fresh(prefix), type=self.mk_type(), shape=self.mk_shape(),
                     const_value=self.tensor(for_init=True) if const else None)
        self.decorate(v)
        return v

    def set_output_props(self, v):
        v.name = self.fresh("o")
        v.type = self.mk_type()
        v.shape = self.mk_shape()
        if self.rng.random() < 0.25:
            v.const_value = self.tensor()
        self.decorate(v)

    def mk_attrs(self, depth, avail):
        ir, rng = self.ir, self.rng
        attrs = []
        for _ in range(rng.choice([0, 0, 1, 1, 2, 3])):
            r = rng.random()
            nm = rng.choice(["alpha", "axis", "mode", "value", "body", "branches", "then_branch"])
            if any(a.name == nm for a in attrs):
                continue
            if r < 0.2:
                a = ir.AttrInt64(nm, rng.randrange(5))
            elif r < 0.3:
                a = ir.AttrString(nm, rng.choice(["x", "y"]))
            elif r < 0.4:
                a = ir.AttrTensor(nm, self.tensor())
            elif r < 0.5:
                a = ir.AttrFloat32s(nm, [1.0, 2.5])
            elif r < 0.6 and self.in_function:
                a = ir.RefAttr(nm, rng.choice(["fa", "fb"]), ir.AttributeType.INT)
            elif r < 0.85 and depth < 2:
                a = ir.AttrGraph(nm, self.mk_graph(depth + 1, avail))
            elif depth < 2:
                a = ir.AttrGraphs(nm, [self.mk_graph(depth + 1, avail) for _ in range(rng.randrange(0, 3))])
            else:
                a = ir.AttrInt64(nm, 1)
            if rng.random() < 0.15:
                a.doc_string = "adoc"
            attrs.append(a)
        return attrs

    def mk_graph(self, depth, outer):
        """A Graph; [outer] = values of enclosing scopes that nodes may capture."""
        ir, rng = self.ir, self.rng
        size = max(1, self.size - depth)
        ins = [self.mk_value("x") for _ in range(rng.randrange(0, size + 1))]
        inits = [self.mk_value("w", const=True) for _ in range(rng.randrange(0, size))]
        if ins and inits and rng.random() < 0.15:
            # an initializer that is also a graph input
            ins[0].const_value = self.tensor(for_init=True)
            inits.append(ins[0])
        avail = list(ins) + list(dict.fromkeys(inits))
        nodes = []
        for _ in range(rng.randrange(0, size + 2)):
            pool = avail + (outer if rng.random() < 0.5 else [])
            k = rng.randrange(0, 4)
            node_in = []
            for _ in range(k):
                r = rng.random()
                if r < 0.1 or not pool:
                    node_in.append(None)
                elif r < 0.2 and node_in and node_in[-1] is not None:
                    node_in.append(node_in[-1])       # the same value twice
                else:
                    node_in.append(rng.choice(pool))
            attrs = self.mk_attrs(depth, avail + outer)
            n = ir.Node(rng.choice(["", "", "custom"]), rng.choice(["Add", "Relu", "If", "Loop", "Foo"]), node_in,
                        attrs, num_outputs=rng.choice([0, 1, 1, 1, 2]), name=self.fresh("n"),
                        overload=rng.choice(["", "", "ov"]), version=rng.choice([None, None, 3]))
            for o in n.outputs:
                self.set_output_props(o)
            self.decorate(n)
            captured = [v for v in n.inputs if v is not None and any(v is w for w in outer)]
            if self.cfgs and (rng.random() < 0.45 or (captured and rng.random() < 0.6)):
                # 1..3 device configurations on the node, each under a DIFFERENT model configuration and in random
                # order: value-bound specs (own / captured values), placement-only, value=None spec, and a spec about a
                # value that need not be an input/output of the node (outside C19's invariant: "kept as-is" path)
                own = [v for v in list(n.inputs) + list(n.outputs) if v is not None]
                cfgs = list(self.cfgs)
                rng.shuffle(cfgs)
                for cfg in cfgs[: rng.choice([1, 1, 2, 2, 3])]:
                    act = rng.choice(["own", "own", "captured", "stage", "stage", "none", "foreign"])
                    if act == "captured" and not captured:
                        act = "own"
                    if act == "own" and not own:
                        act = "stage"
                    if act in ("own", "captured"):
                        v = rng.choice(captured if act == "captured" else own)
                        if act == "captured" and (v.shape is None or len(v.shape) == 0):
                            v.shape = ir.Shape([4, "N"])
                        try:
                            n.shard(v, configuration=cfg, axis=0, num_shards=2, device_indices=(0, 1),
                                    pipeline_stage=rng.choice([None, None, 1]))
                        except ValueError:
                            n.set_pipeline_stage(cfg, 0)
                    elif act == "stage":
                        n.set_pipeline_stage(cfg, rng.randrange(3))
                    else:
                        pool2 = avail + outer
                        spec_v = rng.choice(pool2) if (act == "foreign" and pool2) else None
                        n.device_configurations = (*n.device_configurations, ir.NodeDeviceConfiguration(
                            configuration=cfg, sharding_specs=(ir.ShardingSpec(value=spec_v, device=(0,)),),
                            pipeline_stage=None))
            nodes.append(n)
            avail += list(n.outputs)
        # (a value already registered as output of a nested graph cannot be listed again: Graph() refuses)
        outs_pool = [o for o in [o for n in nodes for o in n.outputs] + ins if not o.is_graph_output()]
        outs = [rng.choice(outs_pool) for _ in range(rng.randrange(0, 3))] if outs_pool else []
        if depth > 0 and rng.random() < 0.12:
            # a FOREIGN output: an intermediate value of an enclosing scope, not produced in this graph
            foreign = [v for v in outer if v.producer() is not None and not v.is_graph_output()]
            if foreign:
                outs.insert(rng.randrange(len(outs) + 1), rng.choice(foreign))
        order = list(nodes)
        unsorted = False
        if len(nodes) >= 2 and rng.random() < 0.3:
            rng.shuffle(order)
            unsorted = order != nodes
        g = ir.Graph(ins, outs, nodes=order, initializers=list(dict.fromkeys(inits)), name=self.fresh("g"),
                     opset_imports={"": 20} if rng.random() < 0.7 else {"": 18, "custom": 1},
                     doc_string=rng.choice([None, "gdoc"]))
        self.decorate(g)
        if depth > 0:
            self.subgraphs.append(g)
        if unsorted:
            self.unsorted_graphs.append(g)
        return g

    def mk_function(self):
        ir, rng = self.ir, self.rng
        self.in_function = True
        g = self.mk_graph(1, [])
        self.subgraphs.remove(g)
        self.in_function = False
        attrs = [ir.Attr("fa", ir.AttributeType.INT, 3)]
        if rng.random() < 0.5:
            attrs.append(ir.Attr("fb", ir.AttributeType.INT, None))
        return ir.Function("fdom", self.fresh("f"), rng.choice(["", "ov"]), graph=g, attributes=attrs)

    def mk_model(self):
        ir, rng = self.ir, self.rng
        use_dev = rng.random() < 0.5
        model = ir.Model(ir.Graph([], [], nodes=[], name="placeholder"), ir_version=11 if use_dev else 10,
                         producer_name=rng.choice([None, "verif"]), doc_string=rng.choice([None, "mdoc"]))
        if use_dev:
            self.cfgs.append(model.add_device_configuration("c0", device_names=("d0", "d1")))
            if rng.random() < 0.75:
                self.cfgs.append(model.add_device_configuration("c1", num_devices=2))
            if rng.random() < 0.4:
                self.cfgs.append(model.add_device_configuration("c2", device_names=("e0", "e1", "e2")))
        model.graph = self.mk_graph(0, [])
        for _ in range(rng.choice([0, 0, 1, 2])):
            f = self.mk_function()
            model.functions[f.identifier()] = f
        self.decorate(model)
        return model


def mk_view(gen: Gen, g, rng):
    """A GraphView over a contiguous slice of g's nodes; inputs = values the slice needs (one may be left out)."""
    ir = gen.ir
    nodes = list(g)
    if not nodes:
        return ir.GraphView(list(g.inputs), list(g.outputs), nodes=[], initializers=list(g.initializers.values()),
                            name="view0", opset_imports=dict(g.opset_imports))
    a = rng.randrange(len(nodes))
    b = rng.randrange(a, len(nodes)) + 1
    sl = nodes[a:b]
    produced = {id(o) for n in sl for o in n.outputs}
    need = []
    for n in sl:
        for v in n.inputs:
            if v is not None and id(v) not in produced and all(v is not w for w in need):
                need.append(v)
    inits = [v for v in need if v.is_initializer()]
    ins = [v for v in need if not v.is_initializer()]
    if ins and rng.random() < 0.25:
        ins.pop(rng.randrange(len(ins)))           # left out: an outer-scope value for the view
    outs = [o for n in sl for o in n.outputs][: rng.randrange(0, 3)]
    # values defined outside the viewed region, at every position: a declared output produced by a node that is
    # not in the view (clone must be rejected), an extra (unused) input produced outside
    outside = [o for n in nodes if all(n is not m for m in sl) for o in n.outputs]
    if outside and rng.random() < 0.25:
        outs.insert(rng.randrange(len(outs) + 1), rng.choice(outside))
    if outside and rng.random() < 0.15:
        extra = rng.choice(outside)
        if all(extra is not w for w in ins + outs):
            ins.insert(rng.randrange(len(ins) + 1), extra)
    view = ir.GraphView(ins, outs, nodes=sl, initializers=inits, name=gen.fresh("view"),
                        opset_imports=dict(g.opset_imports),
                        metadata_props={"vk": "vv"} if rng.random() < 0.3 else None)
    if rng.random() < 0.3:
        view.meta["m1"] = [4]
    return view


def build_scenario(spec: dict):
    """spec = {seed, size, kind, pick, allow, deep} -> dict with model, target, roots and a clone thunk."""
    rng = random.Random(spec["seed"])
    gen = Gen(rng, spec.get("size", 3))
    model = gen.mk_model()
    kind = spec["kind"]
    allow, deep = bool(spec.get("allow")), bool(spec.get("deep"))
    univ = [model]
    if kind == 3:
        target = model
        thunk = lambda: model.clone(deep_copy=deep)  # noqa: E731
    elif kind == 2:
        fs = list(model.functions.values())
        if not fs:
            f = gen.mk_function()
            model.functions[f.identifier()] = f
            fs = [f]
        target = fs[spec.get("pick", 0) % len(fs)]
        thunk = lambda: target.clone(deep_copy=deep)  # noqa: E731
    elif kind == 1:
        graphs = [model.graph] + gen.subgraphs
        base = graphs[spec.get("pick", 0) % len(graphs)]
        target = mk_view(gen, base, rng)
        univ.append(target)
        thunk = lambda: target.clone(deep_copy=deep)  # noqa: E731
    else:
        graphs = [model.graph] + gen.subgraphs
        target = graphs[spec.get("pick", 0) % len(graphs)]
        thunk = lambda: target.clone(allow_outer_scope_values=allow, deep_copy=deep)  # noqa: E731
    return {"model": model, "gen": gen, "target": target, "univ": univ, "clone": thunk, "kind": kind,
            "allow": allow if kind == 0 else False, "deep": deep}


def cloned_graph_of(sc):
    t = sc["target"]
    if sc["kind"] == 2:
        return t._graph  # noqa: SLF001
    if sc["kind"] == 3:
        return t.graph
    return t


def traversal_events(ir, g):
    """('def'|'use', value) in the order the cloner meets them (independent re-implementation)."""
    ev = []

    def graph(gr):
        for v in gr.inputs:
            ev.append(("def", v))
        for v in gr.initializers.values():
            ev.append(("def", v))
        for n in gr:
            for v in n.inputs:
                if v is not None:
                    ev.append(("use", v))
            for a in n.attributes.values():
                if a.is_ref():
                    continue
                if a.type == ir.AttributeType.GRAPH:
                    graph(a.value)
                elif a.type == ir.AttributeType.GRAPHS:
                    for s in a.value:
                        graph(s)
            for v in n.outputs:
                ev.append(("def", v))
        for v in gr.outputs:
            ev.append(("out", v))      # looked up in the value map after the nodes: must have a clone by then
    graph(g)
    return ev


def ownership_conflict(ir, g) -> bool:
    """A value listed as input / output / initializer by two different graphs of the cloned region: a Graph cannot
    represent that (a Value belongs to at most one graph - C01), so the region has no clone; it can only arise
    for a GraphView (whose lists are not checked) over a graph whose nested graph declares an enclosing-scope value
    as its output."""
    owner: dict[int, int] = {}
    for gr in collect(ir, g)[2]:
        for v in list(gr.inputs) + list(gr.outputs) + list(gr.initializers.values()):
            if owner.setdefault(id(v), id(gr)) != id(gr):
                return True
    return False


def unmapped_outputs(ir, g):
    """Declared outputs (of g or a nested graph) that no input/initializer/node output defines before the end
    of their graph in the cloner's traversal: such a graph cannot be cloned (with or without the flag)."""
    seen, out = set(), []
    for k, v in traversal_events(ir, g):
        if k == "def":
            seen.add(id(v))
        elif k == "out" and id(v) not in seen:
            out.append(v)
    return out


def is_sorted(ir, g) -> bool:
    """No value owned by g (deep) is used before the traversal defines it."""
    ev = traversal_events(ir, g)
    owned = {id(v) for k, v in ev if k == "def"}
    seen = set()
    for k, v in ev:
        if k == "def":
            seen.add(id(v))
        elif id(v) in owned and id(v) not in seen:
            return False
    return True


# --------------------------------------------------------------------------- edit operations (public setters)

def collect(ir, root):
    """values / nodes / graphs reachable from a Model, Function, Graph or GraphView through public accessors."""
    vals, nodes, graphs = [], [], []
    seen = set()

    def add(lst, o):
        if id(o) not in seen:
            seen.add(id(o))
            lst.append(o)
            return True
        return False

    def graph(g):
        if not add(graphs, g):
            return
        for v in list(g.inputs) + list(g.initializers.values()) + list(g.outputs):
            add(vals, v)
        for n in g:
            add(nodes, n)
            for v in list(n.inputs) + list(n.outputs):
                if v is not None:
                    add(vals, v)
            for a in n.attributes.values():
                if a.is_ref():
                    continue
                if a.type == ir.AttributeType.GRAPH:
                    graph(a.value)
                elif a.type == ir.AttributeType.GRAPHS:
                    for s in a.value:
                        graph(s)
    if isinstance(root, ir.Model):
        graph(root.graph)
        for f in root.functions.values():
            graph(f._graph)  # noqa: SLF001
    elif isinstance(root, ir.Function):
        graph(root._graph)  # noqa: SLF001
    else:
        graph(root)
    return vals, nodes, graphs


OPS = ["ASetDoc", "ASetName", "VSetName", "VSetName", "VSetDoc", "VSetConst", "VSetDtype", "VSetType", "VSetShapeDim", "VSetShape", "MpSet", "MpDel",
       "MetaSet", "MetaInvalidate", "NSetName", "NReplaceInput", "NSetAttr", "NDelAttr", "GSetName", "GAppendNode",
       "GRemoveNode", "GOpsetSet"]


def gen_op(rng, ir, vals, nodes, graphs, uniq, attrs=()):
    """-> (name, target object, args) with plain python arguments; objects are referenced directly."""
    for _ in range(20):
        k = rng.choice(OPS)
        if k[0] == "A":
            # in-place edit of an Attr object (shared between clone and original unless it holds a graph)
            # (only Attr objects that existed right after the clone: their ids are known to both sides)
            if not attrs:
                continue
            a = rng.choice(attrs)
            return (k, a, [rng.choice(["adoc2", None])] if k == "ASetDoc" else [rng.choice(["alpha", "renamed_attr"])])
        if k[0] == "V":
            cands = [v for v in vals if not (k in ("VSetName", "VSetConst") and v.is_initializer())]
            if not cands:
                continue
            v = rng.choice(cands)
            with_const = [w for w in cands if w.const_value is not None]
            if k == "VSetName" and with_const and rng.random() < 0.5:
                v = rng.choice(with_const)        # renames the (shared) tensor object as well
            if k == "VSetName":
                return (k, v, [rng.choice([uniq("rn"), None])])
            if k == "VSetDoc":
                return (k, v, [rng.choice(["d2", None])])
            if k == "VSetConst":
                return (k, v, [rng.choice(["tensor", None])])
            if k == "VSetDtype":
                return (k, v, [rng.choice(DTYPES)])
            if k == "VSetType":
                return (k, v, [rng.choice([None, ("T", 7), ("S", 1), ("Q", 6)])])
            if k == "VSetShapeDim":
                return (k, v, [rng.randrange(0, 4), rng.choice([5, "K", None])])
            return (k, v, [rng.choice([None, [4, "Z"], []])])
        if k in ("MpSet", "MpDel", "MetaSet", "MetaInvalidate"):
            x = rng.choice(vals + nodes + graphs)
            if k == "MpSet":
                return (k, x, [rng.choice(["k1", "k2", "new"]), rng.choice(["zz", ""])])
            if k == "MpDel":
                return (k, x, [rng.choice(["k1", "k2", "new"])])
            if k == "MetaSet":
                return (k, x, [rng.choice(["m1", "m2", "mm"]), rng.randrange(100)])
            return (k, x, [rng.choice(["m1", "m2", "mm"])])
        if k[0] == "N":
            if not nodes:
                continue
            n = rng.choice(nodes)
            if k == "NSetName":
                return (k, n, [rng.choice([uniq("nn"), None])])
            if k == "NReplaceInput":
                return (k, n, [rng.randrange(0, 4), rng.choice(vals + [None]) if vals else None])
            if k == "NSetAttr":
                return (k, n, [rng.choice(["alpha", "axis", "extra"]), rng.randrange(50)])
            return (k, n, [rng.choice(["alpha", "axis", "body", "mode"])])
        g = rng.choice([x for x in graphs if isinstance(x, ir.Graph)] or [None])
        if g is None:
            continue
        if k == "GSetName":
            return (k, g, [rng.choice(["G2", None])])
        if k == "GAppendNode":
            ins = [rng.choice(vals + [None]) for _ in range(rng.randrange(0, 3))] if vals else []
            return (k, g, [rng.choice(["Neg", "Abs"]), ins, [uniq("ao") for _ in range(rng.randrange(0, 3))], uniq("an")])
        if k == "GRemoveNode":
            if not nodes:
                continue
            known = {id(x) for x in nodes}       # only nodes that existed right after the clone (ids known to both sides)
            mine = [x for x in g if id(x) in known]
            return (k, g, [rng.choice(mine or nodes) if rng.random() < 0.8 else rng.choice(nodes)])
        return (k, g, [rng.choice(["", "custom", "other"]), rng.randrange(1, 22)])
    return None


def mk_type_obj(ir, t):
    if t is None:
        return None
    k, dt = t
    dt = ir.DataType(dt)
    return {"T": lambda: ir.TensorType(dt), "S": lambda: ir.SparseTensorType(dt),
            "Q": lambda: ir.SequenceType(ir.TensorType(dt))}[k]()


def apply_op_impl(ir, gen, op):
    """Apply one operation to the implementation through public setters; -> ('ok', None) | ('raise', name)."""
    k, x, a = op
    try:
        if k == "ASetDoc":
            x.doc_string = a[0]
        elif k == "ASetName":
            x.name = a[0]
        elif k == "VSetName":
            x.name = a[0]
        elif k == "VSetDoc":
            x.doc_string = a[0]
        elif k == "VSetConst":
            x.const_value = gen.tensors[0] if (a[0] and gen.tensors) else None
        elif k == "VSetDtype":
            x.dtype = ir.DataType(a[0])
        elif k == "VSetType":
            x.type = mk_type_obj(ir, a[0])
        elif k == "VSetShapeDim":
            x.shape[a[0]] = a[1]
        elif k == "VSetShape":
            x.shape = None if a[0] is None else ir.Shape(a[0])
        elif k == "MpSet":
            x.metadata_props[a[0]] = a[1]
        elif k == "MpDel":
            x.metadata_props.pop(a[0], None)
        elif k == "MetaSet":
            x.meta[a[0]] = a[1]
        elif k == "MetaInvalidate":
            x.meta.invalidate(a[0])
        elif k == "NSetName":
            x.name = a[0]
        elif k == "NReplaceInput":
            x.replace_input_with(a[0], a[1])
        elif k == "NSetAttr":
            x.attributes[a[0]] = ir.Attr(a[0], ir.AttributeType.INT, a[1])
        elif k == "NDelAttr":
            x.attributes.pop(a[0], None)
        elif k == "GSetName":
            x.name = a[0]
        elif k == "GAppendNode":
            n = ir.Node("", a[0], a[1], num_outputs=len(a[2]), name=a[3])
            for o, nm in zip(n.outputs, a[2]):
                o.name = nm
            x.append(n)
        elif k == "GRemoveNode":
            x.remove(a[0])
        elif k == "GOpsetSet":
            x.opset_imports[a[0]] = a[1]
        else:
            raise AssertionError(k)
    except Exception as e:  # noqa: BLE001
        return ("raise", common.exn_name(e))
    return ("ok", None)


def op_term(R: Reg, gen, op) -> str:
    """The operation as a Model.v [op] over implementation ids."""
    k, x, a = op
    t = P(R.id(x))

    def dimt(d):
        if isinstance(d, int):
            return f"(DInt {cZ(d)})"
        return f"(DSym {oN(R.s(d))})"

    def tyt(tt):
        if tt is None:
            return "None"
        kk, dt = tt
        if kk == "T":
            return f"(Some (TBase 0%N {cN(dt)} None))"
        if kk == "S":
            return f"(Some (TBase 1%N {cN(dt)} None))"
        return f"(Some (TWrap 2%N (TBase 0%N {cN(dt)} None) None))"

    def ov(v):
        return "None" if v is None else f"(Some {P(R.id(v))})"
    if k == "ASetName":
        return f"(ASetName {t} {cN(R.s(a[0]))})"
    if k in ("VSetName", "VSetDoc", "NSetName", "GSetName", "ASetDoc"):
        return f"({k} {t} {oN(R.s(a[0]))})"
    if k == "VSetConst":
        return f"(VSetConst {t} {oP(R.id(gen.tensors[0]) if (a[0] and gen.tensors) else None)})"
    if k == "VSetDtype":
        return f"(VSetDtype {t} {cN(a[0])})"
    if k == "VSetType":
        return f"(VSetType {t} {tyt(a[0])})"
    if k == "VSetShapeDim":
        return f"(VSetShapeDim {t} {cnat(a[0])} {dimt(a[1])})"
    if k == "VSetShape":
        return f"(VSetShape {t} {'None' if a[0] is None else '(Some ' + clist(dimt(d) for d in a[0]) + ')'})"
    if k == "MpSet":
        return f"(MpSet {t} {cN(R.s(a[0]))} {cN(R.s(a[1]))})"
    if k == "MpDel":
        return f"(MpDel {t} {cN(R.s(a[0]))})"
    if k == "MetaSet":
        return f"(MetaSet {t} {cN(R.s(a[0]))} {cZ(a[1])})"
    if k == "MetaInvalidate":
        return f"(MetaInvalidate {t} {cN(R.s(a[0]))})"
    if k == "NReplaceInput":
        return f"(NReplaceInput {t} {cnat(a[0])} {ov(a[1])})"
    if k == "NSetAttr":
        return f"(NSetAttr {t} {cN(R.s(a[0]))} 2%N {cN(R.s(f'int:{a[1]!r}'))})"
    if k == "NDelAttr":
        return f"(NDelAttr {t} {cN(R.s(a[0]))})"
    if k == "GAppendNode":
        return (f"(GAppendNode {t} {cN(R.s(a[0]))} {clist(ov(v) for v in a[1])} "
                f"{clist(cN(R.s(n)) for n in a[2])} {cN(R.s(a[3]))})")
    if k == "GRemoveNode":
        return f"(GRemoveNode {t} {P(R.id(a[0]))})"
    if k == "GOpsetSet":
        return f"(GOpsetSet {t} {cN(R.s(a[0]))} {cN(a[1])})"
    raise AssertionError(k)


def op_json(R: Reg, op):
    k, x, a = op

    def j(v):
        if isinstance(v, (list, tuple)):
            return [j(y) for y in v]
        if v is None or isinstance(v, (int, str)):
            return v
        return {"obj": R.id(v), "name": getattr(v, "name", None)}
    return {"op": k, "target": {"obj": R.id(x), "type": type(x).__name__, "name": getattr(x, "name", None)},
            "args": j(a)}


# --------------------------------------------------------------------------- projection of ir.to_proto (twin of Iso.v proj_*)

def MK(k):
    return 1000000 + k


def proto_proj(R: Reg, ir, root) -> list[int]:
    """Names, op identifiers, connectivity by name, attribute names with nested graphs, initializer names, doc
    strings and metadata_props, read from the ONNX proto that the implementation serializes."""
    import onnx
    from onnx_ir import serde

    def e(sv):
        return R.s(sv or "") + 1

    def mp(msg):
        out = []
        for k, v in sorted((e(kv.key), e(kv.value)) for kv in msg.metadata_props):   # key order: by token
            out += [k, v]
        return out

    def graph(g):
        out = [MK(1), e(g.name), MK(2)] + [e(i.name) for i in g.input] + [MK(3)] + [e(o.name) for o in g.output]
        out += [MK(4)] + [e(t.name) for t in g.initializer] + [MK(5)]
        for n in g.node:
            out += [MK(10), e(n.name), e(n.op_type), e(n.domain), e(n.overload), MK(11)] + [e(i) for i in n.input]
            out += [MK(12)] + [e(o) for o in n.output] + [MK(13)]
            for a in n.attribute:
                if a.ref_attr_name:
                    out += [MK(21), e(a.name), e(a.ref_attr_name)]
                elif a.type == onnx.AttributeProto.GRAPH:
                    out += [MK(22), e(a.name)] + graph(a.g) + [MK(23)]
                elif a.type == onnx.AttributeProto.GRAPHS:
                    out += [MK(24), e(a.name)]
                    for sg in a.graphs:
                        out += graph(sg)
                    out += [MK(25)]
                elif a.type == onnx.AttributeProto.TENSOR:
                    out += [MK(26), e(a.name), e(a.t.name)]
                else:
                    out += [MK(20), e(a.name)]
            out += [MK(14), e(n.doc_string), MK(15)] + mp(n) + [MK(16)]
        out += [MK(6), e(g.doc_string), MK(7)] + mp(g) + [MK(8)]
        return out

    def func(f):
        # a FunctionProto carries the body of the function's graph without a graph name / initializers
        out = [MK(30), e(f.domain), e(f.name), e(f.overload)]
        return out, f
    if isinstance(root, ir.Model):
        m = serde.serialize_model(root)
        out = graph(m.graph)
        for f in root.functions.values():
            out += function_proj(R, ir, f, graph)
        return out
    if isinstance(root, ir.Function):
        return function_proj(R, ir, root, graph)
    return graph(serde.serialize_graph(root))


def function_proj(R, ir, f, graph):
    """A FunctionProto has no graph message: the function's body is projected through serialize_graph of a view
    of its nodes with the function's inputs/outputs (same node serializer), under the function's identifier."""
    from onnx_ir import serde

    def e(sv):
        return R.s(sv or "") + 1
    g = f._graph  # noqa: SLF001
    return [MK(30), e(f.domain), e(f.name), e(f.overload)] + graph(serde.serialize_graph(g)) + [MK(31)]


# --------------------------------------------------------------------------- one correspondence case

CASE_HEADER = """From Coq Require Import List ZArith NArith PArith Bool.
From IRV Require Import Base.Exn C13.Model C13.Iso.
Import ListNotations.
Local Open Scope positive_scope.
"""


def run_case(spec: dict, nops: int):
    """Build, dump, clone with the implementation, dump, edit, dump.  -> (coq term, info dict)."""
    import onnx_ir as ir
    sc = scenario_of(spec)
    gen = sc["gen"]
    R = Reg()
    D = Dumper(R)
    # serde synchronizes initializer tensor names with their values: serialize first (twice), dump afterwards, so the
    # dumped tensor names are the ones the proto shows and later serializations of the same objects change nothing
    serialize(ir, sc["model"])
    try:
        proto_proj(R, ir, sc["target"])
        pproj = proto_proj(R, ir, sc["target"])
    except Exception:  # noqa: BLE001   (not serializable: the proto tie is skipped for this case, [0] = no proto)
        pproj = None
    sc["univ"] = list(sc["univ"]) + list(gen.tensors)       # every tensor object exists in the initial heap
    h0 = D.dump(sc["univ"])
    n0 = R.next
    root = R.id(sc["target"])
    sorted_py = is_sorted(ir, cloned_graph_of(sc))
    info = {"spec": spec, "cells_before": len(h0), "sorted": sorted_py,
            "conflict": ownership_conflict(ir, cloned_graph_of(sc))}
    pclone = []
    try:
        clone = sc["clone"]()
        res = ("ok", None)
    except Exception as e:  # noqa: BLE001
        clone = None
        res = ("raise", common.exn_name(e))
    info["outcome"] = "ok" if clone is not None else "raise:" + res[1]
    ops_terms, ops_js = [], []
    if clone is None:
        after, final, cres = {}, {}, f"(Raise {res[1]})"
    else:
        roots = sc["univ"] + [clone]
        if pproj is not None:
            try:
                pclone = proto_proj(R, ir, clone)
            except Exception:  # noqa: BLE001
                pclone = [999998]      # the clone of a serializable original must be serializable
        after = D.dump(roots)
        cres = f"(Ok {P(R.id(clone))})"
        info["cells_after"] = len(after)
        rng = random.Random(spec.get("seed", 0) * 7919 + 13)
        cnt = [0]

        def uniq(p):
            cnt[0] += 1
            return f"{p}_{cnt[0]}"
        sides = {"orig": collect(ir, sc["target"] if sc["kind"] != 0 else sc["model"]), "clone": collect(ir, clone)}
        side_attrs = {k: [a for n in v[1] for a in n.attributes.values()] for k, v in sides.items()}
        for _ in range(nops):
            side = rng.choice(["orig", "clone", "clone"])
            op = gen_op(rng, ir, *sides[side], uniq, attrs=side_attrs[side])
            if op is None:
                continue
            term = op_term(R, gen, op)       # before applying: ids of the arguments exist already
            js = op_json(R, op)
            if op[0] == "VSetName" and op[1].const_value is not None and op[1].name != op[2][0]:
                js["renames_tensor"] = True
            if op[0][0] == "A":
                js["attr_shared"] = R.id(op[1]) < n0
            r = apply_op_impl(ir, gen, op)
            ops_terms.append(f"({term}, {'Ok tt' if r[0] == 'ok' else 'Raise ' + r[1]})")
            js["side"], js["result"] = side, r[0] if r[0] == "ok" else r[1]
            ops_js.append(js)
        final = D.dump(roots)
    info["ops"] = ops_js
    term = ("(Case\n   " + cells_term(h0) + f"\n   {P(n0)} {cnat(sc['kind'])} {P(root)} "
            + clist(P(R.id(u)) for u in sc["univ"]) + f" {cbool(sc['allow'])} {cbool(sc['deep'])} {cres}\n   "
            + cells_term(after) + f"\n   {cbool(sorted_py)}\n   " + clist(ops_terms) + "\n   " + cells_term(final)
            + "\n   " + clist(cN(x) for x in (pproj if pproj is not None else [0])) + "\n   "
            + clist(cN(x) for x in (pclone if pproj is not None else [0])) + ")")
    info["serializable"] = pproj is not None
    return term, info


CODE_MEANING = {1: "both raise but different exceptions", 2: "one side raises, the other returns",
                3: "heaps after clone are not isomorphic (sharing structure or contents differ)",
                4: "use-before-definition flag of the model run differs from the implementation-side check",
                5: "an edit operation has a different outcome", 6: "heaps after the edit history differ",
                7: "projection of to_proto(original) differs from the model's canonical serialization",
                8: "projection of to_proto(clone) differs from the canonical serialization of the model's clone"}


def case_file(terms: list[str]) -> str:
    return (CASE_HEADER + "Definition cases : list case :=\n [" + ";\n  ".join(terms) + "].\n"
            "Eval vm_compute in (codes cases).\n")


# --------------------------------------------------------------------------- hand-written scenarios (corpus)

def builtin_scenario(name: str):
    import numpy as np
    import onnx_ir as ir
    F = ir.DataType.FLOAT
    gen = Gen(random.Random(0), 1)

    def val(n, **kw):
        return ir.Value(name=n, type=ir.TensorType(F), shape=ir.Shape([1, "N"]), **kw)
    allow = False
    kind = 0
    if name == "dtype_setter":
        # fixed defect (823601c): cloned values shared the type object with the original
        x = val("x")
        n = ir.Node("", "Relu", [x], name="n")
        n.outputs[0].name, n.outputs[0].type, n.outputs[0].shape = "y", ir.TensorType(F), ir.Shape([2])
        g = ir.Graph([x], n.outputs, nodes=[n], name="g", opset_imports={"": 20})
        target = g
    elif name == "unsorted_outer":
        # fixed 82dd72c (was: silent aliasing): node B listed before the node A that produces its input -> rejected
        x = val("x")
        a = ir.Node("", "Relu", [x], name="A")
        a.outputs[0].name = "a"
        b = ir.Node("", "Neg", [a.outputs[0]], name="B")
        b.outputs[0].name = "b"
        g = ir.Graph([x], b.outputs, nodes=[b, a], name="g", opset_imports={"": 20})
        target, allow = g, True
    elif name == "subgraph_capture":
        x = val("x")
        w = val("w", const_value=ir.Tensor(np.array([1.0], dtype=np.float32), name="w"))
        inner = ir.Node("", "Add", [x, w], name="inner")
        inner.outputs[0].name = "io"
        sub = ir.Graph([], inner.outputs, nodes=[inner], name="then", opset_imports={"": 20})
        c = val("c")
        n = ir.Node("", "If", [c], [ir.AttrGraph("then_branch", sub), ir.AttrInt64("k", 3)], name="if")
        n.outputs[0].name = "o"
        n.meta["note"] = [1, 2]
        n.meta.invalidate("note")
        g = ir.Graph([x, c], n.outputs, nodes=[n], initializers=[w], name="g", opset_imports={"": 20},
                     metadata_props={"a": "b"})
        target, allow = sub, True
    elif name == "tensor_attr_shared":
        # known finding: the Value.name setter renames the (shared) tensor; here the tensor is also an attribute
        t = ir.Tensor(np.array([1.0], dtype=np.float32), name="t")
        gen.tensors.append(t)
        n = ir.Node("", "Constant", [], [ir.AttrTensor("value", t)], name="c")
        n.outputs[0].name = "v"
        n.outputs[0].const_value = t
        g = ir.Graph([], n.outputs, nodes=[n], name="g", opset_imports={"": 20})
        model = ir.Model(g, ir_version=10)
        return {"model": model, "gen": gen, "target": model, "univ": [model], "kind": 3, "allow": False, "deep": False,
                "clone": lambda: model.clone()}
    elif name == "view_foreign_output":
        # seeded change C13-m3: a view whose declared output is produced by a node outside the view must be rejected
        x = val("x")
        n1 = ir.Node("", "Relu", [x], name="relu"); n1.outputs[0].name = "y"
        n2 = ir.Node("", "Neg", [n1.outputs[0]], name="neg"); n2.outputs[0].name = "n"
        n3 = ir.Node("", "Abs", [n2.outputs[0]], name="abs"); n3.outputs[0].name = "a"
        n4 = ir.Node("", "Exp", [n3.outputs[0]], name="exp"); n4.outputs[0].name = "out"
        g = ir.Graph([x], n4.outputs, nodes=[n1, n2, n3, n4], name="main", opset_imports={"": 20})
        model = ir.Model(g, ir_version=10)
        view = ir.GraphView([n1.outputs[0]], [n3.outputs[0]], nodes=[n2], name="view")
        return {"model": model, "gen": gen, "target": view, "univ": [model, view], "kind": 1, "allow": False,
                "deep": False, "clone": lambda: view.clone()}
    elif name == "sharded_capture":
        # seeded change C13-r3m3: the sharding spec of a captured (outer-scope) input must survive the clone
        model = ir.Model(ir.Graph([], [], nodes=[], name="placeholder"), ir_version=11)
        cfg = model.add_device_configuration("c0", device_names=("d0", "d1"))
        x = ir.Value(name="x", type=ir.TensorType(F), shape=ir.Shape([4, 2]))
        c = val("c")
        inner = ir.Node("", "Relu", [x], name="inner")
        inner.outputs[0].name = "io"
        inner.shard(x, configuration=cfg, axis=0, num_shards=2, device_indices=(0, 1))
        sub = ir.Graph([], inner.outputs, nodes=[inner], name="then", opset_imports={"": 20})
        n = ir.Node("", "If", [c], [ir.AttrGraph("then_branch", sub)], name="if")
        n.outputs[0].name = "o"
        model.graph = ir.Graph([x, c], n.outputs, nodes=[n], name="g", opset_imports={"": 20})
        return {"model": model, "gen": gen, "target": sub, "univ": [model], "kind": 0, "allow": True, "deep": False,
                "clone": lambda: sub.clone(allow_outer_scope_values=True)}
    elif name == "multi_device_configs":
        # seeded change C13-r4m3: value-bound specs under the first configuration, placement-only under the last
        model = ir.Model(ir.Graph([], [], nodes=[], name="placeholder"), ir_version=11)
        tp = model.add_device_configuration("tp", device_names=("d0", "d1"))
        pp = model.add_device_configuration("pp", num_devices=2)
        x = ir.Value(name="x", type=ir.TensorType(F), shape=ir.Shape([4, 2]))
        n = ir.Node("", "Relu", [x], name="relu")
        n.outputs[0].name, n.outputs[0].shape, n.outputs[0].type = "y", ir.Shape([4, 2]), ir.TensorType(F)
        n.shard(x, configuration=tp, axis=0, num_shards=2, device_indices=(0, 1))
        n.shard(n.outputs[0], configuration=tp, axis=0, num_shards=2, device_indices=(0, 1))
        n.set_pipeline_stage(pp, 1)
        model.graph = ir.Graph([x], n.outputs, nodes=[n], name="g", opset_imports={"": 20})
        return {"model": model, "gen": gen, "target": model, "univ": [model], "kind": 3, "allow": False, "deep": False,
                "clone": lambda: model.clone()}
    elif name == "subgraph_capture_rejected":
        sc = builtin_scenario("subgraph_capture")
        sub = sc["target"]
        sc["clone"] = lambda: sub.clone()
        sc["allow"] = False
        return sc
    else:
        raise KeyError(name)
    model = ir.Model(target if name != "subgraph_capture" else g, ir_version=10)
    tgt = target
    al = allow
    return {"model": model, "gen": gen, "target": tgt, "univ": [model], "kind": kind, "allow": al, "deep": False,
            "clone": lambda: tgt.clone(allow_outer_scope_values=al)}


def scenario_of(spec: dict):
    if "builtin" in spec:
        return builtin_scenario(spec["builtin"])
    return build_scenario(spec)


# --------------------------------------------------------------------------- the property oracle (public API only)

def serialize(ir, root, normalize_view: bool = False):
    """Deterministic proto bytes, or None when the object cannot be serialized (e.g. a sharding spec about a
    value that is not an input/output of its node): proto comparisons are then skipped for that scenario.

    Serializing has a side effect: serde sets the name of every initializer tensor to the name of its value.  A
    tensor object that is shared (several initializers, an attribute) is therefore printed with the name given by
    whatever was serialized last, so one serialization of an object is not yet a function of that object; the
    second one is (the first pass leaves the names in the state this object determines).  All comparisons use the
    second pass."""
    try:
        _serialize(ir, root, normalize_view)
        return _serialize(ir, root, normalize_view)
    except Exception:  # noqa: BLE001
        return None


def _serialize(ir, root, normalize_view: bool = False) -> bytes:
    from onnx_ir import serde
    if isinstance(root, ir.Model):
        return serde.serialize_model(root).SerializeToString(deterministic=True)
    if isinstance(root, ir.Function):
        return serde.serialize_function(root).SerializeToString(deterministic=True)
    p = serde.serialize_graph(root)
    if normalize_view:
        # Whether a GraphView serializes a value_info entry for a node output is decided by is_graph_output(),
        # a property of the OWNING graph, not of the view (outputs of the view that are not outputs of the
        # underlying graph are listed twice, outputs of the underlying graph that are interior to the view are
        # not listed).  A view and its clone are therefore compared modulo value_info; the information carried by
        # value_info (names, types, shapes, metadata of every value) is compared by py_canon instead.
        del p.value_info[:]
    return p.SerializeToString(deterministic=True)


def py_canon(ir, root):
    """Name-based canonical structure through public accessors (the Python twin of Model.v's gcanon)."""
    def me(o):
        # meta entries and the keys marked invalid (probed through the public is_valid)
        probes = list(o.meta) + ["m1", "m2", "m3", "m9", "mm", "note", "edited"]
        return ([(k, repr(x)) for k, x in o.meta.items()], sorted({k for k in probes if not o.meta.is_valid(k)}))

    def value(v):
        sh = v.shape
        return (v.name, type_chain(v.type), None if sh is None else ([repr(d) for d in sh.dims],
                [sh.get_denotation(i) for i in range(len(sh))]), v.doc_string,
                None if v.const_value is None else id(v.const_value), list(v.metadata_props.items()), me(v))

    def attr(a):
        T = ir.AttributeType
        if a.is_ref():
            return (a.name, "ref", a.ref_attr_name, int(a.type))
        if a.type == T.GRAPH:
            return (a.name, graph(a.value), a.doc_string)
        if a.type == T.GRAPHS:
            return (a.name, [graph(g) for g in a.value], a.doc_string)
        return (a.name, int(a.type), id(a.value) if a.type in (T.TENSOR, T.TENSORS) else repr(a.value), a.doc_string)

    def graph(g):
        return (g.name, [value(v) for v in g.inputs], [v.name for v in g.outputs],
                [value(v) for v in g.initializers.values()],
                [(n.name, n.domain, n.op_type, n.overload, n.version, [None if v is None else v.name for v in n.inputs],
                  [value(v) for v in n.outputs], [attr(a) for a in n.attributes.values()], n.doc_string,
                  list(n.metadata_props.items()), me(n),
                  [(id(c.configuration), c.pipeline_stage,
                    [(None if s.value is None else s.value.name, repr((s.device, s.index_to_device_group_map,
                                                                        s.sharded_dims))) for s in c.sharding_specs])
                   for c in n.device_configurations]) for n in g],
                g.doc_string, list(g.opset_imports.items()), list(g.metadata_props.items()), me(g))
    if isinstance(root, ir.Model):
        return (graph(root.graph), [(list(k), f.domain, f.name, f.overload, graph(f._graph),  # noqa: SLF001
                                     [attr(a) for a in f.attributes.values()]) for k, f in root.functions.items()],
                root.ir_version, root.producer_name, root.doc_string, list(root.metadata_props.items()))
    if isinstance(root, ir.Function):
        return (root.domain, root.name, root.overload, graph(root._graph),  # noqa: SLF001
                [attr(a) for a in root.attributes.values()])
    return graph(root)


def type_chain(t):
    out = []
    while t is not None:
        out.append((type(t).__name__, getattr(t, "denotation", None)))
        inner = getattr(t, "elem_type", None)
        if inner is None or not hasattr(inner, "dtype") or type(inner).__name__ not in TYPE_KIND:
            out.append(("dtype", int(t.dtype)))
            break
        t = inner
    return out


def type_objects(t):
    out = []
    while t is not None and type(t).__name__ in TYPE_KIND:
        out.append(t)
        t = getattr(t, "elem_type", None) if TYPE_KIND[type(t).__name__] >= 2 else None
    return out


def snapshot(ir, root, skip_uses_of=()):
    """Everything the public accessors return for the objects reachable from root, with object identity
    replaced by first-encounter numbers (so aliasing structure is part of the snapshot)."""
    num: dict[int, int] = {}
    skip = {id(v) for v in skip_uses_of}

    def ref(o):
        if o is None:
            return None
        return num.setdefault(id(o), len(num))

    def meta(o):
        return {"mp": list(o.metadata_props.items()), "meta": [(k, repr(v)) for k, v in o.meta.items()],
                "invalid": sorted(k for k in list(o.meta) + ["m1", "m2", "m3", "m9", "mm", "note"] if not o.meta.is_valid(k))}

    def value(v):
        sh = v.shape
        d = {"id": ref(v), "name": v.name, "type": type_chain(v.type), "type_obj": ref(v.type),
             "dtype": None if v.dtype is None else int(v.dtype),
             "shape": None if sh is None else {"obj": ref(sh), "dims": [repr(x) for x in sh.dims], "frozen": sh.frozen,
                                              "den": [sh.get_denotation(i) for i in range(len(sh))]},
             "doc": v.doc_string, "const": None if v.const_value is None else id(v.const_value),
             "flags": [v.is_graph_input(), v.is_graph_output(), v.is_initializer()],
             "producer": ref(v.producer()), "index": v.index(), "graph": ref(v.graph)}
        d.update(meta(v))
        if id(v) not in skip:
            d["uses"] = sorted((ref(u.node), u.idx) for u in v.uses())
        return d

    def attr(a):
        T = ir.AttributeType
        if a.is_ref():
            return {"name": a.name, "ref": a.ref_attr_name, "type": int(a.type)}
        if a.type == T.GRAPH:
            return {"name": a.name, "graph": graph(a.value), "doc": a.doc_string}
        if a.type == T.GRAPHS:
            return {"name": a.name, "graphs": [graph(g) for g in a.value], "doc": a.doc_string}
        v = a.value
        return {"name": a.name, "type": int(a.type), "doc": a.doc_string,
                "value": id(v) if a.type in (T.TENSOR, T.TENSORS) else repr(v)}

    def node(n):
        d = {"id": ref(n), "name": n.name, "domain": n.domain, "op": n.op_type, "overload": n.overload,
             "version": n.version, "doc": n.doc_string, "inputs": [ref(v) for v in n.inputs],
             "input_names": [None if v is None else v.name for v in n.inputs],
             "outputs": [value(v) for v in n.outputs], "attrs": [(k, attr(a)) for k, a in n.attributes.items()],
             "graph": ref(n.graph),
             "dev": [(id(c.configuration), c.pipeline_stage,
                      [(ref(s.value), repr((s.device, s.index_to_device_group_map, s.sharded_dims)))
                       for s in c.sharding_specs]) for c in n.device_configurations]}
        d.update(meta(n))
        return d

    def graph(g):
        d = {"id": ref(g), "name": g.name, "doc": g.doc_string, "opset": list(g.opset_imports.items()),
             "inputs": [value(v) for v in g.inputs], "inits": [(k, value(v)) for k, v in g.initializers.items()],
             "nodes": [node(n) for n in g], "outputs": [(ref(v), v.name) for v in g.outputs]}
        d.update(meta(g))
        return d
    if isinstance(root, ir.Model):
        d = {"graph": graph(root.graph), "ir_version": root.ir_version, "producer": root.producer_name,
             "doc": root.doc_string, "dev": [id(c) for c in root.device_configurations],
             "functions": [(list(k), {"domain": f.domain, "name": f.name, "overload": f.overload,
                                     "attrs": [(k2, attr(a)) for k2, a in f.attributes.items()],
                                     "graph": graph(f._graph)})  # noqa: SLF001
                           for k, f in root.functions.items()]}
        d.update(meta(root))
        return d
    if isinstance(root, ir.Function):
        return {"domain": root.domain, "name": root.name, "overload": root.overload,
                "attrs": [(k2, attr(a)) for k2, a in root.attributes.items()], "graph": graph(root._graph)}  # noqa: SLF001
    return graph(root)


def mutable_objects(ir, root, deep_meta: bool):
    """id -> description of every mutable object reachable from root that a clone must not share."""
    vals, nodes, graphs = collect(ir, root)
    out = {}

    def put(o, what):
        out[id(o)] = what
    for v in vals:
        put(v, f"value {v.name}")
        for t in type_objects(v.type):
            put(t, f"type object of value {v.name}")
        if v.shape is not None:
            put(v.shape, f"shape of value {v.name}")
    for o, what in [(v, f"value {v.name}") for v in vals] + [(n, f"node {n.name}") for n in nodes] + \
                   [(g, f"graph {g.name}") for g in graphs]:
        put(o.metadata_props, f"metadata_props of {what}")
        put(o.meta, f"meta of {what}")
        if deep_meta:
            for k, x in o.meta.items():
                if isinstance(x, list):
                    put(x, f"meta[{k}] of {what}")
    for n in nodes:
        put(n, f"node {n.name}")
        for a in n.attributes.values():
            if not a.is_ref() and a.type in (ir.AttributeType.GRAPH, ir.AttributeType.GRAPHS):
                put(a, f"graph attribute {a.name} of node {n.name}")
    for g in graphs:
        put(g, f"graph {g.name}")
        put(g.opset_imports, f"opset_imports of graph {g.name}")
    if isinstance(root, ir.Model):
        put(root, "model")
        put(root.metadata_props, "metadata_props of model")
        put(root.functions, "functions of model")
        for f in root.functions.values():
            put(f, f"function {f.name}")
    return out, vals, nodes, graphs


def owned_values(ir, g):
    return {id(v) for k, v in traversal_events(ir, g) if k == "def"}


def edit_everything(ir, root, rng, tensors, skip=(), rename=True, deep=False):
    """Apply every public setter to every object reachable from root (a clone or an original), except the
    values in [skip] (captured outer-scope values, shared by design)."""
    vals, nodes, graphs = collect(ir, root)
    skip_ids = {id(v) for v in skip}
    vals = [v for v in vals if id(v) not in skip_ids]
    n = 0
    for v in vals:
        try:
            if rename:
                v.name = (v.name or "anon") + "_edited"
        except Exception:  # noqa: BLE001
            pass
        v.dtype = ir.DataType.INT8
        if v.type is not None and hasattr(v.type, "denotation"):
            v.type.denotation = "EDITED"
        if v.shape is not None and not v.shape.frozen and len(v.shape) > 0:
            v.shape[0] = 77
        if v.shape is not None and not v.shape.frozen and len(v.shape) > 0:
            v.shape.set_denotation(0, "EDITED")
        v.metadata_props["edited"] = "1"
        v.metadata_props.pop("k1", None)
        v.meta["edited"] = 1
        v.meta.invalidate("m1")
        for k, x in list(v.meta.items()):
            if isinstance(x, list) and deep:
                x.append(99)
        v.doc_string = "edited"
        n += 8
    for v in vals[: len(vals) // 2]:
        v.type = ir.TensorType(ir.DataType.BOOL)
        v.shape = ir.Shape([9, 9])
        if not v.is_initializer():
            v.const_value = tensors[0] if tensors else None
    for nd in nodes:
        nd.name = (nd.name or "anon") + "_edited"
        nd.doc_string = "edited"
        nd.metadata_props["edited"] = "1"
        nd.meta["edited"] = 2
        nd.attributes["edited"] = ir.AttrInt64("edited", 1)
        nd.attributes.pop("alpha", None)
        nd.domain = "edited.domain"
        nd.op_type = nd.op_type + "X"
        nd.version = 7
        if vals and len(nd.inputs) > 0:
            nd.replace_input_with(0, vals[rng.randrange(len(vals))])
        n += 9
    for g in graphs:
        if isinstance(g, ir.GraphView):
            continue
        g.name = "edited"
        g.doc_string = "edited"
        g.opset_imports["edited"] = 3
        g.metadata_props["edited"] = "1"
        g.meta["edited"] = 3
        extra = ir.Node("", "Edited", [vals[0]] if vals else [], name=f"edited_{id(g) % 9973}")
        extra.outputs[0].name = f"edited_out_{id(g) % 9973}"
        g.append(extra)
        if len(g) > 1 and rng.random() < 0.5:
            try:
                g.remove(g[0])
            except Exception:  # noqa: BLE001
                pass
        g.outputs.append(extra.outputs[0])
        n += 7
    if isinstance(root, ir.Model):
        root.metadata_props["edited"] = "1"
        root.doc_string = "edited"
        root.producer_name = "edited"
        n += 3
    return n


def oracle(spec: dict, rename: bool = True) -> list[dict]:
    """The property itself, on one scenario.  -> list of failures ({kind, what})."""
    import onnx_ir as ir
    fails: list[dict] = []

    def bad(kind, what):
        fails.append({"kind": kind, "what": what})
    sc = scenario_of(spec)
    root, kind, allow, deep = sc["target"], sc["kind"], sc["allow"], sc["deep"]
    cg = cloned_graph_of(sc)
    sorted_py = is_sorted(ir, cg)
    ev = traversal_events(ir, cg)
    owned = {id(v) for k, v in ev if k == "def"}
    outer = [v for k, v in ev if k == "use" and id(v) not in owned]
    foreign_out = unmapped_outputs(ir, cg)
    # serialization synchronizes the names of initializer tensors with their values (serde: "make sure the
    # tensor's name is the same as the value's name"), so the first serialization may itself rename a tensor that
    # is also used as an attribute; baselines are taken after one warm-up serialization
    serialize(ir, sc["model"])
    serialize(ir, root)
    canon_root = py_canon(ir, root)
    before = snapshot(ir, sc["model"], skip_uses_of=outer)
    seen_, ubd = set(), []          # own values used before their definition (only in unsorted graphs)
    for k_, v_ in ev:
        if k_ == "def":
            seen_.add(id(v_))
        elif k_ == "use" and id(v_) in owned and id(v_) not in seen_:
            ubd.append(v_)
    before_ubd = snapshot(ir, sc["model"], skip_uses_of=outer + ubd) if ubd else before
    ser_before = serialize(ir, sc["model"])
    ser_root = serialize(ir, root, normalize_view=(kind == 1))
    # without allow_outer_scope_values nothing is passed through: a REJECTED clone must leave the FULL observation of the
    # original unchanged, including uses()/consumers() of the values it captures (no half-built node may stay registered
    # as a user of an original value)
    before_full = snapshot(ir, sc["model"]) if not allow else None
    try:
        clone = sc["clone"]()
    except Exception as e:  # noqa: BLE001
        if not outer and not foreign_out and sorted_py and kind != 3 and not ownership_conflict(ir, cg):
            bad("rejected", f"clone of a closed, sorted graph raised {type(e).__name__}: {str(e)[:120]}")
        if before_full is not None:
            now_full = snapshot(ir, sc["model"])
            if now_full != before_full:
                bad("original-changed", "a rejected clone (outer-scope values not allowed) changed the original, e.g. left "
                    "discarded nodes registered as users of a captured value: " + first_diff(before_full, now_full))
                return fails
        now = snapshot(ir, sc["model"], skip_uses_of=outer)
        if now != before or serialize(ir, sc["model"]) != ser_before:
            # (before fix 82dd72c a rejected clone of an unsorted graph could leave its nodes registered as users of
            # an own value used before its definition; it is now rejected before the node is built)
            what = "a rejected clone changed the original: " + first_diff(before, now)
            if ubd and snapshot(ir, sc["model"], skip_uses_of=outer + ubd) == before_ubd:
                what += f" (only the users of {ubd[0].name!r}, a value used before its definition, changed)"
            bad("original-changed", what)
        return fails
    if spec.get("expect") == "rejected":
        bad("accepted", "this scenario must be rejected (a value is used before it is defined) but clone() returned")
    if outer and not allow and kind in (0, 1):
        bad("outer-accepted", f"graph references outer-scope value {outer[0].name!r} but the clone was not rejected")
    if foreign_out:
        bad("outer-accepted", f"declared output {foreign_out[0].name!r} is defined outside the cloned region "
                              "but the clone was not rejected")
    # 1. serializes like the original
    if ser_root is not None:
        sc_ = serialize(ir, clone, normalize_view=(kind == 1))
        if sc_ is None:
            bad("serialization", "the clone cannot be serialized although the original can")
        elif sc_ != ser_root:
            bad("serialization", "serialized clone differs from the serialized original")
    if py_canon(ir, clone) != canon_root:
        bad("structure", "canonical structure of the clone differs from the original's: "
            + first_diff(canon_root, py_canon(ir, clone)))
    # 2. new objects
    mo_orig, _, _, _ = mutable_objects(ir, sc["model"], deep)
    if kind == 1:
        mo_orig.update(mutable_objects(ir, root, deep)[0])
    mo_clone, cvals, cnodes, cgraphs = mutable_objects(ir, clone, deep)
    for k, what in mo_clone.items():
        if k in mo_orig:
            if what.startswith("value") and allow and k not in owned:
                continue        # a captured outer-scope value
            if what.startswith(("metadata_props of value", "meta of value", "type object of value", "shape of value")) \
                    and allow and any(id(v) == k2 for v in outer for k2 in [id(v)]):
                pass
            owner_captured = allow and any(
                k in (id(v.metadata_props), id(v.meta), id(v.shape)) or k in [id(t) for t in type_objects(v.type)]
                or any(k == id(x) for x in v.meta.values() if isinstance(x, list))
                for v in outer)
            if owner_captured:
                continue
            bad("shared", f"{what} of the clone is the same object as in the original")
    # 3. every reference inside the clone points into the clone (or to a captured outer-scope value)
    cowned = set()
    for g in cgraphs:
        cowned |= {id(v) for v in g.inputs} | {id(v) for v in g.initializers.values()}
    for n in cnodes:
        cowned |= {id(v) for v in n.outputs}
    refs = [(v, f"input of node {n.name}") for n in cnodes for v in n.inputs if v is not None]
    refs += [(v, f"output of graph {g.name}") for g in cgraphs for v in g.outputs]
    # sharding specs: only for nodes whose original satisfies the documented contract (C19: a spec is about one
    # of the node's own inputs or outputs); the cloner keeps any other spec value as it is, flag or no flag
    onodes = {n.name: n for n in collect(ir, sc["model"])[1] + (collect(ir, root)[1] if kind == 1 else [])}

    def dev_ok(n):
        o = onodes.get(n.name)
        if o is None:
            return True
        own = {id(v) for v in list(o.inputs) + list(o.outputs) if v is not None}
        return all(sp.value is None or id(sp.value) in own for c in o.device_configurations for sp in c.sharding_specs)
    refs += [(s.value, f"sharding spec of node {n.name}") for n in cnodes if dev_ok(n)
             for c in n.device_configurations for s in c.sharding_specs if s.value is not None]
    for v, what in refs:
        if id(v) in cowned:
            continue
        if id(v) in owned:
            bad("references-original", f"{what} is the ORIGINAL's own value {v.name!r} (not its clone)")
        elif not allow:
            bad("references-outer", f"{what} is the outer-scope value {v.name!r} although outer-scope values are not allowed")
    if not any(f["kind"] == "references-original" for f in fails):
        now = snapshot(ir, sc["model"], skip_uses_of=outer)
        if now != before:
            bad("original-changed", "cloning changed the original's observable state: " + first_diff(before, now))
    # 4. edit the clone with every setter; the original must not change
    base = snapshot(ir, sc["model"], skip_uses_of=outer)
    ser0 = serialize(ir, sc["model"])
    rng = random.Random(spec.get("seed", 0) + 5)
    try:
        edit_everything(ir, clone, rng, sc["gen"].tensors, skip=outer, rename=rename, deep=deep)
    except Exception as e:  # noqa: BLE001
        bad("edit-error", f"editing the clone raised {type(e).__name__}: {str(e)[:100]}")
    if any(f["kind"] == "references-original" for f in fails):
        return fails           # the clone is entangled with the original: later checks only repeat this
    after = snapshot(ir, sc["model"], skip_uses_of=outer)
    if after != base:
        bad("edit-clone-changes-original", "editing the clone changed the original: " + first_diff(base, after))
    elif serialize(ir, sc["model"]) != ser0:
        bad("edit-clone-changes-original", "editing the clone changed the serialized original")
    return fails


def first_diff(a, b, path="") -> str:
    if type(a) != type(b):
        return f"{path}: {a!r} -> {b!r}"
    if isinstance(a, dict):
        for k in a:
            if k not in b:
                return f"{path}.{k}: removed"
            if a[k] != b[k]:
                return first_diff(a[k], b[k], f"{path}.{k}")
        return f"{path}: keys differ"
    if isinstance(a, (list, tuple)):
        if len(a) != len(b):
            return f"{path}: length {len(a)} -> {len(b)}"
        for i, (x, y) in enumerate(zip(a, b)):
            if x != y:
                return first_diff(x, y, f"{path}[{i}]")
    return f"{path}: {a!r} -> {b!r}"


def oracle_sym(spec: dict, rename: bool = True) -> list[dict]:
    """Symmetric direction: edit the original with every setter, the clone must not change."""
    import onnx_ir as ir
    fails = []
    sc = scenario_of(spec)
    try:
        clone = sc["clone"]()
    except Exception:  # noqa: BLE001
        return fails
    cg = cloned_graph_of(sc)
    ev = traversal_events(ir, cg)
    owned = {id(v) for k, v in ev if k == "def"}
    outer = [v for k, v in ev if k == "use" and id(v) not in owned]
    if outer or not is_sorted(ir, cg):
        return fails       # captured values are shared by design; the unsorted case is reported by oracle()
    if serialize(ir, sc["model"]) is None or serialize(ir, clone) is None:
        return fails
    base = snapshot(ir, clone)
    ser0 = serialize(ir, clone)
    try:
        edit_everything(ir, sc["target"] if sc["kind"] != 1 else cg, random.Random(7), sc["gen"].tensors,
                        rename=rename, deep=sc["deep"])
    except Exception:  # noqa: BLE001
        pass
    after = snapshot(ir, clone)
    if after != base:
        fails.append({"kind": "edit-original-changes-clone",
                      "what": "editing the original changed the clone: " + first_diff(base, after)})
    elif serialize(ir, clone) != ser0:
        fails.append({"kind": "edit-original-changes-clone", "what": "editing the original changed the serialized clone"})
    return fails


FUNCTIONAL_SHAPES = ["inplace", "seq(functional,inplace)", "manager(functional,inplace)", "seq(seq(functional),inplace)",
                     "seq(inplace,functional)"]


def oracle_functional(spec: dict, rename: bool = True) -> list[dict]:
    """functionalize(p)(model) must not alter the input model, whatever p is: a plain in-place pass, or a
    composition (Sequential / PassManager) that starts with an honest functional pass - one that returns a NEW
    Model object wrapping the SAME graph without touching its input - followed by an in-place pass."""
    import onnx_ir as ir
    from onnx_ir.passes import _pass_infra as pi
    fails = []

    for shape in FUNCTIONAL_SHAPES:
        sc = scenario_of(dict(spec, kind=3))
        model = sc["model"]
        tensors = sc["gen"].tensors

        class EditAll(pi.InPlacePass):
            def call(self, m):
                edit_everything(ir, m, random.Random(3), tensors, rename=rename)
                return pi.PassResult(m, True)

        class Stamp(pi.FunctionalPass):
            def call(self, m):
                new = ir.Model(m.graph, ir_version=m.ir_version, producer_name="stamped", producer_version="1",
                               domain=m.domain, model_version=m.model_version, doc_string=m.doc_string,
                               functions=list(m.functions.values()), metadata_props=dict(m.metadata_props),
                               device_configurations=m.device_configurations)
                return pi.PassResult(new, True)
        p = {"inplace": lambda: EditAll(),
             "seq(functional,inplace)": lambda: pi.Sequential(Stamp(), EditAll()),
             "manager(functional,inplace)": lambda: pi.PassManager([Stamp(), EditAll()], steps=2, early_stop=False),
             "seq(seq(functional),inplace)": lambda: pi.Sequential(pi.Sequential(Stamp()), EditAll()),
             "seq(inplace,functional)": lambda: pi.Sequential(EditAll(), Stamp())}[shape]()
        serialize(ir, model)
        base = snapshot(ir, model)
        ser0 = serialize(ir, model)
        try:
            res = pi.functionalize(p)(model)
        except Exception as e:  # noqa: BLE001
            if snapshot(ir, model) != base:
                fails.append({"kind": "functional-pass", "shape": shape,
                              "what": f"a failing functionalized pass [{shape}] ({type(e).__name__}) changed its input"})
            continue
        if res.model is model or res.model.graph is model.graph:
            fails.append({"kind": "functional-pass", "shape": shape,
                          "what": f"functionalize [{shape}] returned the input model / a model sharing the input's graph"})
        after = snapshot(ir, model)
        if after != base:
            fails.append({"kind": "functional-pass", "shape": shape,
                          "what": f"functionalized pass [{shape}] changed its input: " + first_diff(base, after)})
        elif serialize(ir, model) != ser0:
            fails.append({"kind": "functional-pass", "shape": shape,
                          "what": f"functionalized pass [{shape}] changed the serialized input"})
    return fails


def all_oracles(spec: dict, rename: bool = True) -> list[dict]:
    out = oracle(spec, rename)
    out += oracle_sym(spec, rename)
    if spec.get("kind") == 3:
        out += oracle_functional(spec, rename)
    return out


# --------------------------------------------------------------------------- known findings (by site + witness)

KNOWN_TENSOR = "tensor-rename-alias"


def classify(spec: dict, fails: list[dict]) -> tuple[list[str], list[dict]]:
    """-> (known-finding keys that account for some failures, failures not accounted for)."""
    import onnx_ir as ir
    if not fails:
        return [], []
    keys, rest = [], list(fails)
    sc = scenario_of(spec)
    # (2) Value.name setter renames the tensor object shared by clone and original: attributed by re-running the
    # oracle with value renaming switched off
    alias_kinds = ("edit-clone-changes-original", "edit-original-changes-clone", "functional-pass")
    if rest and all(f["kind"] in alias_kinds and "serialized" in f["what"] for f in rest):
        again = [f for f in all_oracles(spec, rename=False) if f["kind"] in alias_kinds]
        if not again:
            keys.append(KNOWN_TENSOR)
            rest = []
    return keys, rest


# --------------------------------------------------------------------------- driver

def spec_for(rng, i: int, size=None) -> dict:
    kind = [0, 0, 1, 2, 3, 3][i % 6]
    return {"seed": rng.randrange(1 << 30), "size": size or rng.choice([1, 2, 3, 3, 4]), "kind": kind,
            "pick": rng.randrange(6), "allow": rng.random() < 0.6, "deep": rng.random() < 0.4}


def load_corpus() -> list[dict]:
    d = os.path.join(common.CORPUS, PROP)
    out = []
    if os.path.isdir(d):
        for fn in sorted(os.listdir(d)):
            if fn.endswith(".json"):
                with open(os.path.join(d, fn)) as f:
                    out.append(json.load(f))
    return out


def correspondence(ck, specs: list[dict], nops: int, tag: str):
    """-> (list of (spec, code) that disagree, infos)."""
    terms, infos, kept_specs = [], [], []
    for sp in specs:
        t, info = run_case(sp, nops)
        if info["conflict"] and info["outcome"] != "ok":
            # a value listed by two graphs of the region (only possible through a GraphView): Graph() refuses it.
            # Graph ownership (C01) is not part of this model; the oracle still checks the rejection is clean.
            ck.hist("skipped", "ownership-conflict-rejected")
            continue
        terms.append(t)
        infos.append(info)
        kept_specs.append(sp)
    specs = kept_specs
    chunk = 25
    files = [(f"{tag}_{k // chunk}", case_file(terms[k:k + chunk])) for k in range(0, len(terms), chunk)]
    results = ck.coq_eval_many(files, timeout=900)
    bad = []
    for (name, _), (rc, out), k in zip(files, results, range(0, len(terms), chunk)):
        if rc != 0:
            raise RuntimeError(f"case file {name} did not compile:\n{out[-3000:]}")
        for code in common.parse_nat_list(out):
            bad.append((specs[k + code // 10], code % 10))
    return bad, infos


def shrink(spec: dict, kinds: set[str]) -> dict:
    """Smaller generator parameters that still show a failure of the same kind."""
    if "builtin" in spec:
        return spec

    def fails(sp):
        try:
            _, rest = classify(sp, all_oracles(sp))
        except Exception:  # noqa: BLE001
            return False
        return any(f["kind"] in kinds for f in rest)
    best = spec
    for size in (1, 2):
        if size >= spec.get("size", 3):
            break
        for seed in range(60):
            sp = dict(spec, size=size, seed=seed)
            if fails(sp):
                return sp
    return best


def report_oracle_failure(ck, spec, fails, origin: str, seen: set):
    keys, rest = classify(spec, fails)
    for k in keys:
        kn = ck.known(k)
        if kn is not None:
            ck.known_finding(k, kn["what"])
        else:
            rest = rest + [f for f in fails if f not in rest]
    if not rest:
        return
    sig = tuple(sorted({f["kind"] for f in rest}))
    if sig in seen:
        return
    seen.add(sig)
    small = shrink(spec, set(sig))
    sf = classify(small, all_oracles(small))[1] or rest
    ck.violation({"kind": "oracle", "origin": origin, "spec": small, "original_spec": spec, "failures": sf[:8],
                  "how_to_read": "spec = generator parameters (harness/props/c13.py build_scenario) or a builtin "
                                 "scenario; failures = statements of the property that do not hold on /repo",
                  "broken": ck.broken_items})


def replay_known(ck):
    for k in ck._known:
        if k.get("status") != "known":
            continue
        spec = k["witness"]
        fails = all_oracles(spec)
        keys, rest = classify(spec, fails)
        if k["key"] in keys:
            ck.known_finding(k["key"], k["what"])
        else:
            ck.broken(f"known-finding-stale:{k['key']}",
                      "the recorded witness no longer fails on the implementation (failures now: "
                      + json.dumps([f['kind'] for f in fails]) + ")")


def search(ck, seen):
    budget = 300 if not ck.thorough else 3000
    for i in range(budget):
        sp = spec_for(ck.rng, i)
        try:
            fails = all_oracles(sp)
        except Exception as e:  # noqa: BLE001
            fails = [{"kind": "oracle-error", "what": f"{type(e).__name__}: {e}"}]
        ck.count()
        if fails:
            report_oracle_failure(ck, sp, fails, "search-after-broken-obligation", seen)
            if ck.violations:
                return


def run(ck) -> None:
    import logging
    logging.disable(logging.WARNING)
    ck.trust("the statement normaliser and the fail-closed ast->Gallina translation of _remap_device_configurations in "
             "harness/props/c13.py (its output is run against the method on a grid, including None-mapped values)",
             "Coq 8.16.1 kernel (coqc; vm_compute in case files and in the witness lemmas; no native_compute)",
             "harness/props/c13.py (generators, dump of the implementation's object graph, Coq literal printer, oracle)",
             "coq/theories/C13/Iso.v (heap isomorphism check used by the case files; definitions only)",
             "environment contract: a pass only touches what is reachable from the model it is given and what it creates "
             "(C13_functional_pass_pure quantifies over all programs of edits on such objects)",
             "modelled not verified: back-pointers (uses/producer/owning graph) and the name authority (C01/C15), tensor "
             "fields other than the name, Attr.meta, renaming of initializers (dict re-keying), inner element-type "
             "objects shared between two values of the original, copy.deepcopy of arbitrary meta values (lists of ints here)")
    ck.assumptions += ["PYTHONHASHSEED fixed by ./check", "onnx/numpy as installed in /venv"]
    ck.coverage["rule"] = ("cases = seeded public-API models (nested subgraphs, captured/shared values, initializers, "
                           "metadata, device annotations, functions, views, unsorted node lists) x clone entry point "
                           "(Graph/GraphView/Function/Model.clone, allow_outer_scope_values, deep_copy) x a random edit history "
                           "on either copy; non-trivial = the clone succeeded, allocated >= 10 cells and >= 1 edit was applied")
    generate(ck)
    ck.prove()
    # Iso.v (case-file support, definitions only) is not in the closure of Property.v: build it explicitly
    rc, out = common.make([os.path.join("theories", PROP, "Iso.vo")], timeout=600)
    if rc != 0:
        ck.broken("build:C13/Iso.v", out[-2000:])
    seen: set = set()
    # ---- the translated _remap_device_configurations against the method itself (translator validation)
    try:
        for m in remap_grid(ck, 100 if not ck.thorough else 1500)[:3]:
            ck.broken("translation:_remap_device_configurations", json.dumps(m))
    except RuntimeError as e:
        ck.broken("translation:_remap_device_configurations", str(e))
    # ---- corpus + generated cases: correspondence model <-> implementation
    n = 80 if not ck.thorough else 4800
    nops = 6 if not ck.thorough else 10
    specs = load_corpus() + [spec_for(ck.rng, i) for i in range(n)]
    try:
        bad, infos = correspondence(ck, specs, nops, "cases")
    except RuntimeError as e:
        bad, infos = [], []
        ck.broken("correspondence:case-file", str(e))
    ck.count(len(infos))
    ck.coverage["traces_validated_against_impl"] = len(infos)
    specs_c = [i["spec"] for i in infos]
    for sp, info in zip(specs_c, infos):
        ck.hist("outcomes", info["outcome"])
        ck.hist("clone_kind", ["Graph.clone", "GraphView.clone", "Function.clone", "Model.clone"][sp.get("kind", 0)]
                if "builtin" not in sp else "builtin")
        ck.hist("flags", f"allow={bool(sp.get('allow'))},deep={bool(sp.get('deep'))}")
        ck.hist("sorted", str(info["sorted"]))
        ck.hist("serializable", str(info.get("serializable")))
        for o in info["ops"]:
            if o.get("renames_tensor"):
                ck.hist("special_ops", f"tensor rename via Value.name ({o['side']} side)")
            if "attr_shared" in o:
                ck.hist("special_ops", ("shared" if o["attr_shared"] else "cloned") + f" Attr edited in place ({o['side']} side)")
            ck.hist("ops", o["op"])
            ck.hist("op_results", o["result"])
        if info["outcome"] == "ok" and info.get("cells_after", 0) - info["cells_before"] >= 10 and \
                any(o["result"] == "ok" for o in info["ops"]):
            ck.nontriv(sp)
    for sp, info in list(zip(specs_c, infos))[:4]:
        ck.sample({"spec": sp, "outcome": info["outcome"], "cells_before": info["cells_before"],
                   "cells_after": info.get("cells_after"), "ops": info["ops"][:3]})
    for sp, code in bad[:6]:
        ck.broken("correspondence:clone-model-vs-implementation",
                  json.dumps({"spec": sp, "stage": CODE_MEANING.get(code, str(code))}))
    # ---- the oracle on the same scenarios (and more)
    extra = 30 if not ck.thorough else 3000
    ospecs = specs + [spec_for(ck.rng, i) for i in range(extra)]
    for sp, _ in bad:
        ospecs.insert(0, sp)
    for sp in ospecs:
        try:
            fails = all_oracles(sp)
        except Exception as e:  # noqa: BLE001
            fails = [{"kind": "oracle-error", "what": f"{type(e).__name__}: {e}"}]
        ck.count()
        if fails:
            report_oracle_failure(ck, sp, fails, "oracle", seen)
    # ---- known findings are replayed on every run
    replay_known(ck)
    # ---- something broken but no concrete input yet: search
    if ck.broken_items and not ck.violations:
        search(ck, seen)


def replay(rp: dict) -> int:
    spec = rp.get("spec")
    if spec is None:
        print("replay names a broken obligation/correspondence, no concrete input:",
              json.dumps(rp.get("broken"), indent=1)[:3000])
        return 1
    fails = all_oracles(spec)
    keys, rest = classify(spec, fails)
    print(json.dumps({"spec": spec, "failures": rest, "known": keys}, indent=1))
    return 1 if rest else 0


# --------------------------------------------------------------------------- per-run translation of _cloner.py

PINNED_METHODS = ["_get_value", "_clone_or_get_value", "clone_attr", "clone_meta", "clone_node",
                  "_remap_device_configurations", "clone_graph"]


def _cloner_src() -> str:
    return os.path.join(common.REPO, "src", "onnx_ir", "_cloner.py")


def _norm_stmt(st) -> str:
    """One statement, normalised: comments are gone in the ast; the MESSAGE of raise / assert is dropped."""
    import ast
    import copy
    st = copy.deepcopy(st)
    for n in ast.walk(st):
        if isinstance(n, ast.Raise) and isinstance(n.exc, ast.Call):
            n.exc.args = [ast.Constant("<msg>")] if n.exc.args else []
        if isinstance(n, ast.Assert) and n.msg is not None:
            n.msg = ast.Constant("<msg>")
    return ast.unparse(st)


def statement_list(fn) -> list[str]:
    """The statements of a method, one string each, nested blocks flattened with a depth prefix; the header of a
    compound statement is kept, its body follows.  Docstrings are skipped."""
    import ast
    out: list[str] = []

    def block(stmts, depth):
        for i, st in enumerate(stmts):
            if i == 0 and isinstance(st, ast.Expr) and isinstance(st.value, ast.Constant) and isinstance(st.value.value, str):
                continue
            pre = ". " * depth
            if isinstance(st, ast.For):
                out.append(pre + f"for {ast.unparse(st.target)} in {ast.unparse(st.iter)}:")
                block(st.body, depth + 1)
                if st.orelse:
                    out.append(pre + "for-else:")
                    block(st.orelse, depth + 1)
            elif isinstance(st, ast.If):
                out.append(pre + f"if {ast.unparse(st.test)}:")
                block(st.body, depth + 1)
                if st.orelse:
                    out.append(pre + "else:")
                    block(st.orelse, depth + 1)
            elif isinstance(st, (ast.While, ast.With, ast.Try, ast.FunctionDef, ast.ClassDef, ast.Match)):
                raise T.Unsupported(f"statement form {type(st).__name__} in a pinned Cloner method")
            else:
                out.append(pre + _norm_stmt(st))
    args = [a.arg for a in fn.args.args] + [f"{a.arg}=" for a in fn.args.kwonlyargs]
    defaults = [ast.unparse(d) for d in fn.args.defaults]
    out.append("def " + fn.name + "(" + ", ".join(args) + ") defaults " + ", ".join(defaults)
               + " decorators " + ", ".join(ast.unparse(d) for d in fn.decorator_list))
    block(fn.body, 0)
    return out


def cstring(x: str) -> str:
    if any(ord(c) > 126 or ord(c) < 32 for c in x):
        raise T.Unsupported(f"non-printable character in source statement {x!r}")
    return '"' + x.replace('"', '""') + '"'


PINNED_ELSEWHERE = [("_core.py", "Graph.clone", "graph_clone"), ("_core.py", "GraphView.clone", "view_clone"),
                    ("_core.py", "Function.clone", "function_clone"), ("_core.py", "Model.clone", "model_clone"),
                    (os.path.join("passes", "_pass_infra.py"), "_FunctionalPassWrapper.call", "functional_call")]


def gen_text(prefix: str) -> str:
    """Gallina text with one [list string] per pinned method (prefix = 'src' for Gen/C13Gen.v, 'pinned' for Pinned.v)."""
    mod = T._src(_cloner_src())  # noqa: SLF001
    items = [(mod, "Cloner." + m, m.lstrip("_")) for m in PINNED_METHODS]
    for fn_, qual, nm in PINNED_ELSEWHERE:
        items.append((T._src(os.path.join(common.REPO, "src", "onnx_ir", fn_)), qual, nm))  # noqa: SLF001
    text, names = "", []
    for m_, qual, nm in items:
        stmts = statement_list(T.find_function(m_, qual))
        names.append(f"{prefix}_{nm}")
        text += (f"Definition {prefix}_{nm} : list string :=\n  [ "
                 + ";\n    ".join(cstring(x) for x in stmts) + " ].\n\n")
    text += f"Definition {prefix}_all : list (list string) :=\n  [ " + "; ".join(names) + " ].\n\n"
    return text


GEN_HEADER = """(* GENERATED by harness/props/c13.py from /repo/src/onnx_ir/_cloner.py on every run - do not edit. *)
From Coq Require Import String List ZArith NArith PArith Bool.
From IRV Require Import Base.Exn C13.Model C13.PyRemap.
Import ListNotations.
Local Open Scope string_scope.

"""


def generate(ck) -> bool:
    try:
        text = GEN_HEADER + "(* ---- the statements of the Cloner methods, one string per statement *)\n" + gen_text("src")
        text += remap_translation()
    except (T.Unsupported, SyntaxError, OSError, KeyError) as e:
        ck.gen_failed("C13Gen", e)
        return False
    ck.gen("C13Gen", text)
    return True


class RemapTranslator:
    """Fail-closed translation of Cloner._remap_device_configurations (a pure function of the value map and the
    tuple of device configurations) into Gallina: assignments become lets, `xs.append(e)` becomes xs ++ [e], a for
    loop becomes a fold_left over the tuple of the variables its body assigns, `continue` ends the loop body, an
    `if` duplicates the rest of the block into both branches.  Anything outside this fragment raises Unsupported."""

    FIELDS = {("spec", "value"): "sp_value", ("configuration", "sharding_specs"): "dc_specs"}
    LIST_TYPES = {"new_configurations": "list devcfg", "new_specs": "list spec"}
    LIST_NAMES = {"device_configurations"}
    VAR_TYPES = {"new_configurations": "list devcfg", "new_specs": "list spec", "changed": "bool", "spec_changed": "bool",
                 "configuration": "devcfg", "spec": "spec"}

    def __init__(self):
        self.scope = {"device_configurations"}

    def expr(self, e) -> str:
        import ast
        if isinstance(e, ast.Name):
            if e.id not in self.scope:
                raise T.Unsupported(f"name {e.id} not in scope")
            return e.id
        if isinstance(e, ast.Constant):
            if e.value is True:
                return "true"
            if e.value is False:
                return "false"
            raise T.Unsupported(f"constant {e.value!r}")
        if isinstance(e, ast.Attribute) and isinstance(e.value, ast.Name):
            key = (e.value.id, e.attr)
            if key in self.FIELDS and e.value.id in self.scope:
                return f"({self.FIELDS[key]} {e.value.id})"
            raise T.Unsupported(f"attribute {ast.unparse(e)}")
        if isinstance(e, ast.Compare) and len(e.ops) == 1:
            l, op, r = e.left, e.ops[0], e.comparators[0]
            if isinstance(op, ast.Is) and isinstance(r, ast.Constant) and r.value is None:
                return f"(is_none {self.expr(l)})"
            if isinstance(op, (ast.NotIn, ast.In)) and ast.unparse(r) == "self._value_map":
                t = f"(vm_mem vm {self.expr(l)})"
                return f"(negb {t})" if isinstance(op, ast.NotIn) else t
            raise T.Unsupported(f"comparison {ast.unparse(e)}")
        if isinstance(e, ast.Subscript) and ast.unparse(e.value) == "self._value_map":
            return f"(vm_get vm {self.expr(e.slice)})"
        if isinstance(e, ast.BoolOp):
            op = " || " if isinstance(e.op, ast.Or) else " && "
            return "(" + op.join(self.expr(v) for v in e.values) + ")"
        if isinstance(e, ast.UnaryOp) and isinstance(e.op, ast.Not):
            if isinstance(e.operand, ast.Name) and e.operand.id in self.LIST_NAMES:
                return f"(py_not_list {self.expr(e.operand)})"
            raise T.Unsupported(f"not on {ast.unparse(e.operand)}")
        if isinstance(e, ast.IfExp):
            return f"(if {self.expr(e.test)} then {self.expr(e.body)} else {self.expr(e.orelse)})"
        if isinstance(e, ast.Call):
            f = ast.unparse(e.func)
            if f == "tuple" and len(e.args) == 1 and not e.keywords:
                return self.expr(e.args[0])
            if f == "dataclasses.replace" and len(e.args) == 1 and len(e.keywords) == 1 and isinstance(e.args[0], ast.Name):
                kw = e.keywords[0]
                if (e.args[0].id, kw.arg) not in self.FIELDS:
                    raise T.Unsupported(f"replace of {e.args[0].id}.{kw.arg}")
                return f"(upd_{e.args[0].id}_{kw.arg} {self.expr(e.args[0])} {self.expr(kw.value)})"
            raise T.Unsupported(f"call {ast.unparse(e)}")
        raise T.Unsupported(f"expression {ast.unparse(e)}")

    @staticmethod
    def assigned(stmts) -> list[str]:
        import ast
        out: list[str] = []
        for st in stmts:
            for n in ast.walk(st):
                name = None
                if isinstance(n, ast.Assign) and len(n.targets) == 1 and isinstance(n.targets[0], ast.Name):
                    name = n.targets[0].id
                elif isinstance(n, ast.AnnAssign) and isinstance(n.target, ast.Name):
                    name = n.target.id
                elif isinstance(n, ast.Expr) and isinstance(n.value, ast.Call) and isinstance(n.value.func, ast.Attribute) \
                        and n.value.func.attr == "append" and isinstance(n.value.func.value, ast.Name):
                    name = n.value.func.value.id
                if name is not None and name not in out:
                    out.append(name)
        return out

    def block(self, stmts, loop_k, ind) -> str:
        """stmts then (in a loop body) the tuple of loop variables; outside a loop every path must return."""
        import ast
        pad = "  " * ind
        if not stmts:
            if loop_k is None:
                raise T.Unsupported("a path of the function does not return")
            return pad + loop_k
        st, rest = stmts[0], stmts[1:]
        if isinstance(st, ast.Expr) and isinstance(st.value, ast.Constant) and isinstance(st.value.value, str):
            return self.block(rest, loop_k, ind)
        if isinstance(st, ast.Continue):
            if loop_k is None:
                raise T.Unsupported("continue outside a loop")
            return pad + loop_k
        if isinstance(st, ast.Return):
            if loop_k is not None or st.value is None:
                raise T.Unsupported("return inside a loop / bare return")
            return pad + self.expr(st.value)
        if isinstance(st, (ast.Assign, ast.AnnAssign)):
            tgt = st.targets[0] if isinstance(st, ast.Assign) else st.target
            if not isinstance(tgt, ast.Name) or (isinstance(st, ast.Assign) and len(st.targets) != 1):
                raise T.Unsupported(f"assignment {ast.unparse(st)}")
            if isinstance(st.value, ast.List) and not st.value.elts:
                if tgt.id not in self.LIST_TYPES:
                    raise T.Unsupported(f"empty list of unknown element type: {tgt.id}")
                val = f"([] : {self.LIST_TYPES[tgt.id]})"
            else:
                val = self.expr(st.value)
            self.scope.add(tgt.id)
            return pad + f"let {tgt.id} := {val} in\n" + self.block(rest, loop_k, ind)
        if isinstance(st, ast.Expr) and isinstance(st.value, ast.Call) and isinstance(st.value.func, ast.Attribute) \
                and st.value.func.attr == "append" and isinstance(st.value.func.value, ast.Name) and len(st.value.args) == 1:
            x = st.value.func.value.id
            if x not in self.scope:
                raise T.Unsupported(f"append to unknown {x}")
            return pad + f"let {x} := ({x} ++ [{self.expr(st.value.args[0])}]) in\n" + self.block(rest, loop_k, ind)
        if isinstance(st, ast.If):
            scope0 = set(self.scope)
            a = self.block(list(st.body) + list(rest), loop_k, ind + 1)
            self.scope = set(scope0)
            b = self.block(list(st.orelse) + list(rest), loop_k, ind + 1)
            self.scope = scope0
            return pad + f"if {self.expr(st.test)} then\n{a}\n" + pad + f"else\n{b}"
        if isinstance(st, ast.For) and isinstance(st.target, ast.Name) and not st.orelse:
            mvars = [v for v in self.assigned(st.body) if v in self.scope]
            if not mvars:
                raise T.Unsupported("loop without effect")
            tup = mvars[0] if len(mvars) == 1 else "(" + ", ".join(mvars) + ")"
            pat = mvars[0] if len(mvars) == 1 else "'(" + ", ".join(mvars) + ")"
            it = self.expr(st.iter)
            scope0 = set(self.scope)
            self.scope.add(st.target.id)
            body = self.block(list(st.body), tup, ind + 2)
            self.scope = scope0
            for v in mvars + [st.target.id]:
                if v not in self.VAR_TYPES:
                    raise T.Unsupported(f"variable {v} of unknown type")
            sty = " * ".join(self.VAR_TYPES[v] for v in mvars)
            return (pad + f"let {pat} := fold_left (fun (st_ : {sty}) ({st.target.id} : {self.VAR_TYPES[st.target.id]}) => "
                    f"let {pat} := st_ in\n{body})\n"
                    + pad + f"  {it} {tup} in\n" + self.block(rest, loop_k, ind))
        raise T.Unsupported(f"statement {ast.unparse(st)[:60]}")


def remap_translation() -> str:
    mod = T._src(_cloner_src())  # noqa: SLF001
    fn = T.find_function(mod, "Cloner._remap_device_configurations")
    if [a.arg for a in fn.args.args] != ["self", "device_configurations"]:
        raise T.Unsupported("signature of _remap_device_configurations")
    body = RemapTranslator().block(list(fn.body), None, 1)
    return ("Local Close Scope string_scope.\nLocal Open Scope list_scope.\n"
            "(* ---- translated from _cloner.py::Cloner._remap_device_configurations  ast=" + T.ast_digest(fn) + " *)\n"
            "Definition gen_remap (vm : pyvmap) (device_configurations : list devcfg) : list devcfg :=\n" + body + ".\n")


# --------------------------------------------------------------------------- the translation against the method itself

def remap_grid(ck, n: int) -> list[dict]:
    """Cloner._remap_device_configurations on random value maps (entries mapped to a Value, mapped to None, absent) and
    random device configurations, against the translated gen_remap evaluated inside Coq."""
    import onnx_ir as ir
    from onnx_ir import _cloner
    rng = ck.rng
    vals = [ir.Value(name=f"v{i}") for i in range(8)]
    cfgs = [ir.ModelConfiguration(f"c{i}", 2) for i in range(3)]
    rows, meta = [], []
    for _ in range(n):
        vm = {}
        for v in rng.sample(vals[:5], rng.randrange(0, 5)):
            vm[v] = rng.choice([None, vals[5], vals[6], vals[7]])
        dcs = []
        for _c in range(rng.choice([0, 1, 1, 2, 3])):
            specs = tuple(ir.ShardingSpec(value=rng.choice([None] + vals[:5]), device=(rng.randrange(3),))
                          for _s in range(rng.choice([0, 1, 2, 3])))
            dcs.append(ir.NodeDeviceConfiguration(configuration=rng.choice(cfgs), sharding_specs=specs,
                                                  pipeline_stage=rng.choice([None, 0, 2])))
        cl = _cloner.Cloner(attr_map={}, value_map=vm, metadata_props={})
        out = cl._remap_device_configurations(tuple(dcs))  # noqa: SLF001
        vid = {id(v): i + 1 for i, v in enumerate(vals)}

        def dc_term(ds):
            return clist(
                "(Dev " + cN(cfgs.index(d.configuration)) + " " + oZ(d.pipeline_stage) + " "
                + clist(f"(Spc {oP(None if s.value is None else vid[id(s.value)])} {cN(s.device[0])})" for s in d.sharding_specs)
                + ")" for d in ds)
        vmt = clist(f"({vid[id(k)]}, {oP(None if v is None else vid[id(v)])})" for k, v in vm.items())
        rows.append(f"({vmt}, {dc_term(dcs)}, {dc_term(out)})")
        meta.append({"value_map": [(k.name, None if v is None else v.name) for k, v in vm.items()],
                     "configs": [[(None if s.value is None else s.value.name) for s in d.sharding_specs] for d in dcs],
                     "out": [[(None if s.value is None else s.value.name) for s in d.sharding_specs] for d in out]})
    text = ("From Coq Require Import List ZArith NArith PArith Bool.\n"
            "From IRV Require Import Base.Exn C13.Model C13.Iso C13.PyRemap Gen.C13Gen.\nImport ListNotations.\n"
            "Local Open Scope positive_scope.\n"
            "Definition rows : list (pyvmap * list devcfg * list devcfg) :=\n [" + ";\n  ".join(rows) + "].\n"
            "Definition ok (r : pyvmap * list devcfg * list devcfg) : bool :=\n"
            "  let '(vm, dcs, out) := r in if list_eq_dec devcfg_dec (gen_remap vm dcs) out then true else false.\n"
            "Eval vm_compute in (failing ok rows).\n")
    bad = ck.coq_failing(text, "remap_grid")
    ck.count(n)
    ck.hist("function_grid", "_remap_device_configurations", n)
    ck.hist("function_grid", "with a None-mapped value", sum(1 for m in meta if any(v is None for _, v in m["value_map"])))
    return [meta[i] for i in bad]

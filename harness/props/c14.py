"""C14 — passes honour their contract: identity, modified flag, fixpoint, no damage.

Decided by: Coq theorems (coq/theories/C14/Property.v, all "Closed under the global context") about an
executable Gallina model of the code as it exists (C14/Model.v), tied to /repo on every run by a
correspondence check (the real PassBase.__call__/Sequential/PassManager/functionalize, call_onnx_api and five
built-in passes are run on generated inputs; their observations are embedded in case files that Coq evaluates
against the model with vm_compute), plus a property oracle (public API only) run over EVERY built-in pass,
random Sequential/PassManager/functionalize compositions and injected faults at the ONNX boundary.

Theorems (Property.v) — all at full strength since the fix commits 0346f88, fce58f3, 16a8fe8, 733a9c1:
  (a) C14_identity                 result object = input object iff declared in-place (primitive passes with ANY
                                   effect and any scripted misbehaviour, Sequential, PassManager, functionalize)
      C14_sequential_modified      Sequential: members chained, flag = OR of member flags
      C14_manager_modified         PassManager: flag = OR over rounds, <= steps rounds, early-stop shape of the trace
      C14_functionalize_fresh_and_pure
  (c) C14_manager_converges        PassManager + measure hypothesis on a round -> ends with a round reporting False
                                   after <= measure modifying rounds (+ C14_manager_round_of_pass: satisfiable)
      C14_converges_generic        pass E, True => measure drops, invariant established by one application under
                                   which False => unchanged  ->  within measure+1 rounds: False and changes nothing
  (e) C14_analysis_readonly        call_onnx_api leaves graph inputs, initializer ORDER and every value (tensor
                                   object, shape, dtype) unchanged for EVERY outcome of serialization and of the
                                   ONNX call (both are section variables that may raise); C14_analysis_outcome
  (b)+(c) per modelled pass: C14_flag_sound_{clear,dce,toposort,inits_inputs} (modified=False -> state unchanged) and
      C14_converges_{clear,dce,toposort,inits_inputs} (dce: explicit measure nodes+initializers+untrimmed nodes,
      bound measure+1; the others idempotent: second round reports False and changes nothing).
      inits_inputs: AddInitializersToInputsPass touches the main graph only (fix d64e021; Model.add_pass, subgraphs
      proved untouched), RemoveInitializersFromInputsPass every graph (Model.rm_pass)
  deepening round: C14_flag_exact (modified=False IFF state unchanged, for clear / dce / toposort / add / remove
      initializers-inputs: so True implies an observable change); OutputFixPass contract-level model (Model.of_pass: per
      graph-like its inputs, outputs, appended Identity nodes) with C14_outputfix_flag_exact (iff),
      C14_outputfix_fixpoint (one application reaches the fixpoint when fresh values are numbered above all inputs and
      outputs) and C14_outputfix_outputs_owned (every output is an old output or the output of an Identity appended
      to THAT graph); RemoveUnusedOpsetsPass model (Model.uo_pass) with C14_unused_opsets_contract (flag iff
      unchanged; second run reports False).
  second deepening round — the infrastructure model is now the SOURCE: generate() transcribes the bodies of
      PassBase.__call__, Sequential.call, PassManager.call and _FunctionalPassWrapper.call statement by statement into the
      small statement language of C14/PyInfra.v (Gen/C14InfraGen.v, regenerated every run, fail closed: any construct
      outside the language = broken obligation), and C14_passbase_call_translated / C14_sequential_call_translated /
      C14_passmanager_call_translated / C14_functional_call_translated prove that the interpretation of the transcribed
      bodies equals Model.wrap / seq_loop / mgr_loop / the functionalize body — for a Model argument and for a PassResult
      argument with any incoming flag.  A change to those methods therefore breaks a PROOF (seeded r5m1, r2m2: 1/29
      obligations + replay), not only the sampled correspondence.
  history: C14_history_before_fixes — the models of the code BEFORE the fix commits violate (e)/(b) on six
      witnesses and the current models do not (the witnesses are corpus cases replayed on the implementation).
  Print Assumptions: every theorem closed under the global context.  ck.level = "proof".

Tie (correspondence, inside Coq via case files; any disagreement = broken correspondence -> search):
  infra   ScriptPass objects (declared in_place/changes_input, effect on a counter kept in the model, returns
          same/clone/garbage, raising requires/ensures/call) composed with the REAL Sequential, PassManager,
          functionalize; observed (in_place, changes_input, outcome class or (result object, modified), counters
          of every model object incl. clones) == Model.infra_obs.
  api     the REAL _c_api_utils.call_onnx_api on graphs with initializers (small/at-limit/big/None/lazy raising,
          typed or not, also listed as inputs) with succeeding / raising func; observed (raised?, inputs,
          initializer order, per value const identity/shape/dtype) == Model.call_onnx_api.
  clear / dce / topo / io  the REAL passes on generated models, abstraction before/after + flag == model.
  outputfix   OutputFixPass on dup_output_family + 120 generated models: per graph (inputs, outputs with fresh values
          anonymised, appended Identity nodes as (input, position of its output)) + flag == Model.of_pass.
  unused_opsets  RemoveUnusedOpsetsPass(process_functions True/False) on function_family + 100 generated models:
          opset_imports keys and node domains of the main graph and of every function + flag == Model.uo_pass.
  Gen/C14Gen.v: _BIG_TENSOR_SIZE_LIMIT regenerated from the source each run (fail closed).
  Gen/C14InfraGen.v: the four infrastructure method bodies as PyInfra.stmt terms, regenerated each run (fail closed).
Oracle (the property, public accessors only; _c14_impl.oracle_run): each pass up to size+2 rounds: identity rule;
  modified=False => SerializeToString(deterministic=True) byte-equal; a round with False within the bound, and the
  following round changes nothing; I1-I6 link consistency, sorted stays sorted, names needed by serialization kept,
  serializable stays serializable; analysis passes (CheckerPass always, ShapeInferencePass when inference fails
  or raises) leave a deep snapshot (initializer order, const_value identity, inputs, shapes, types) unchanged.
  PassResult arguments: from the second round on every pass is called as r = p(r); the infra stream calls with a Model or
  PassResult(model, True/False) and requires the same outcome (the flag describes this application only).
  Opset imports: a domain that nodes (at any depth) still use keeps the opset import it had before the pass.
  Output ownership: a graph output produced by a node must be produced by a node of that very graph (a pass that
  inserts a node for an output puts it into the graph that owns the output); run on dup_output_family().
  No dangling calls: a call that resolved to a model-local function before a pass still resolves after it.
  Pass-instance reuse: one pass object / PassManager over a sequence of different models must honour the contract on
  each model and behave (per round: raised / modified / serialization equal / kinds of change) like a fresh instance.
  RemoveUnusedNodesPass additionally runs on the exhaustive optional-output family (optional_output_specs, 870 specs).
  Faults: onnx.checker.check_model / onnx.shape_inference.infer_shapes rebound to raise; a LazyTensor whose
  evaluation raises during serialization.  Scripted infra oracle: identity rule, PassManager convergence
  (C14_manager_converges) on the real PassManager, and "a PassManager over well-behaved passes (some functional,
  first step possibly a no-op) does not raise".  A PassError of the identity rule raised by a built-in pass or a
  composition of built-in passes is an identity failure (PassManager(steps=0) is never generated).

Readings of ambiguous English (weaker reading taken):
  * "size of the model" = nodes + node inputs/outputs + graph inputs/outputs + initializers + opset imports +
    functions + 1 (generous); the bound is size+2 rounds.
  * "changes nothing" after the first False round = the next round reports False and serializes byte-equal.
  * convergence is required of every built-in pass on its own (and of functionalize(P)); an arbitrary
    Sequential/PassManager composition may oscillate (Remove- then AddInitializersToInputs) - not required.
  * "names needed for serialization" = non-empty names of graph i/o and node inputs stay non-empty, and a model
    that serialized before still serializes; uniqueness of names is C15's business.
  * link consistency: I1 both directions, I2, I3, I4 flags, I5, I6 + no node input/graph output that no graph in
    scope defines.  A user inside the subgraph of a node that DCE removed keeps its use entry: consistent with
    I1, not reported.
  * a transformation pass that raises (invalid model, cyclic function, lazy tensor) is outside the contract
    (C06); only analysis passes must leave the model unchanged when they raise.
Modelled, not verified: Graph.sort (C12; abstract `sort`), traversal order of RecursiveGraphIterator (the clear model
  is over the list of visited graph-likes; the toposort flag model uses "recursive sequences equal iff every node
  list equal"), ONNX schema lookups (optional-output trimming of DCE is outside the flat model; oracle only),
  Model.clone (C13), serialization itself (C02/C03; here a byte string), Sequential([]) (ValueError at construction;
  never generated).  The remaining built-in passes (CSE, dedup, identity elimination, inliner, lifting, NameFix,
  default attributes, unused functions, shape-inference merge) are covered by the oracle only (C05 models their effect
  on the model, not their `modified` flag).  OutputFix value renames (`_alias_i`, `_orig`) are not modelled.

Findings (all repaired; known_findings.d/C14.json status "fixed"; witnesses in corpus/C14 run as ordinary cases;
  proposed_fixes/C14-*.diff are the patches that were committed):
  0346f88 call_onnx_api: initializer order changed (i0,i1,i2 -> i1,i2,i0), shape/dtype filled in, model damaged
          when serialization raised (serialize_model was outside the try)
  fce58f3 ClearMetadataAndDocStringPass / 16a8fe8 RemoveUnusedNodesPass / 733a9c1 TopologicalSortPass:
          modified=False although the serialized model changed
  The attribution machinery for known findings (KNOWN_DIFFS / attribute / replay_known) stays in place: with no
  finding of status "known" every oracle failure is a VIOLATION.

Mutants tried (scratch worktree /tmp/wt-C14, VERIF_REPO): see MUTANTS at the end of this file.
"""

from __future__ import annotations

import json
import os
import time

import translate as T
from harness import common
from harness.common import REPO, cZ, cbool, clist, copt, cpos
from harness.props import _c14_impl as I

SRC_API = os.path.join(REPO, "src", "onnx_ir", "passes", "common", "_c_api_utils.py")

CASE_HEADER = """From Coq Require Import ZArith List Bool.
From IRV Require Import Base.Exn Gen.C14Gen C14.Model.
Import ListNotations.
"""


# =========================================================================== fail-closed transcription of the
# bodies of PassBase.__call__ / Sequential.call / PassManager.call / _FunctionalPassWrapper.call into C14.PyInfra.stmt

SRC_INFRA = os.path.join(REPO, "src", "onnx_ir", "passes", "_pass_infra.py")
_XCLS = {"PreconditionError": "XPre", "PostconditionError": "XPost", "PassError": "XPass", "TypeError": "XType"}


class _Tr:
    """Python ast -> C14.PyInfra.stmt term.  Everything outside the small language raises T.Unsupported."""

    def __init__(self, params: list[str]):
        self.vars = {p: i for i, p in enumerate(params)}

    def var(self, name: str, define: bool = False) -> int:
        if name not in self.vars:
            if not define:
                raise T.Unsupported(f"use of unknown variable {name}")
            self.vars[name] = len(self.vars)
        return self.vars[name]

    def expr(self, e) -> str:
        import ast
        if isinstance(e, ast.Name):
            return f"(EVar {self.var(e.id)})"
        if isinstance(e, ast.Constant) and isinstance(e.value, bool):
            return f"(EConst {cbool(e.value)})"
        if isinstance(e, ast.Attribute):
            if isinstance(e.value, ast.Name) and e.value.id == "self":
                if e.attr == "in_place":
                    return "ESelfInPlace"
                if e.attr == "early_stop":
                    return "ESelfEarlyStop"
                raise T.Unsupported(f"self.{e.attr}")
            if e.attr == "model":
                return f"(EModel {self.expr(e.value)})"
            if e.attr == "modified":
                return f"(EModified {self.expr(e.value)})"
            raise T.Unsupported(f"attribute .{e.attr}")
        if isinstance(e, ast.UnaryOp) and isinstance(e.op, ast.Not):
            return f"(ENot {self.expr(e.operand)})"
        if isinstance(e, ast.BoolOp):
            c = "EAnd" if isinstance(e.op, ast.And) else "EOr"
            out = self.expr(e.values[-1])
            for v in reversed(e.values[:-1]):
                out = f"({c} {self.expr(v)} {out})"
            return out
        if isinstance(e, ast.Compare) and len(e.ops) == 1 and isinstance(e.ops[0], (ast.Is, ast.IsNot)):
            c = "EIs" if isinstance(e.ops[0], ast.Is) else "EIsNot"
            return f"({c} {self.expr(e.left)} {self.expr(e.comparators[0])})"
        if isinstance(e, ast.Call) and isinstance(e.func, ast.Name) and not e.keywords:
            if e.func.id == "isinstance" and len(e.args) == 2 and isinstance(e.args[1], ast.Name) and e.args[1].id == "PassResult":
                return f"(EIsResult {self.expr(e.args[0])})"
            if e.func.id == "PassResult" and len(e.args) == 2:
                return f"(EResult {self.expr(e.args[0])} {self.expr(e.args[1])})"
        raise T.Unsupported(f"expression {ast.dump(e)[:80]}")

    def hook(self, call):
        """(hook term, argument expr) when `call` is one of the calls the language knows, else None."""
        import ast
        if not isinstance(call, ast.Call) or call.keywords or len(call.args) != 1:
            return None
        f, a = call.func, call.args[0]
        if isinstance(f, ast.Attribute) and isinstance(f.value, ast.Name) and f.value.id == "self":
            if f.attr in ("requires", "call", "ensures"):
                return {"requires": "HRequires", "call": "HCall", "ensures": "HEnsures"}[f.attr], self.expr(a)
            if f.attr == "_inner_pass" and isinstance(a, ast.Call) and isinstance(a.func, ast.Attribute) \
                    and a.func.attr == "clone" and not a.args and not a.keywords:
                return "HInnerClone", self.expr(a.func.value)
            return None
        if isinstance(f, ast.Attribute) and f.attr == "call" and isinstance(f.value, ast.Call) \
                and isinstance(f.value.func, ast.Name) and f.value.func.id == "super" and not f.value.args:
            return "HSuper", self.expr(a)
        if isinstance(f, ast.Name) and f.id in self.vars:
            return f"(HPass {self.vars[f.id]})", self.expr(a)
        return None

    def raise_(self, st, in_handler: bool) -> str:
        import ast
        if st.exc is None:
            if not in_handler:
                raise T.Unsupported("bare raise outside a handler")
            return "SReraise"
        if isinstance(st.exc, ast.Call) and isinstance(st.exc.func, ast.Name) and st.exc.func.id in _XCLS:
            return f"(SRaise {_XCLS[st.exc.func.id]})"
        raise T.Unsupported(f"raise {ast.dump(st.exc)[:60]}")

    def block(self, stmts, in_handler: bool = False) -> str:
        import ast
        out = []
        for st in stmts:
            if isinstance(st, ast.Expr) and isinstance(st.value, ast.Constant) and isinstance(st.value.value, str):
                continue                                            # docstring
            if isinstance(st, ast.Expr) and isinstance(st.value, ast.Call) and isinstance(st.value.func, ast.Attribute) \
                    and isinstance(st.value.func.value, ast.Name) and st.value.func.value.id == "logger":
                continue                                            # pure logging
            if isinstance(st, ast.Expr):
                h = self.hook(st.value)
                if h is None:
                    raise T.Unsupported(f"expression statement {ast.dump(st.value)[:80]}")
                out.append(f"(SHook None {h[0]} {h[1]})")
            elif isinstance(st, ast.Assign) and len(st.targets) == 1 and isinstance(st.targets[0], ast.Name):
                if in_handler and isinstance(st.value, ast.ListComp):
                    continue                                        # builds the text of the error message only
                h = self.hook(st.value)
                x = self.var(st.targets[0].id, define=True)
                out.append(f"(SHook (Some {x}) {h[0]} {h[1]})" if h else f"(SAssign {x} {self.expr(st.value)})")
            elif isinstance(st, ast.If):
                out.append(f"(SIf {self.expr(st.test)} {self.block(st.body, in_handler)} {self.block(st.orelse, in_handler)})")
            elif isinstance(st, ast.Try) and not st.orelse and not st.finalbody:
                hs = "SNoHandler"
                for h in reversed(st.handlers):
                    if not isinstance(h.type, ast.Name) or h.type.id not in ("PreconditionError", "PostconditionError", "Exception"):
                        raise T.Unsupported("exception handler type")
                    pat = "None" if h.type.id == "Exception" else f"(Some {_XCLS[h.type.id]})"
                    hs = f"(SHandler {pat} {self.block(h.body, True)} {hs})"
                out.append(f"(STry {self.block(st.body, in_handler)} {hs})")
            elif isinstance(st, ast.Raise):
                out.append(self.raise_(st, in_handler))
            elif isinstance(st, ast.Return) and st.value is not None:
                h = self.hook(st.value)
                if h:
                    x = self.var("$ret", define=True)
                    out.append(f"(SHook (Some {x}) {h[0]} {h[1]})")
                    out.append(f"(SReturn (EVar {x}))")
                else:
                    out.append(f"(SReturn {self.expr(st.value)})")
            elif isinstance(st, ast.Break):
                out.append("SBreak")
            elif isinstance(st, ast.For) and not st.orelse:
                it = st.iter
                if isinstance(st.target, ast.Tuple) and len(st.target.elts) == 2 and isinstance(it, ast.Call) \
                        and isinstance(it.func, ast.Name) and it.func.id == "enumerate" and len(it.args) == 1 \
                        and ast.dump(it.args[0]) == ast.dump(ast.parse("self.passes", mode="eval").body):
                    i = self.var(st.target.elts[0].id, define=True)
                    x = self.var(st.target.elts[1].id, define=True)
                    out.append(f"(SForPasses {i} {x} {self.block(st.body, in_handler)})")
                elif isinstance(st.target, ast.Name) and isinstance(it, ast.Call) and isinstance(it.func, ast.Name) \
                        and it.func.id == "range" and len(it.args) == 1 \
                        and ast.dump(it.args[0]) == ast.dump(ast.parse("self.steps", mode="eval").body):
                    x = self.var(st.target.id, define=True)
                    out.append(f"(SForSteps {x} {self.block(st.body, in_handler)})")
                else:
                    raise T.Unsupported("for loop shape")
            else:
                raise T.Unsupported(f"statement {type(st).__name__} at line {st.lineno}")
        if not out:
            return "SSkip"
        term = out[-1]
        for t in reversed(out[:-1]):
            term = f"(SSeq {t} {term})"
        return term


def translate_infra() -> str:
    import ast
    with open(SRC_INFRA, encoding="utf-8") as f:
        mod = ast.parse(f.read())
    classes = {n.name: n for n in mod.body if isinstance(n, ast.ClassDef)}
    text = ("(* GENERATED by harness/props/c14.py from passes/_pass_infra.py on every run - do not edit. *)\n"
            "From Coq Require Import List Bool Arith.\nFrom IRV Require Import Base.Exn Gen.C14Gen C14.Model C14.PyInfra.\n"
            "Import ListNotations.\nLocal Open Scope nat_scope.\n\n")
    for cls, meth, name in (("PassBase", "__call__", "passbase_call_body"), ("Sequential", "call", "sequential_call_body"),
                            ("PassManager", "call", "passmanager_call_body"),
                            ("_FunctionalPassWrapper", "call", "functional_call_body")):
        fn = next((n for n in classes[cls].body if isinstance(n, ast.FunctionDef) and n.name == meth), None)
        if fn is None:
            raise T.Unsupported(f"{cls}.{meth} not found")
        a = fn.args
        if a.vararg or a.kwarg or a.kwonlyargs or a.defaults or len(a.posonlyargs) + len(a.args) != 2:
            raise T.Unsupported(f"{cls}.{meth}: signature")
        params = [x.arg for x in (a.posonlyargs + a.args)][1:]
        tr = _Tr(params)
        body = tr.block(fn.body)
        text += (f"(* {cls}.{meth}  variables: {', '.join(f'{v}={k}' for k, v in tr.vars.items())} *)\n"
                 f"Definition {name} : stmt :=\n  {body}.\n\n")
    return text


def generate(ck) -> bool:
    try:
        text = T.HEADER + T.translate_int_constant(SRC_API, "_BIG_TENSOR_SIZE_LIMIT")[0]
    except (T.Unsupported, SyntaxError, OSError, KeyError, ValueError) as e:
        ck.gen_failed("C14Gen", e)
        return False
    ck.gen("C14Gen", text)
    try:
        ck.gen("C14InfraGen", translate_infra())
    except (T.Unsupported, SyntaxError, OSError, KeyError, ValueError, StopIteration) as e:
        ck.gen_failed("C14InfraGen", e)
        return False
    return True


# =========================================================================== infra correspondence

EFFS = ["dec", "declie", "set", "inc", "nop"]


def gen_prim(rng) -> dict:
    ip = rng.random() < 0.6
    r = rng.random()
    if r < 0.8:
        ret = "same" if ip else "clone"
    elif r < 0.93:
        ret = "clone" if ip else "same"      # misdeclared
    else:
        ret = "garbage"
    e = rng.choice(EFFS)
    eff = {"k": e}
    if e in ("dec", "declie"):
        eff["n"] = rng.choice([1, 1, 2, 3])
    elif e == "set":
        eff["n"] = rng.choice([0, 1, 4])
    elif e == "nop":
        eff["f"] = rng.random() < 0.3
    return {"prim": True, "ip": ip, "ch": rng.random() < 0.5 if not ip else rng.random() < 0.8, "rq": rng.random() < 0.05,
            "en": rng.random() < 0.05, "cr": rng.random() < 0.05, "ret": ret, "eff": eff,
            "own": rng.random() < 0.5}


def gen_converging_mgr(rng) -> dict:
    """PassManager over honest, well-behaved in-place passes whose True flag decreases the counter."""
    ps = []
    for _ in range(rng.randrange(1, 4)):
        e = {"k": "dec", "n": rng.choice([1, 2, 3])} if rng.random() < 0.7 else {"k": "nop", "f": False}
        ps.append({"prim": True, "ip": True, "ch": True, "rq": False, "en": False, "cr": False, "ret": "same", "eff": e, "own": True})
    if all(p["eff"]["k"] != "dec" for p in ps):
        ps[0]["eff"] = {"k": "dec", "n": 1}
    return {"mgr": ps, "steps": rng.choice([10, 12, 20]), "early": True, "converging": True}


def gen_functional_mgr(rng) -> dict:
    """PassManager(early_stop) over honest, well-behaved passes at least one of which is functional, often started
    on a state where the first step is a no-op (re-applying a manager to its converged result)."""
    def wb(functional: bool, e: dict) -> dict:
        return {"prim": True, "ip": not functional, "ch": not functional, "rq": False, "en": False, "cr": False,
                "ret": "clone" if functional else "same", "eff": e, "own": True}
    effs = [{"k": "dec", "n": 1}, {"k": "nop", "f": False}, {"k": "set", "n": 0}]
    ps = []
    for i in range(rng.randrange(1, 4)):
        prim = wb(rng.random() < 0.6, rng.choice(effs))
        ps.append({"fun": wb(False, rng.choice(effs))} if rng.random() < 0.3 else prim)
    if all(not (p.get("fun") or not p.get("ip", True)) for p in ps):
        ps[0] = wb(True, rng.choice(effs))
    t = {"mgr": ps, "steps": rng.choice([1, 2, 3, 6]), "early": True, "valid_use": True}
    return {"mgr": [t, wb(rng.random() < 0.5, {"k": "nop", "f": False})], "steps": 2, "early": True, "valid_use": True} \
        if rng.random() < 0.25 else t


def gen_pterm(rng, depth: int) -> dict:
    c = rng.random()
    if depth == 0 or c < 0.35:
        return gen_prim(rng)
    if c < 0.55:
        return {"seq": [gen_pterm(rng, depth - 1) for _ in range(rng.randrange(1, 4))]}
    if c < 0.85:
        return {"mgr": [gen_pterm(rng, depth - 1) for _ in range(rng.randrange(1, 4))],
                "steps": rng.choice([0, 1, 2, 3, 5, 8]), "early": rng.random() < 0.6}
    return {"fun": gen_pterm(rng, depth - 1)}


def coq_pterm(t: dict) -> str:
    if t.get("prim"):
        e = t["eff"]
        ce = {"dec": lambda: f"(EDec {cZ(e['n'])})", "declie": lambda: f"(EDecLie {cZ(e['n'])})",
              "set": lambda: f"(ESet {cZ(e['n'])})", "inc": lambda: "EInc", "nop": lambda: f"(ENop {cbool(e['f'])})"}[e["k"]]()
        rk = {"same": "RSame", "clone": "RClone", "garbage": "RGarbage"}[t["ret"]]
        return (f"(Prim (sprim {cbool(t['ip'])} {cbool(t['ch'])} {cbool(t['rq'])} {cbool(t['en'])} "
                f"{cbool(t['cr'])} {rk} {ce}))")
    if "seq" in t:
        return f"(Seq {clist(coq_pterm(x) for x in t['seq'])})"
    if "mgr" in t:
        return f"(Mgr {clist(coq_pterm(x) for x in t['mgr'])} {t['steps']}%nat {cbool(t['early'])})"
    return f"(Fun {coq_pterm(t['fun'])})"


def _counter(model) -> int:
    return int(model.graph.metadata_props["n"])


def make_script_pass(t: dict):
    import onnx_ir as ir
    import onnx_ir.passes as passes

    if "seq" in t:
        return passes.Sequential(*[make_script_pass(x) for x in t["seq"]])
    if "mgr" in t:
        return passes.PassManager([make_script_pass(x) for x in t["mgr"]], steps=t["steps"], early_stop=t["early"])
    if "fun" in t:
        return passes.functionalize(make_script_pass(t["fun"]))

    class ScriptPass(passes.PassBase):
        @property
        def in_place(self):
            return t["ip"]

        @property
        def changes_input(self):
            return t["ch"]

        def requires(self, model):
            if t["rq"]:
                raise passes.PreconditionError("scripted") if t["own"] else KeyError("scripted")

        def ensures(self, model):
            if t["en"]:
                raise passes.PostconditionError("scripted") if t["own"] else KeyError("scripted")

        def call(self, model):
            if t["cr"]:
                raise ValueError("scripted")
            if t["ret"] == "garbage":
                return (model, False)
            target = model if t["ret"] == "same" else model.clone()
            c = _counter(target)
            e = t["eff"]
            if e["k"] == "dec":
                c2 = max(0, c - e["n"]); flag = c2 != c
            elif e["k"] == "declie":
                c2 = max(0, c - e["n"]); flag = False
            elif e["k"] == "set":
                c2 = e["n"]; flag = c != c2
            elif e["k"] == "inc":
                c2 = c + 1; flag = True
            else:
                c2 = c; flag = e["f"]
            target.graph.metadata_props["n"] = str(c2)
            return ir.passes.PassResult(target, flag)
    return ScriptPass()


_XN = {"PreconditionError": "XPre", "PostconditionError": "XPost", "PassError": "XPass", "TypeError": "XType",
       "ValueError": "XUser"}


def run_infra_case(t: dict, c0: int, incoming=None) -> dict:
    import onnx_ir as ir
    x = ir.Value(name="x", type=ir.TensorType(ir.DataType.FLOAT), shape=ir.Shape([1]))
    n = ir.Node("", "Relu", [x], num_outputs=1, name="r")
    g = ir.Graph([x], list(n.outputs), nodes=[n], name="g", opset_imports={"": 20}, metadata_props={"n": str(c0)})
    m0 = ir.Model(g, ir_version=10)
    registry = [m0]
    orig_clone = ir.Model.clone

    def clone(self, *a, **k):
        r = orig_clone(self, *a, **k)
        registry.append(r)
        return r
    ir.Model.clone = clone
    try:
        p = make_script_pass(t)
        try:
            res = p(m0 if incoming is None else ir.passes.PassResult(m0, incoming))
            idx = next(i for i, m in enumerate(registry) if m is res.model)
            outcome = ("ok", idx, bool(res.modified))
        except Exception as e:  # noqa: BLE001
            outcome = ("raise", _XN.get(type(e).__name__, "OTHER:" + type(e).__name__))
        return {"ip": bool(p.in_place), "ch": bool(p.changes_input), "outcome": outcome,
                "counters": [_counter(m) for m in registry]}
    finally:
        ir.Model.clone = orig_clone


def infra_case_term(t: dict, c0: int, obs: dict) -> str:
    o = obs["outcome"]
    r = f"(XOk ({o[1]}%nat, {cbool(o[2])}))" if o[0] == "ok" else f"(XRaise {o[1]})"
    return (f"({coq_pterm(t)}, {cZ(c0)}, ({cbool(obs['ip'])}, {cbool(obs['ch'])}, {r}, "
            f"{clist(cZ(c) for c in obs['counters'])}))")


def infra_oracle(t: dict, obs: dict) -> list[str]:
    """The identity rule on the observation (property side, independent of the model)."""
    o = obs["outcome"]
    bad = []
    if t.get("incoming") is not None and "plain" in obs and obs["plain"] != o:
        bad.append(f"called with PassResult(modified={t['incoming']}) the pass returned {o}, with the Model itself {obs['plain']}: "
                   "the result must describe this application only")
    if "fun" in t and obs["counters"] and obs["counters"][0] != t.get("c0", obs["counters"][0]):
        bad.append(f"functionalize(...) changed the state of its INPUT model: counter {t.get('c0')} -> {obs['counters'][0]}")
    if t.get("valid_use") and o[0] != "ok":
        # every member is well behaved and honest: the composition must not raise (in particular not trip the
        # identity rule of PassBase.__call__ on itself)
        bad.append(f"a PassManager over well-behaved passes raised {o[1]}")
    if t.get("converging"):
        # C14_manager_converges on the implementation: measure = counter (< steps), every True flag decreases it
        if o[0] != "ok" or obs["counters"][0] != 0:
            bad.append("PassManager(early_stop) over measure-decreasing passes stopped before the fixpoint")
    if o[0] == "ok":
        if obs["ip"] and o[1] != 0:
            bad.append("in-place pass term returned a different object")
        if not obs["ip"] and o[1] == 0:
            bad.append("functional pass term returned its input object")
    return bad


# =========================================================================== call_onnx_api correspondence

def gen_api_case(rng) -> dict:
    n = rng.randrange(0, 6)
    inits = []
    for i in range(n):
        kind = rng.choice(["small", "small", "limit", "big", "big", "none", "lazyraise", "biglazyraise", "lazy"])
        inits.append({"kind": kind, "typed": rng.random() < 0.6, "as_input": rng.random() < 0.25})
    return {"inits": inits, "extra_inputs": rng.randrange(0, 3), "func_raises": rng.random() < 0.35,
            "inputs_first": rng.random() < 0.5}


_NELEM = {"small": 2, "limit": 250, "big": 300, "lazy": 3, "lazyraise": 2, "biglazyraise": 251}


def run_api_case(case: dict) -> dict:
    import numpy as np
    import onnx_ir as ir
    from onnx_ir.passes.common import _c_api_utils
    F = ir.DataType.FLOAT
    vals, tensors = [], {}
    inputs = []
    xs = [ir.Value(name=f"x{i}", type=ir.TensorType(F), shape=ir.Shape([1])) for i in range(case["extra_inputs"])]
    init_vals = []
    for i, it in enumerate(case["inits"]):
        name = f"w{i}"
        kind = it["kind"]
        if kind == "none":
            t, ne = None, 5
        else:
            ne = _NELEM[kind]
            if kind in ("lazyraise", "biglazyraise"):
                def boom():
                    raise RuntimeError("injected: lazy tensor evaluation failed")
                t = ir.LazyTensor(boom, dtype=F, shape=ir.Shape([ne]), name=name)
            elif kind == "lazy":
                t = ir.LazyTensor(lambda a=np.zeros(ne, dtype=np.float32), nm=name: ir.Tensor(a, name=nm), dtype=F,
                                  shape=ir.Shape([ne]), name=name)
            else:
                t = ir.Tensor(np.zeros(ne, dtype=np.float32), name=name)
        v = ir.Value(name=name, const_value=t)
        if it["typed"]:
            v.type = ir.TensorType(F)
            v.shape = ir.Shape([ne])
        init_vals.append(v)
        if it["as_input"]:
            inputs.append(v)
    inputs = (xs + inputs) if case["inputs_first"] else (inputs + xs)
    nodes = []
    src = xs[0] if xs else (init_vals[0] if init_vals else None)
    outs = []
    if src is not None:
        nd = ir.Node("", "Relu", [src], num_outputs=1, name="r")
        nd.outputs[0].name = "y"
        nd.outputs[0].type = ir.TensorType(F)
        nd.outputs[0].shape = ir.Shape([1])
        nodes, outs = [nd], [nd.outputs[0]]
    g = ir.Graph(inputs, outs, nodes=nodes, initializers=init_vals, name="g", opset_imports={"": 20})
    model = ir.Model(g, ir_version=10)
    universe = xs + init_vals           # vid = index + 1
    vid = {id(v): i + 1 for i, v in enumerate(universe)}
    tid = {}
    for i, v in enumerate(init_vals):
        if v.const_value is not None:
            tid[id(v.const_value)] = 100 + i

    def vobs(v):
        return (None if v.const_value is None else tid.get(id(v.const_value), -1),
                None if v.shape is None else (v.shape[0] if len(v.shape) == 1 and isinstance(v.shape[0], int) else -1),
                None if v.dtype is None else int(v.dtype))
    before = {"inputs": [vid[id(v)] for v in g.inputs], "inits": [vid[id(v)] for v in g.initializers.values()],
              "vals": [vobs(v) for v in universe],
              "nbytes": [None if v.const_value is None else int(v.const_value.nbytes) for v in universe],
              "raises": [case["inits"][i - len(xs)]["kind"] in ("lazyraise", "biglazyraise") if i >= len(xs) else False
                         for i in range(len(universe))]}

    def func(proto):
        if case["func_raises"]:
            raise RuntimeError("injected: ONNX C API call failed")
        return None
    raised = None
    try:
        _c_api_utils.call_onnx_api(func, model)
    except Exception as e:  # noqa: BLE001
        raised = type(e).__name__
    foreign = [v for v in g.inputs if id(v) not in vid] + [v for v in g.initializers.values() if id(v) not in vid]
    after = {"inputs": [vid.get(id(v), 999) for v in g.inputs], "inits": [vid.get(id(v), 999) for v in g.initializers.values()],
             "vals": [vobs(v) for v in universe], "raised": raised, "foreign": len(foreign)}
    return {"before": before, "after": after}


def api_case_term(obs: dict) -> str:
    b, a = obs["before"], obs["after"]

    def cval(i):
        c, s, d = b["vals"][i]
        if c is None:
            t = "None"
        else:
            # t_shape / t_dtype of the tensor: FLOAT (=1) and its element count
            t = (f"(Some {{| t_id := {cZ(c)}; t_nbytes := {cZ(b['nbytes'][i])}; t_shape := {cZ(b['nbytes'][i] // 4)}; "
                 f"t_dtype := 1%Z; t_raises := {cbool(b['raises'][i])} |}})")
        return f"({cpos(i + 1)}, {{| v_const := {t}; v_shape := {copt(s, cZ)}; v_dtype := {copt(d, cZ)} |}})"
    tbl = clist(cval(i) for i in range(len(b["vals"])))
    ovals = clist(f"({copt(c, cZ)}, {copt(s, cZ)}, {copt(d, cZ)})" for c, s, d in a["vals"])
    return (f"({clist(cpos(v) for v in b['inputs'])}, {clist(cpos(v) for v in b['inits'])}, {tbl}, "
            f"{cbool(obs['func_raises'])}, ({cbool(a['raised'] is not None)}, {clist(cpos(v) for v in a['inputs'])}, "
            f"{clist(cpos(v) for v in a['inits'])}, {ovals}))")


def api_oracle(obs: dict) -> list[str]:
    """call_onnx_api docstring: "The input model is left unchanged no matter the call succeeds or not"."""
    b, a = obs["before"], obs["after"]
    d = []
    if a["inputs"] != b["inputs"]:
        d.append("inputs")
    if a["inits"] != b["inits"]:
        d.append("initializer-order" if sorted(a["inits"]) == sorted(b["inits"]) else "initializers")
    for x, y in zip(b["vals"], a["vals"]):
        if x[0] != y[0]:
            d.append("const_value")
        if x[1] != y[1] or x[2] != y[2]:
            d.append("shape/dtype")
    return sorted(set(d))


# =========================================================================== pass abstractions

def abs_clear(model):
    out = []
    for _, g in I.graphs_of(model):
        out.append((bool(g.metadata_props), bool(g.doc_string), [(bool(n.metadata_props), bool(n.doc_string)) for n in g]))
    return out


def c_cgraphs(m) -> str:
    return clist(f"{{| cg_meta := {cbool(a)}; cg_doc := {cbool(b)}; cg_nodes := "
                 f"{clist(f'({cbool(x)}, {cbool(y)})' for x, y in ns)} |}}" for a, b, ns in m)


def gen_dce_spec(rng) -> dict:
    """Flat graphs with ops that have no optional outputs (the part of the pass that Model.dce describes)."""
    g = {"name": "g", "inputs": [], "inits": [], "nodes": [], "outputs": [], "opsets": {"": 20} if rng.random() < 0.7 else {"custom": 1}}
    avail = []
    for i in range(rng.randrange(1, 3)):
        g["inputs"].append(f"x{i}")
        avail.append(f"x{i}")
    for i in range(rng.randrange(0, 4)):
        g["inits"].append({"h": f"w{i}", "kind": "small"})
        if rng.random() < 0.2:
            g["inputs"].append(f"w{i}")
        if rng.random() < 0.6:
            avail.append(f"w{i}")
    produced = []
    for i in range(rng.randrange(1, 8)):
        c = rng.random()
        ns = {"name": f"n{i}", "outs": [f"v{i}"]}
        if c < 0.35:
            ns.update(op="Relu", ins=[rng.choice(avail)])
        elif c < 0.6:
            ns.update(op="Add", ins=[rng.choice(avail), rng.choice(avail)])
        elif c < 0.8:
            ns.update(op="Clip", ins=[rng.choice(avail)] + rng.choice([[None, None], [None], [], [rng.choice(avail), None],
                                                                          [None, rng.choice(avail)]]))
        else:
            ns.update(op="CustomOp", domain="custom", ins=[rng.choice(avail)] + rng.choice([[], [None], [None, None]]),
                      outs=[f"v{i}", f"v{i}b"] if rng.random() < 0.4 else [f"v{i}"])
        g["nodes"].append(ns)
        produced += ns["outs"]
        avail += ns["outs"]
    for _ in range(rng.randrange(1, 3)):
        g["outputs"].append(rng.choice(produced + g["inputs"][:1] + [i["h"] for i in g["inits"]][:1]))
    if rng.random() < 0.45:                    # nothing dead: every value that nobody reads is an output
        read = {h for n in g["nodes"] for h in n["ins"] if h}
        g["outputs"] += [h for h in produced if h not in read and h not in g["outputs"]]
        g["inits"] = [i for i in g["inits"] if i["h"] in read or i["h"] in g["inputs"] or i["h"] in g["outputs"]]
    for _ in range(rng.randrange(0, 3)):       # disorder
        if len(g["nodes"]) >= 2:
            i, j = rng.sample(range(len(g["nodes"])), 2)
            g["nodes"][i], g["nodes"][j] = g["nodes"][j], g["nodes"][i]
    return {"graph": g, "functions": [], "names": {}}


def abs_dce(model, reg) -> tuple:
    g = model.graph
    nodes = [(reg(n) + 1, [None if v is None else reg(v) + 1 for v in n.inputs], [reg(v) + 1 for v in n.outputs]) for n in g]
    return (nodes, [reg(v) + 1 for v in g.outputs], [reg(v) + 1 for v in g.inputs],
            [reg(v) + 1 for v in g.initializers.values()])


def c_dgraph(a) -> str:
    nodes, outs, ins, inits = a
    cn = clist(f"{{| d_id := {cpos(i)}; d_ins := {clist(copt(x, cpos) for x in xs)}; d_outs := {clist(cpos(o) for o in os_)} |}}"
               for i, xs, os_ in nodes)
    return (f"{{| d_nodes := {cn}; d_outputs := {clist(cpos(v) for v in outs)}; d_inputs := {clist(cpos(v) for v in ins)}; "
            f"d_inits := {clist(cpos(v) for v in inits)} |}}")


def abs_io(model, reg) -> list:
    assert next(iter(model.graphs())) is model.graph      # Model.add_pass: the head of the list is the main graph
    return [([reg(v) + 1 for v in g.inputs], [reg(v) + 1 for v in g.initializers.values()]) for g in model.graphs()]


def c_io(m) -> str:
    return clist(f"({clist(cpos(v) for v in a)}, {clist(cpos(v) for v in b)})" for a, b in m)


# =========================================================================== known findings

KNOWN_DIFFS = {
    # key -> (member passes that make the site reachable, diff kinds it explains, predicate on the diff label)
    "api-initializer-order": ({"Checker", "CheckerFull", "ShapeInference", "ShapeInferenceLoose"}, {"g0:initializer-order"}),
    "api-shape-dtype-filled": ({"Checker", "CheckerFull", "ShapeInference", "ShapeInferenceLoose"},
                               {"g0:value:shape@init", "g0:value:type@init"}),
    "api-serialize-outside-try": ({"Checker", "CheckerFull", "ShapeInference", "ShapeInferenceLoose"},
                                  {"g0:inputs", "g0:initializers", "g0:value:const_value@init", "g0:value:is_initializer@init",
                                   "g0:value:is_input@init", "g0:value:shape@init", "g0:value:type@init", "g0:initializer-order"}),
    "dce-trim-uncounted": ({"RemoveUnusedNodes"}, {"node:inputs-trimmed", "node:outputs-trimmed", "value:name"}),
    "clear-docstring-uncounted": ({"ClearMetadataAndDocString"}, {"node:doc"}),
    "toposort-subgraph-uncounted": ({"TopologicalSort"}, {"node-order"}),
}
TOP_LABEL = __import__("re").compile(r"^(g0|f\d+)$")


def attribute(names: list[str], failure: dict, spec: dict) -> set[str] | None:
    """Map one oracle failure to the set of known-finding keys that explain ALL of it, else None."""
    if failure["tag"] not in ("flag", "readonly", "readonly-on-raise", "fixpoint") or not failure["diff"]:
        return None
    has_bad_lazy = '"lazyraise"' in json.dumps(spec)
    keys = set()
    for d in failure["diff"]:
        label, _, kind = d.partition(":")
        hit = None
        for key, (members, kinds) in KNOWN_DIFFS.items():
            if not (members & set(names)):
                continue
            if key == "api-serialize-outside-try":
                if has_bad_lazy and d in kinds:
                    hit = key
                continue
            if key.startswith("api-"):
                if d in kinds:
                    hit = key
                    break
                continue
            if key == "toposort-subgraph-uncounted":
                if kind in kinds and not TOP_LABEL.match(label):
                    hit = key
                    break
                continue
            if kind in kinds:
                hit = key
                break
        if hit is None:
            return None
        keys.add(hit)
    return keys


def replay_known(ck) -> None:
    """Every known finding is replayed on the implementation; it must still fail, with the recorded signature."""
    for k in ck._known:
        if k.get("status") != "known":
            continue
        w = k["witness"]
        r = I.oracle_run(w["spec"], w["pass"], w.get("fault"))
        got = {(f["tag"], d) for f in r["failures"] for d in (f["diff"] or [""])}
        need = {(w["expect_tag"], d) for d in w["expect_diff"]}
        if need <= got:
            ck.known_finding(k["key"], k["what"])
        else:
            ck.broken(f"known-finding-stale:{k['key']}",
                      f"the recorded witness no longer fails as recorded (expected {sorted(need)}, got {sorted(got)}); "
                      "the model still reproduces a defect the code no longer has")


# =========================================================================== main

def _coq_cases(ck, tag: str, ctype: str, agree: str, terms: list[str]) -> list[int]:
    """Run `failing agree cases` in chunks; returns global indices that disagree."""
    chunks = [terms[i:i + 300] for i in range(0, len(terms), 300)] or [[]]
    texts = []
    for j, ch in enumerate(chunks):
        body = clist(ch).replace("; (", ";\n  (")
        texts.append((f"cases_{tag}_{j}", CASE_HEADER + f"Definition cases : list ({ctype}) :=\n  {body}.\n"
                      f"Eval vm_compute in (failing {agree} cases).\n"))
    out = []
    import concurrent.futures as cf
    with cf.ThreadPoolExecutor(max_workers=4) as ex:      # at most 4 coqc at a time
        results = list(ex.map(lambda t: ck.coq_eval(t[1], t[0], 900), texts))
    for j, (rc, o) in enumerate(results):
        if rc != 0:
            raise RuntimeError(f"case file cases_{tag}_{j} did not compile:\n{o[-3000:]}")
        out += [j * 300 + i for i in common.parse_nat_list(o)]
    return out


T_INFRA = "option bool * (pterm Z * Z * (bool * bool * xres (nat * bool) * list Z))"
T_API = ("list positive * list positive * list (positive * value) * bool * "
         "(bool * list positive * list positive * list (option Z * option Z * option Z))")
T_CLEAR = "list cgraph * (list cgraph * bool)"
T_DCE = "dgraph * (dgraph * bool)"
T_TOPO = "topo_case"
T_OF = ("list positive * positive * list ograph * "
        "(list (list positive * list (option positive) * list (positive * option nat)) * bool)")
T_UO = "bool * (uograph * list (positive * uograph)) * ((uograph * list (positive * uograph)) * bool)"
T_IO = "bool * list (list positive * list positive) * (list (list positive * list positive) * bool)"


def correspondence(ck, scale: int) -> dict:
    """Runs the implementation on generated cases, returns {family: (cases, terms)}; oracle failures are returned
    separately under key 'oracle'."""
    import onnx_ir  # noqa: F401
    from onnx_ir.passes import common as cp
    rng = ck.rng
    fam: dict = {}
    direct_failures = []
    # ---- infra
    cases, terms = [], []
    for i in range(500 * scale):
        t = gen_pterm(rng, rng.choice([0, 1, 2, 2, 3])) if i % 8 else gen_converging_mgr(rng)
        if i % 8 == 4:
            t = gen_functional_mgr(rng)
        c0 = rng.choice([0, 1, 2, 3, 5, 9]) if i % 8 != 4 else rng.choice([0, 0, 1, 2])
        if i % 8 == 6:           # functionalize over a composition whose first member is declared side-effect-only
            first = {"prim": True, "ip": True, "ch": False, "rq": False, "en": False, "cr": False, "ret": "same",
                     "eff": {"k": "nop", "f": False}, "own": True}
            second = {"prim": True, "ip": True, "ch": True, "rq": False, "en": False, "cr": False, "ret": "same",
                      "eff": rng.choice([{"k": "dec", "n": 1}, {"k": "set", "n": 4}, {"k": "inc"}]), "own": True}
            inner = {"mgr": [first, second], "steps": rng.choice([1, 2]), "early": True} if rng.random() < 0.5 else {"seq": [first, second]}
            t = {"fun": inner}
            c0 = rng.choice([1, 2, 5])
        incoming = rng.choice([None, None, True, False])      # a Model, or a PassResult with that flag
        t["incoming"] = incoming
        t["c0"] = c0
        obs = run_infra_case(t, c0, incoming)
        ck.hist("infra_argument", "Model" if incoming is None else f"PassResult(modified={incoming})")
        ck.count()
        o = obs["outcome"]
        ck.hist("infra_outcomes", o[1] if o[0] == "raise" else f"ok:modified={o[2]}")
        if o[0] == "raise" and o[1].startswith("OTHER"):
            ck.broken("correspondence:infra", f"unexpected exception class {o[1]} for {json.dumps(t)}")
            continue
        if incoming is not None:
            obs["plain"] = run_infra_case(t, c0, None)["outcome"]
        for b in infra_oracle(t, obs):
            direct_failures.append({"kind": "infra", "term": t, "c0": c0, "obs": obs, "failure": b})
        cases.append((t, c0, obs))
        terms.append(f"({copt(incoming, cbool)}, {infra_case_term(t, c0, obs)})")
        if "mgr" in t or "fun" in t or "seq" in t:
            ck.nontriv(("infra", t, c0))
        if i < 2:
            ck.sample({"family": "infra", "term": t, "c0": c0, "observed": obs})
    fam["infra"] = (cases, terms, T_INFRA, "infra_agree_arg")
    # ---- call_onnx_api
    cases, terms = [], []
    for i in range(400 * scale):
        case = gen_api_case(rng)
        obs = run_api_case(case)
        obs["func_raises"] = case["func_raises"]
        ck.count()
        a = obs["after"]
        ck.hist("api_outcomes", "raised:" + str(a["raised"]) if a["raised"] else "ok")
        if a["foreign"]:
            ck.broken("correspondence:api", f"a value foreign to the case appeared in the graph: {json.dumps(case)}")
            continue
        d = api_oracle(obs)
        for x in d:
            ck.hist("api_damage", x)
        if d:
            direct_failures.append({"kind": "api", "case": case, "damage": d, "raised": a["raised"]})
        cases.append((case, obs))
        terms.append(api_case_term(obs))
        if any(it["kind"] in ("big", "none", "biglazyraise", "lazyraise") for it in case["inits"]):
            ck.nontriv(("api", case))
        if i < 1:
            ck.sample({"family": "api", "case": case, "observed": obs})
    fam["api"] = (cases, terms, T_API, "api_agree")
    # ---- clear / topo / io on the rich model family
    c_cl, t_cl, c_tp, t_tp, c_io_, t_io = [], [], [], [], [], []
    for i in range(300 * scale):
        spec = I.gen_spec(rng)
        b = I.build(spec)
        before = abs_clear(b.model)
        res = cp.ClearMetadataAndDocStringPass()(b.model)
        after = abs_clear(b.model)
        ck.count()
        c_cl.append(spec)
        t_cl.append(f"({c_cgraphs(before)}, ({c_cgraphs(after)}, {cbool(res.modified)}))")
        if any(x or y for _, _, ns in before for x, y in ns):
            ck.nontriv(("clear", before))
        # topo
        b = I.build(spec)
        reg = I.Reg()
        m = b.model
        def sublists():
            out = [[reg(n) + 1 for n in g] for g in list(m.graphs())[1:]]
            for f in m.functions.values():
                out += [[reg(n) + 1 for n in sg] for sg in f.subgraphs()]
            return out
        main = [reg(n) + 1 for n in m.graph]
        funcs = [[reg(n) + 1 for n in f] for f in m.functions.values()]
        subs = sublists()
        try:
            res = cp.TopologicalSortPass()(m)
        except Exception:  # noqa: BLE001  (cycle)
            ck.hist("topo_outcomes", "raised")
        else:
            smain = [reg(n) + 1 for n in m.graph]
            sfuncs = [[reg(n) + 1 for n in f] for f in m.functions.values()]
            ssubs = sublists()
            ck.count()
            ck.hist("topo_outcomes", f"modified={res.modified}")
            c_tp.append(spec)
            zl = lambda l: clist(cpos(x) for x in l)  # noqa: E731
            zll = lambda ll: clist(zl(f) for f in ll)  # noqa: E731
            t_tp.append(f"({zl(main)}, {zll(funcs)}, {zll(subs)}, ({zl(smain)}, {zll(sfuncs)}, {zll(ssubs)}), {cbool(res.modified)})")
            if main != smain or funcs != sfuncs or subs != ssubs:
                ck.nontriv(("topo", main, smain))
        # io
        for is_add, P in ((True, cp.AddInitializersToInputsPass), (False, cp.RemoveInitializersFromInputsPass)):
            b = I.build(spec)
            reg = I.Reg()
            before = abs_io(b.model, reg)
            res = P()(b.model)
            after = abs_io(b.model, reg)
            ck.count()
            c_io_.append((is_add, spec))
            t_io.append(f"({cbool(is_add)}, {c_io(before)}, ({c_io(after)}, {cbool(res.modified)}))")
            if before != after:
                ck.nontriv(("io", is_add, before))
    fam["clear"] = (c_cl, t_cl, T_CLEAR, "clear_agree")
    fam["topo"] = (c_tp, t_tp, T_TOPO, "topo_agree")
    fam["io"] = (c_io_, t_io, T_IO, "io_agree")
    # ---- dce on flat graphs
    cases, terms = [], []
    for i in range(500 * scale):
        spec = gen_dce_spec(rng)
        b = I.build(spec)
        reg = I.Reg()
        before = abs_dce(b.model, reg)
        res = cp.RemoveUnusedNodesPass()(b.model)
        after = abs_dce(b.model, reg)
        ck.count()
        ck.hist("dce_outcomes", f"modified={res.modified},changed={before != after}")
        cases.append(spec)
        terms.append(f"({c_dgraph(before)}, ({c_dgraph(after)}, {cbool(res.modified)}))")
        if before != after:
            ck.nontriv(("dce", before))
        if i < 1:
            ck.sample({"family": "dce", "spec": spec, "before": before, "after": after, "modified": res.modified})
    fam["dce"] = (cases, terms, T_DCE, "dce_agree")
    # ---- OutputFix (contract-level model) on the rich family + the duplicate-output family
    cases, terms = [], []
    for i, spec in enumerate(dup_output_family() + [I.gen_spec(rng) for _ in range(120 * scale)]):
        try:
            term, mod = run_outputfix_case(spec)
        except Exception as e:  # noqa: BLE001
            ck.hist("outputfix_outcomes", "raised:" + type(e).__name__)
            continue
        ck.count()
        ck.hist("outputfix_outcomes", f"modified={mod}")
        cases.append(spec)
        terms.append(term)
        if mod:
            ck.nontriv(("outputfix", spec))
    fam["outputfix"] = (cases, terms, T_OF, "of_agree")
    # ---- RemoveUnusedOpsets
    cases, terms = [], []
    for i, spec in enumerate(function_family() + subgraph_domain_family() + [I.gen_spec(rng) for _ in range(100 * scale)]):
        for pf in (True, False):
            term, mod = run_unused_opsets_case(spec, pf)
            ck.count()
            ck.hist("unused_opsets_outcomes", f"modified={mod}")
            cases.append((pf, spec))
            terms.append(term)
            if mod:
                ck.nontriv(("unused_opsets", pf, spec))
    fam["unused_opsets"] = (cases, terms, T_UO, "uo_agree")
    fam["direct_failures"] = direct_failures
    return fam


# ops with optional outputs (ONNX schemas, opset 20): (op, number of outputs, number of inputs, attrs variants)
OPT_OUT_OPS = [
    ("LayerNormalization", 3, 3, [{}]),
    ("BatchNormalization", 3, 5, [{}, {"training_mode": 1}]),
    ("Dropout", 2, 1, [{}]),
    ("MaxPool", 2, 1, [{"kernel_shape": [1]}]),
    ("LSTM", 3, 3, [{"hidden_size": 2}]),
    ("GRU", 2, 3, [{"hidden_size": 2}]),
]


def optional_output_specs() -> list[dict]:
    """Exhaustive, seed-independent family for the optional-output rule of RemoveUnusedNodesPass
    (_remove_unused_optional_outputs): every op above x every role of every output
    (u = named but unused, c = consumed by a kept node, o = graph output; for trailing outputs also a shorter
    output list) x other dead code present/absent x default opset given/absent x trailing None input or not."""
    import itertools
    out = []
    for op, nout, nin, attr_variants in OPT_OUT_OPS:
        for attrs in attr_variants:
            for k in range(1, nout + 1):                       # number of outputs the node actually has
                for roles in itertools.product("uco", repeat=k):
                    if "c" not in roles and "o" not in roles:
                        continue                               # the node itself would be dead: covered by `dead`
                    for dead, opset, tnone in itertools.product((False, True), (True, False), (False, True)):
                        if tnone and (dead or not opset):
                            continue
                        outs = [f"y{i}" for i in range(k)]
                        ins = ["x0"] * nin + ([None] if tnone else [])
                        nodes = [{"name": "n0", "op": op, "ins": ins, "outs": outs, "attrs": dict(attrs)}]
                        gouts = []
                        for i, r in enumerate(roles):
                            if r == "c":
                                nodes.append({"name": f"c{i}", "op": "Relu", "ins": [outs[i]], "outs": [f"z{i}"]})
                                gouts.append(f"z{i}")
                            elif r == "o":
                                gouts.append(outs[i])
                        if dead:
                            nodes.append({"name": "dead", "op": "Relu", "ins": ["x0"], "outs": ["d0"]})
                        g = {"name": "g", "inputs": ["x0"], "inits": [], "nodes": nodes, "outputs": gouts,
                             "opsets": {"": 20} if opset else {"custom": 1}}
                        out.append({"graph": g, "functions": [], "names": {},
                                    "_tag": f"{op}:{''.join(roles)}:dead={dead}:opset={opset}:tnone={tnone}"})
    return out


# ---- models with function call graphs (deterministic) and the pass-instance-reuse stream

def function_family() -> list[dict]:
    """main->F0 | main->F0->F1 | + unused Spare->F0 | + unused chain Spare2->Spare->F0 (and F0->F1) | no functions |
    an unused leaf function.  Used fresh for every pass and as the backbone of the reuse stream."""
    def leaf(name, op="Relu"):
        return {"domain": "fdom", "name": name, "graph": {"name": name + "g", "inputs": [name + "x"], "inits": [], "outputs": [name + "y"],
                                                        "opsets": {"": 20}, "nodes": [{"name": name + "n", "op": op, "ins": [name + "x"], "outs": [name + "y"]}]}}

    def caller(name, callee):
        x, t, y = name + "x", name + "t", name + "y"
        return {"domain": "fdom", "name": name, "graph": {
            "name": name + "g", "inputs": [x], "inits": [], "outputs": [y], "opsets": {"": 20, "fdom": 1},
            "nodes": [{"name": name + "c", "op": callee, "domain": "fdom", "ins": [x], "outs": [t]},
                      {"name": name + "n", "op": "Neg", "ins": [t], "outs": [y]}]}}

    def model(funcs, call="F0"):
        nodes = [{"name": "n0", "op": "Relu", "ins": ["x0"], "outs": ["v0"]}]
        if call:
            nodes.append({"name": "n1", "op": call, "domain": "fdom", "ins": ["v0"], "outs": ["v1"]})
        g = {"name": "g", "inputs": ["x0"], "inits": [], "nodes": nodes, "outputs": ["v1" if call else "v0"],
             "opsets": {"": 20, "fdom": 1} if funcs else {"": 20}}
        return {"graph": g, "functions": funcs, "names": {}}
    return [
        model([leaf("F0")]),                                                   # A
        model([caller("F0", "F1"), leaf("F1")]),                               # B
        model([leaf("F0"), caller("Spare", "F0")]),                            # C
        model([caller("F0", "F1"), leaf("F1"), caller("Spare2", "Spare"), caller("Spare", "F0")]),   # D
        model([], call=None),                                                  # E
        model([leaf("F0"), leaf("Unused", "Abs")]),                            # F
        model([caller("F0", "F1"), caller("F1", "F2"), leaf("F2")]),           # G
    ]


def _round_sig(r: dict) -> list:
    return [(rd.get("raised"), rd.get("modified"), rd.get("ser_equal"), tuple(rd.get("diff") or ())) for rd in r["rounds"]]


def run_reuse_sequence(pspec, specs: list[dict]) -> list[dict]:
    """ONE pass object applied to a sequence of different models: the per-model oracle each time, and the
    behaviour (per round: raised / modified / serialization equal / kinds of change) must be what a FRESH
    instance of the same pass does on that model."""
    p = I.make_pass(pspec)
    out = []
    for i, spec in enumerate(specs):
        r = I.oracle_run(spec, pspec, pass_obj=p)
        fresh = I.oracle_run(spec, pspec)
        for f in r["failures"]:
            out.append({"position": i, "failure": f})
        if _round_sig(r) != _round_sig(fresh):
            out.append({"position": i, "failure": {"tag": "reuse", "diff": [], "round": 0,
                        "msg": "a reused pass instance behaves differently from a fresh one on the same model: "
                               f"reused {_round_sig(r)} vs fresh {_round_sig(fresh)}"}})
    return out


def reuse_stream(ck, specs: list[dict]) -> None:
    rng = ck.rng
    fam = function_family()
    names = sorted(I.pass_catalog())
    pspecs = list(names) + [{"mgr": ["RemoveUnusedFunctions", "Inline"], "steps": 2, "early": True},
                            {"mgr": ["Inline", "RemoveUnusedFunctions", "RemoveUnusedOpsets"], "steps": 3, "early": True},
                            {"seq": ["RemoveUnusedFunctions", "RemoveUnusedNodes"]}, {"fun": "RemoveUnusedFunctions"},
                            {"fun": "Inline"}]
    orders = [[0, 1, 2, 3, 4, 5, 6], [6, 5, 4, 3, 2, 1, 0], [4, 0, 3, 0, 1, 5, 2]]
    reported = 0
    for ps in pspecs:
        seqs = [[fam[i] for i in o] for o in orders]
        if specs:
            seqs.append([specs[rng.randrange(len(specs))] for _ in range(5)])
        for seq in seqs:
            try:
                fails = run_reuse_sequence(ps, seq)
            except Exception as e:  # noqa: BLE001
                ck.broken("oracle-internal-error", f"reuse stream {json.dumps(ps)}: {type(e).__name__}: {e}")
                continue
            ck.count(len(seq))
            ck.hist("reuse_stream", ps if isinstance(ps, str) else next(iter(ps)))
            ck.nontriv(("reuse", ps, common.digest(seq)))
            if fails and reported < 3:
                # shrink the sequence: drop models while a failure of the same tag persists
                tag = fails[0]["failure"]["tag"]
                cur = list(seq)
                changed = True
                while changed and len(cur) > 1:
                    changed = False
                    for k in range(len(cur)):
                        c2 = cur[:k] + cur[k + 1:]
                        if any(f["failure"]["tag"] == tag for f in run_reuse_sequence(ps, c2)):
                            cur, changed = c2, True
                            break
                reported += 1
                ck.violation({"kind": "oracle-reuse", "pass": ps, "sequence": cur,
                              "failures": run_reuse_sequence(ps, cur),
                              "required": "a pass object reused on several models honours the contract on each of them and "
                                          "behaves like a fresh instance"})


def dup_output_family() -> list[dict]:
    """Graphs that return the same value more than once: main graph, If branch at depth 1, nested If at depth 2,
    a subgraph inside a function body, mixed with a graph input returned directly."""
    def branch(pfx, outer_val, dup=True, inner=None):
        nodes = [{"name": pfx + "r", "op": "Relu", "ins": [outer_val], "outs": [pfx + "t"]}]
        outs = [pfx + "t", pfx + "t"] if dup else [pfx + "t", pfx + "u"]
        if not dup:
            nodes.append({"name": pfx + "n", "op": "Neg", "ins": [outer_val], "outs": [pfx + "u"]})
        if inner is not None:
            nodes.append(inner)
            outs = [inner["outs"][0], inner["outs"][1]] if not dup else [inner["outs"][0], inner["outs"][0]]
        return {"name": pfx + "g", "inputs": [], "inits": [], "nodes": nodes, "outputs": outs}

    def if_node(pfx, x, cond, dup_then=True, dup_else=False, inner_then=None):
        return {"name": pfx + "if", "op": "If", "ins": [cond], "outs": [pfx + "y1", pfx + "y2"], "typed": True,
                "attrs": {"then_branch": {"graph": branch(pfx + "t", x, dup_then, inner_then)},
                          "else_branch": {"graph": branch(pfx + "e", x, dup_else)}}}

    def model(nodes, outputs, funcs=(), inputs=("x0", "cond")):
        g = {"name": "g", "inputs": list(inputs), "inits": [], "nodes": nodes, "outputs": outputs,
             "opsets": {"": 20, "fdom": 1} if funcs else {"": 20}}
        return {"graph": g, "functions": list(funcs), "names": {}}
    fam = [
        model([if_node("a", "x0", "cond")], ["ay1", "ay2"]),                                   # depth 1, then-branch
        model([if_node("a", "x0", "cond", True, True)], ["ay1", "ay2"]),                       # both branches
        model([if_node("a", "x0", "cond", False, False, if_node("b", "x0", "cond"))], ["ay1", "ay2"]),   # depth 2 only
        model([if_node("a", "x0", "cond", True, False, if_node("b", "x0", "cond", True, True))], ["ay1", "ay1"]),  # 1+2+main
        model([if_node("a", "x0", "cond")], ["ay1", "x0", "x0"]),                              # + direct input twice
        model([{"name": "r", "op": "Relu", "ins": ["x0"], "outs": ["v0"]}], ["v0", "v0", "v0"], inputs=("x0",)),
    ]
    fbody = {"name": "Fg", "inputs": ["Fx", "cond"], "inits": [], "outputs": ["Fy1", "Fy1"], "opsets": {"": 20},
             "nodes": [if_node("F", "Fx", "cond")]}
    fbody["nodes"][0]["outs"] = ["Fy1", "Fy2"]
    fam.append(model([{"name": "call", "op": "F0", "domain": "fdom", "ins": ["x0", "cond"], "outs": ["c1", "c2"]}], ["c1", "c2"],
                     funcs=[{"domain": "fdom", "name": "F0", "graph": fbody}]))
    return fam


def run_outputfix_case(spec: dict) -> str:
    """OutputFixPass on the model of `spec`: Coq case term (graphs before, canonical graphs after, flag)."""
    from onnx_ir.passes import common as cp
    b = I.build(spec)
    m = b.model
    reg = I.Reg()
    gl = [g for _, g in I.graphs_of(m)]
    before = []
    for g in gl:
        before.append(([reg(v) + 1 for v in g.inputs], [reg(v) + 1 for v in g.outputs], {id(n) for n in g}))
    allins = sorted({v for ins, _, _ in before for v in ins})
    nxt = len(reg.ids) + 1
    known = dict(reg.ids)
    res = cp.OutputFixPass()(m)
    obs = []
    for g, (ins, outs, nodes_b) in zip(gl, before):
        outs_a = list(g.outputs)
        co = [copt(known[id(v)] + 1 if id(v) in known else None, cpos) for v in outs_a]
        added = []
        for n in g:
            if id(n) not in nodes_b:
                src = n.inputs[0]
                pos = next((i for i, v in enumerate(outs_a) if v is n.outputs[0]), None)
                added.append(f"({cpos(known[id(src)] + 1 if id(src) in known else 999999)}, {copt(pos, lambda x: f'{x}%nat')})")
        obs.append(f"({clist(cpos(v) for v in [known[id(v)] + 1 for v in g.inputs])}, {clist(co)}, {clist(added)})")
    cg = clist(f"{{| o_ins := {clist(cpos(v) for v in ins)}; o_outs := {clist(cpos(v) for v in outs)}; o_added := [] |}}"
               for ins, outs, _ in before)
    return f"({clist(cpos(v) for v in allins)}, {cpos(nxt)}, {cg}, ({clist(obs)}, {cbool(res.modified)}))", bool(res.modified)


def run_unused_opsets_case(spec: dict, process_functions: bool):
    import onnx_ir as ir
    from onnx_ir.passes import common as cp
    m = I.build(spec).model
    toks = {"": 1}

    def tok(d):
        return toks.setdefault(d, len(toks) + 1)

    def ug(gl):
        return (f"{{| uo_imports := {clist(cpos(tok(d)) for d in gl.opset_imports)}; uo_node_domains := "
                f"{clist(cpos(tok(n.domain)) for n in ir.traversal.RecursiveGraphIterator(gl))} |}}")

    def mod():
        return f"({ug(m.graph)}, {clist(f'({cpos(tok(f.domain))}, {ug(f)})' for f in m.functions.values())})"
    before = mod()
    res = cp.RemoveUnusedOpsetsPass(process_functions=process_functions)(m)
    return f"({cbool(process_functions)}, {before}, ({mod()}, {cbool(res.modified)}))", bool(res.modified)


def subgraph_domain_family() -> list[dict]:
    """A non-default domain that occurs ONLY inside If bodies (depth 1, depth 2, inside a function body)."""
    def cop(pfx, x):
        return {"name": pfx + "c", "op": "CustomOp", "domain": "custom", "ins": [x], "outs": [pfx + "v"]}

    def branch(pfx, x, inner=None):
        nodes = [inner] if inner is not None else [cop(pfx, x)]
        return {"name": pfx + "g", "inputs": [], "inits": [], "nodes": nodes, "outputs": [nodes[0]["outs"][0]]}

    def plain(pfx, x):
        return {"name": pfx + "g", "inputs": [], "inits": [], "outputs": [pfx + "r"],
                "nodes": [{"name": pfx + "n", "op": "Relu", "ins": [x], "outs": [pfx + "r"]}]}

    def if_node(pfx, x, cond, inner=None):
        return {"name": pfx + "if", "op": "If", "ins": [cond], "outs": [pfx + "y"], "typed": True,
                "attrs": {"then_branch": {"graph": branch(pfx + "t", x, inner)}, "else_branch": {"graph": plain(pfx + "e", x)}}}

    def model(nodes, out, funcs=(), extra=()):
        ops = {"": 20, "custom": 1}
        ops.update({k: 1 for k in extra})
        g = {"name": "g", "inputs": ["x0", "cond"], "inits": [], "nodes": nodes, "outputs": [out], "opsets": ops}
        return {"graph": g, "functions": list(funcs), "names": {}}
    fbody = {"name": "Fg", "inputs": ["Fx", "cond"], "inits": [], "outputs": ["Fy"], "opsets": {"": 20, "custom": 1, "unused.domain": 1},
             "nodes": [if_node("F", "Fx", "cond")]}
    return [
        model([if_node("a", "x0", "cond")], "ay"),                                           # depth 1
        model([if_node("a", "x0", "cond", if_node("b", "x0", "cond"))], "ay"),               # depth 2
        model([if_node("a", "x0", "cond")], "ay", extra=("unused.domain",)),                 # + a really unused import
        model([{"name": "call", "op": "F0", "domain": "fdom", "ins": ["x0", "cond"], "outs": ["c1"]}], "c1",
              funcs=[{"domain": "fdom", "name": "F0", "graph": fbody}], extra=("fdom",)),      # inside a function body
    ]


def side_effect_first_family():
    """(spec, pspec): functionalize over compositions whose FIRST member is the side-effect-only CheckerPass followed by
    in-place passes, on checker-valid models that the in-place passes do modify."""
    def g(nodes, outs, inits=()):
        return {"graph": {"name": "g", "inputs": ["x0"], "inits": list(inits), "nodes": nodes, "outputs": outs, "opsets": {"": 20}},
                "functions": [], "names": {}}
    live = {"name": "n0", "op": "Relu", "ins": ["x0"], "outs": ["v0"], "typed": True}
    specs = [
        g([live, {"name": "dead", "op": "Relu", "ins": ["x0"], "outs": ["d0"], "typed": True}], ["v0"]),
        g([dict(live, doc="a doc string", meta={"k": "v"})], ["v0"], inits=[{"h": "w0", "kind": "small"}]),
        g([{"name": "n1", "op": "Relu", "ins": ["v0"], "outs": ["v1"], "typed": True}, live], ["v1"]),     # unsorted
    ]
    pss = [{"fun": {"mgr": ["Checker", "RemoveUnusedNodes"], "steps": 1, "early": True}},
           {"fun": {"mgr": ["Checker", "RemoveUnusedNodes"], "steps": 3, "early": True}},
           {"fun": {"seq": ["Checker", "ClearMetadataAndDocString"]}},
           {"fun": {"seq": ["Checker", "RemoveUnusedNodes", "ClearMetadataAndDocString"]}},
           {"fun": {"seq": ["Checker"]}}, {"fun": "Checker"},
           {"fun": {"mgr": [{"seq": ["Checker", "RemoveUnusedNodes"]}], "steps": 2, "early": False}}]
    return [(s, p) for s in specs for p in pss]


def subgraph_init_family() -> list[dict]:
    """If branches that return one of their OWN initializers directly (no node in between), initializers that are also
    inputs of the subgraph, depth 1 and 2, with and without dead code around."""
    def branch(pfx, kind, inner=None):
        gb = {"name": pfx + "g", "inputs": [], "inits": [{"h": pfx + "w", "kind": "small"}], "nodes": [], "outputs": [pfx + "w"]}
        if kind == "input":           # the initializer is also a subgraph input, and nothing reads it
            gb["inputs"] = [pfx + "w"]
            gb["nodes"] = [{"name": pfx + "r", "op": "Relu", "ins": ["x0"], "outs": [pfx + "v"]}]
            gb["outputs"] = [pfx + "v"]
        if kind == "both":            # returned directly AND an unused second initializer
            gb["inits"].append({"h": pfx + "u", "kind": "small"})
        if inner is not None:
            gb["nodes"] = [inner]
            gb["outputs"] = [inner["outs"][0]]
        return gb

    def if_node(pfx, kind_t, kind_e, inner=None):
        return {"name": pfx + "if", "op": "If", "ins": ["cond"], "outs": [pfx + "y"], "typed": True,
                "attrs": {"then_branch": {"graph": branch(pfx + "t", kind_t, inner)}, "else_branch": {"graph": branch(pfx + "e", kind_e)}}}

    def model(nodes, out, dead=False):
        if dead:
            nodes = nodes + [{"name": "dead", "op": "Relu", "ins": ["x0"], "outs": ["d0"]}]
        return {"graph": {"name": "g", "inputs": ["x0", "cond"], "inits": [], "nodes": nodes, "outputs": [out], "opsets": {"": 20}},
                "functions": [], "names": {}}
    return [model([if_node("a", "out", "out")], "ay"), model([if_node("a", "out", "input")], "ay", dead=True),
            model([if_node("a", "both", "out")], "ay"), model([if_node("a", "input", "input")], "ay"),
            model([if_node("a", "out", "out", if_node("b", "out", "both"))], "ay"),
            model([if_node("a", "out", "out", if_node("b", "input", "out"))], "ay", dead=True)]


def gen_composition(rng, names: list[str]):
    k = rng.random()
    pick = lambda: rng.choice(names)  # noqa: E731
    if k < 0.08:
        inner = [rng.choice(["Checker", "CheckerFull"])] + [pick() for _ in range(rng.randrange(1, 3))]
        return {"fun": {"mgr": inner, "steps": rng.choice([1, 2]), "early": True} if rng.random() < 0.5 else {"seq": inner}}
    if k < 0.3:
        return {"fun": pick()}
    if k < 0.55:
        return {"seq": [pick() for _ in range(rng.randrange(1, 4))]}
    if k < 0.9:
        return {"mgr": [pick() if rng.random() < 0.8 else {"fun": pick()} for _ in range(rng.randrange(1, 4))],
                "steps": rng.choice([1, 2, 3, 6]), "early": rng.random() < 0.7}
    return {"mgr": [{"mgr": [pick(), pick()], "steps": 2, "early": True}, pick()], "steps": 2, "early": False}


def oracle_sweep(ck, n_specs: int, n_comp: int, specs_first: list[dict]) -> list[dict]:
    """The property oracle over every built-in pass, compositions and faults.  Returns failure records."""
    rng = ck.rng
    cat = I.pass_catalog()
    names = sorted(cat)
    out = []

    def run(spec, pspec, fault=None):
        try:
            r = I.oracle_run(spec, pspec, fault)
        except Exception as e:  # noqa: BLE001  the harness itself failed on this case
            ck.broken("oracle-internal-error", f"{type(e).__name__}: {e} on {json.dumps(pspec)} / {json.dumps(spec)[:1500]}")
            return
        ck.count()
        label = pspec if isinstance(pspec, str) else next(iter(pspec))
        ck.hist("oracle_passes", label)
        for rd in r["rounds"]:
            ck.hist("oracle_rounds", "raised:" + rd["raised"] if "raised" in rd else f"modified={rd['modified']}")
        ck.hist("rounds_to_fixpoint", str(r["first_false"]))
        if any(rd.get("modified") for rd in r["rounds"]) or fault:
            ck.nontriv((pspec, fault, spec))
        for f in r["failures"]:
            out.append({"spec": spec, "pass": pspec, "fault": fault, "failure": f})
    specs = list(specs_first)
    for i in range(n_specs):
        specs.append(I.gen_spec(rng, rich=(i % 4 != 0)))
    for si, spec in enumerate(specs):
        try:
            I.build(spec)
        except Exception as e:  # noqa: BLE001
            ck.broken("generator-invalid-spec", f"{type(e).__name__}: {e}: {json.dumps(spec)[:1000]}")
            continue
        for name in names:
            run(spec, name)
        # faults at the ONNX boundary for the analysis passes
        for name, fault in (("Checker", "check_raises"), ("ShapeInference", "infer_raises"), ("CheckerFull", "check_raises"),
                            ("ShapeInferenceLoose", "infer_raises")):
            run(spec, name, fault)
        # serialization fault: a small lazy tensor whose evaluation raises
        if spec["graph"]["inits"] and si % 2 == 0:
            s2 = json.loads(json.dumps(spec))
            s2["graph"]["inits"][rng.randrange(len(s2["graph"]["inits"]))]["kind"] = "lazyraise"
            for name in ("Checker", "ShapeInference"):
                run(s2, name)
    if n_specs >= 100:          # the main sweep: models with function call graphs, fresh instance of every pass
        for spec in function_family():
            for name in names:
                run(spec, name)
            for ps in ({"mgr": ["Inline", "RemoveUnusedFunctions"], "steps": 3, "early": True}, {"fun": "Inline"},
                       {"fun": "RemoveUnusedFunctions"}):
                run(spec, ps)
        reuse_stream(ck, specs)
        for spec, ps in side_effect_first_family():   # functionalize(side-effect-only first, then in-place)
            run(spec, ps)
        for spec in subgraph_init_family():    # subgraph initializers returned directly / also subgraph inputs
            for name in names:
                run(spec, name)
            for ps in ({"fun": "RemoveUnusedNodes"}, {"mgr": ["RemoveUnusedNodes", "LiftSubgraphInitializersToMainGraph"], "steps": 2, "early": True}):
                run(spec, ps)
        for spec in subgraph_domain_family():  # a domain used only inside If bodies / function bodies
            for name in names:
                run(spec, name)
            for ps in ({"fun": "RemoveUnusedOpsets"}, {"seq": ["RemoveUnusedOpsets", "Checker"]},
                       {"mgr": ["RemoveUnusedNodes", "RemoveUnusedOpsets"], "steps": 2, "early": True}):
                run(spec, ps)
        for spec in dup_output_family():      # the same value returned more than once (subgraphs, functions)
            for name in names:
                run(spec, name)
            for ps in ({"fun": "OutputFix"}, {"mgr": ["OutputFix", "IdentityElimination"], "steps": 2, "early": True},
                       {"seq": ["OutputFix", "TopologicalSort", "Checker"]}):
                run(spec, ps)
    if n_specs >= 100:          # the main sweep (not the short search rounds): exhaustive optional-output family
        fam = optional_output_specs()
        for spec in fam:
            run(spec, "RemoveUnusedNodes")
            ck.hist("optional_output_family", spec["_tag"].split(":")[0])
        for spec in fam[::7]:
            run(spec, {"fun": "RemoveUnusedNodes"})
            run(spec, {"mgr": ["RemoveUnusedNodes"], "steps": 3, "early": True})
    for i in range(n_comp):
        spec = specs[rng.randrange(len(specs))] if specs else I.gen_spec(rng)
        run(spec, gen_composition(rng, names), rng.choice([None, None, None, "both_raise"]))
    return out


def report(ck, records: list[dict]) -> None:
    """Known site -> KNOWN-FINDING; anything else -> shrink and VIOLATION (one per signature)."""
    seen = set()
    whats = {k["key"]: k["what"] for k in ck._known if k.get("status") == "known"}
    for rec in records:
        names = I.pspec_names(rec["pass"])
        keys = attribute(names, rec["failure"], rec["spec"])
        if keys is not None and keys <= set(whats):
            for k in keys:
                ck.known_finding(k, whats[k])
                ck.hist("known_hits", k)
            continue
        sig = (json.dumps(rec["pass"]) if not isinstance(rec["pass"], str) else rec["pass"], rec["failure"]["tag"],
               tuple(sorted(d.partition(":")[2] for d in rec["failure"]["diff"])))
        if sig in seen or len(seen) >= 5:
            continue
        seen.add(sig)
        tag = rec["failure"]["tag"]

        def fails(s, rec=rec, tag=tag):
            r = I.oracle_run(s, rec["pass"], rec["fault"])
            for f in r["failures"]:
                if f["tag"] == tag:
                    ks = attribute(I.pspec_names(rec["pass"]), f, s)
                    if ks is None or not ks <= set(whats):
                        return True
            return False
        try:
            small = I.shrink_spec(rec["spec"], fails)
        except Exception:  # noqa: BLE001
            small = rec["spec"]
        r = I.oracle_run(small, rec["pass"], rec["fault"])
        dg = common.digest([small, rec["pass"], rec["fault"]])
        if dg in seen:
            continue
        seen.add(dg)
        ck.violation({"kind": "oracle", "spec": small, "pass": rec["pass"], "fault": rec["fault"],
                      "failures": r["failures"], "rounds": r["rounds"], "broken": ck.broken_items})


def search(ck) -> None:
    """A proof obligation or a correspondence broke and the oracle has no failing input yet: look harder."""
    t0 = time.time()
    budget = 60 if not ck.thorough else 600
    rounds = 0
    while time.time() - t0 < budget and not ck.violations and rounds < 40:
        recs = oracle_sweep(ck, 40, 60, [])
        report(ck, recs)
        rounds += 1


def run(ck) -> None:
    import logging
    logging.disable(logging.WARNING)
    ck.trust("Coq 8.16.1 kernel (coqc; vm_compute in case files; no native_compute)",
             "tools/translate.py (fail-closed translator; here only the integer constant _BIG_TENSOR_SIZE_LIMIT)",
             "harness/props/c14.py::_Tr (syntactic transcription Python ast -> C14.PyInfra.stmt, fail closed) and the "
             "interpreter C14/PyInfra.v::run (the semantics given to that Python fragment: try/except by class, "
             "short-circuit and/or, `is`, for/enumerate/range/break; hooks self.requires/call/ensures, member passes, "
             "super().call, model.clone as section-level functions)",
             "harness/props/c14.py + _c14_impl.py (generators, abstraction functions model<->IR objects, Coq literal printer, oracle)",
             "modelled not verified: Graph.sort (C12), RecursiveGraphIterator order, ONNX op schemas, Model.clone (C13), "
             "serialization (C02/C03), onnx.checker / onnx.shape_inference")
    ck.assumptions += ["onnx/numpy/protobuf as installed in /venv", "SerializeToString(deterministic=True) is a function of the proto"]
    ck.coverage["rule"] = ("non-trivial = a pass round that modifies the model, a composition (Sequential/PassManager/"
                           "functionalize), an ONNX-boundary fault, an initializer that call_onnx_api strips")
    scale = 1 if not ck.thorough else 20
    generate(ck)
    ck.prove()
    # corpus first
    corpus = []
    cdir = os.path.join(common.CORPUS, "C14")
    if os.path.isdir(cdir):
        for fn in sorted(os.listdir(cdir)):
            if fn.endswith(".json"):
                with open(os.path.join(cdir, fn)) as f:
                    corpus.append(json.load(f))
    # correspondence
    fam = correspondence(ck, scale)
    direct = fam.pop("direct_failures")
    total_traces = 0
    for name, (cases, terms, ctype, agree) in fam.items():
        total_traces += len(terms)
        try:
            mism = _coq_cases(ck, name, ctype, agree, terms)
        except RuntimeError as e:
            ck.broken(f"correspondence:{name}", str(e))
            continue
        ck.hist("correspondence_cases", name, len(terms))
        for i in mism[:3]:
            ck.broken(f"correspondence:{name}", json.dumps({"case": cases[i], "term": terms[i][:3000]}, default=str))
    ck.coverage["traces_validated_against_impl"] = total_traces
    # oracle over all passes, compositions, faults (corpus specs first)
    records = []
    for c in corpus:
        try:
            r = I.oracle_run(c["spec"], c["pass"], c.get("fault"))
            ck.count()
            for f in r["failures"]:
                records.append({"spec": c["spec"], "pass": c["pass"], "fault": c.get("fault"), "failure": f})
        except Exception as e:  # noqa: BLE001
            ck.broken("corpus-case-error", f"{type(e).__name__}: {e}")
    records += oracle_sweep(ck, 110 * scale, 300 * scale, [c["spec"] for c in corpus])
    # direct oracle failures of the correspondence families
    whats = {k["key"]: k["what"] for k in ck._known if k.get("status") == "known"}
    for d in direct:
        if d["kind"] == "api":
            keys = set()
            for x in d["damage"]:
                if d["raised"] == "SerdeError" or (d["raised"] and not d["case"]["func_raises"]):
                    keys.add("api-serialize-outside-try")
                elif x == "initializer-order":
                    keys.add("api-initializer-order")
                elif x == "shape/dtype":
                    keys.add("api-shape-dtype-filled")
                else:
                    keys.add("?")
            if keys <= set(whats):
                for k in keys:
                    ck.known_finding(k, whats[k])
                    ck.hist("known_hits", k)
            elif not any("call_onnx_api" in v for v in ck.violations):
                ck.violation({"kind": "oracle-call_onnx_api", "case": d["case"], "damage": d["damage"],
                              "raised": d["raised"], "required": "model unchanged after call_onnx_api"}, tag="call_onnx_api")
        elif sum("infra" in v for v in ck.violations) < 2:
            ck.violation({"kind": "oracle-infra", "term": d["term"], "c0": d["c0"], "observed": d["obs"],
                          "required": d["failure"]}, tag="infra-" + common.digest(d["term"]))
    replay_known(ck)
    report(ck, records)
    if ck.broken_items and not ck.violations:
        search(ck)


def replay(rp: dict) -> int:
    import logging
    logging.disable(logging.WARNING)
    if rp.get("kind") == "oracle-call_onnx_api":
        obs = run_api_case(rp["case"])
        d = api_oracle(obs)
        print(json.dumps({"case": rp["case"], "damage": d, "raised": obs["after"]["raised"]}, indent=1))
        return 1 if d else 0
    if rp.get("kind") == "oracle-infra":
        inc = rp["term"].get("incoming")
        obs = run_infra_case(rp["term"], rp["c0"], inc)
        if inc is not None:
            obs["plain"] = run_infra_case(rp["term"], rp["c0"], None)["outcome"]
        bad = infra_oracle(rp["term"], obs)
        print(json.dumps({"term": rp["term"], "observed": obs, "failures": bad}, indent=1, default=str))
        return 1 if bad else 0
    if rp.get("kind") == "oracle-reuse":
        fails = run_reuse_sequence(rp["pass"], rp["sequence"])
        print(json.dumps({"pass": rp["pass"], "models": len(rp["sequence"]), "failures": fails}, indent=1, default=str))
        return 1 if fails else 0
    if "spec" not in rp:
        print("replay names a broken obligation/correspondence, no concrete input:",
              json.dumps(rp.get("broken"), indent=1)[:3000])
        return 1
    r = I.oracle_run(rp["spec"], rp["pass"], rp.get("fault"))
    print(json.dumps({"pass": rp["pass"], "fault": rp.get("fault"), "rounds": r["rounds"], "failures": r["failures"]},
                     indent=1, default=str))
    return 1 if r["failures"] else 0


MUTANTS = """
Hand-made mutants of /repo (scratch worktree /tmp/wt-C14 at the fixed HEAD, VERIF_REPO, ./check C14 quick, seed 0).
All reported VIOLATION; "replay" = a concrete failing input found by the oracle, "corr" = which correspondence broke.
 M1  PassBase.__call__: `if not self.in_place and result.model is model` check dropped
       -> corr infra + replay (oracle-infra: functional pass term returned its input object)
 M2  PassManager.call: `overall_modified = modified` (flag of the last step only)
       -> corr infra + replay (mgr[...] reports False, serialization changed)
 M3  PassManager.call: early-stop condition inverted (`if modified and self.early_stop`)
       -> corr infra + replay (oracle-infra: PassManager over measure-decreasing passes stopped before the fixpoint)
 M4  call_onnx_api: inputs restored off by one (`[: original_inputs_len + 1]`)
       -> corr api + replay (Checker: readonly/flag, diff g0:inputs)
 M5  call_onnx_api: `nbytes > LIMIT` -> `>=`   (tried before the fixes: corr api broke, no failing input since the only
       effect was a reorder already recorded as known; after fix 0346f88 the change is unobservable in the model's
       final state and not a contract violation -> equivalent mutant for C14)
 M6  RemoveUnusedNodesPass: removed initializers not counted -> corr dce + replay (flag, diff g0:initializers)
 M7  IdentityEliminationPass: returns False after eliminating (pass NOT modelled) -> replay by the oracle (flag, node-set)
 M8  functionalize: `self._inner_pass(model)` without clone -> corr infra + replay (fun RemoveUnusedNodes: identity,
       functional pass raised PassError and left its input changed) [first run: no-failing-input-found; the oracle
       clause "a functional pass leaves its input unchanged also when it raises" was added because of this mutant]
 M10 AddInitializersToInputsPass: `modified=count > 1` -> corr io + replay (flag, diff g0:inputs)
 M11 call_onnx_api: serialize_model moved back before the try (reverts part of 0346f88)
       -> corr api + replay (Checker with a raising LazyTensor: readonly-on-raise, initializers/inputs/const_value)
 M12 call_onnx_api: `initializer.shape = shape` dropped -> corr api + replay (flag/readonly, g0:value:shape@init)
 M13 call_onnx_api: `initializers.clear()` dropped -> corr api + replay (flag/readonly, g0:initializer-order)
 M14 RemoveUnusedNodesPass: trailing-input trim not counted (reverts 16a8fe8) -> corr dce + replay (flag, inputs-trimmed)
 M15 TopologicalSortPass: main graph compared at top level only (reverts 733a9c1 partly) -> corr topo + replay (flag, g1:node-order)
 M16 ClearMetadataAndDocStringPass: graph doc string not cleared (flag True every round)
       -> corr clear + replay (fixpoint: no round with modified=False within size+2 rounds)
 S3  (independent seeded change seeded/C14-m3) _remove_unused_optional_outputs: change signature reduced to
       (len(node.outputs), len(node.attributes)) -> FIRST MISSED (the random generator only had Dropout with a trailing
       mask, never a kept node whose only rewrite is a non-trailing blanked optional output); after adding the exhaustive
       schema-driven family optional_output_specs() (LayerNormalization, BatchNormalization +/- training_mode, Dropout,
       MaxPool, LSTM, GRU x every used/unused/graph-output role of every output x dead code x opset x trailing None;
       870 specs, run on every tier independent of the seed) -> replay (LayerNormalization uuc: flag, g0:value:name)
 S4  (independent seeded change seeded/C14-r2m2) PassManager.call: early-stop check moved above `model = step_result.model`,
       so a manager containing a functional pass returns its INPUT object when the first step reports no modification
       (PassBase.__call__ then raises PassError) -> FIRST only corr infra / no-failing-input-found (the oracle treated a
       raising composition as outside the contract); now replay by two new oracle clauses: (1) _c14_impl.oracle_run: a
       built-in pass or composition must never trip the identity rule of PassBase.__call__ (PassError "... same object as
       the input model" anywhere in the exception chain = identity failure; compositions are re-applied to their own
       result for 3 rounds); (2) scripted infra: gen_functional_mgr — PassManager(early_stop, steps>=1) over well-behaved
       honest passes with at least one functional member, often started where the first step is a no-op, must not raise.
 S5  (seeded/C14-r3m1) InlinePass skips the bodies of all remaining functions when criteria is None: an UNUSED function
       that calls a USED one keeps a call to a deleted function -> FIRST MISSED (no generated model had an unused
       function calling a used one; no clause about dangling calls); now replay: oracle clause "dangling-call" (a call
       whose operator named a model-local function before the pass must still resolve after it) + generator
       (gen_spec: Spare->F0, Spare2->Spare->F0, F0->F1) + deterministic function_family() run fresh for every pass.
 S6  (seeded/C14-r3m3) RemoveUnusedFunctionsPass keeps `_used` across calls -> FIRST MISSED (a fresh pass object per
       case); now replay kind oracle-reuse: reuse_stream() applies ONE pass object / PassManager to sequences of
       different models (function_family in 3 orders + a random sequence, every catalog pass + 5 compositions), runs the
       per-model oracle each time and compares the per-round behaviour with a fresh instance (shrunk to the shortest
       failing sequence: [main->F0, main->F0->F1] -> dangling-call fdom::F1 + reuse mismatch).
 S7  (seeded/C14-r4m3) OutputFixPass appends the alias Identity of a duplicated SUBGRAPH output to the root graph
       -> FIRST MISSED (generated subgraphs always had exactly one output); now replay (OutputFix: invariants
       I1:dangling-input + I4:output-produced-in-another-graph) through: gen_graph gives If nodes two outputs with branches
       that may return the same value twice (any depth), dup_output_family() (depth 1, depth 2, both branches, inside a
       function body, mixed with main-graph duplicates and direct inputs) run for every pass, and the new invariant
       "a graph output that a node produces is produced by a node of the graph that lists it" (reported only when new).
 S8  (seeded/C14-r5m1) PassBase.__call__ carries an incoming PassResult.modified=True into its own result -> FIRST MISSED
       (every call passed a Model); now: Model.exec_arg / infra_agree_arg (incoming flag ignored; theorem
       C14_result_argument_flag_ignored), the infra stream calls with a Model or PassResult(m, True/False) and compares
       with the plain call, and oracle_run repeats passes as r = p(r) from the second round on (spec["_chain"]) ->
       replay (infra: "result must describe this application only"; built-in passes: no round with modified=False).
 S9  (seeded/C14-r5m2) RemoveUnusedOpsetsPass looks only at the direct nodes of a graph-like -> FIRST only corr
       unused_opsets / no-failing-input-found; now replay through the oracle clause "opset-import" (a domain still used
       by nodes at any depth must keep the import it had) + subgraph_domain_family() (custom domain only inside If
       bodies at depth 1 and 2 and inside a function body), also fed to the unused_opsets correspondence.
 S10 (seeded/C14-r6m1) functionalize clones only when inner.changes_input, Sequential.changes_input drops `or in_place` ->
       FIRST only the translation obligation / no-failing-input-found; now replay: side_effect_first_family()
       (functionalize over Sequential/PassManager whose first member is the side-effect-only CheckerPass followed by in-place
       passes, on checker-valid models with dead code), random compositions of that shape, scripted infra terms
       Fun(Seq/Mgr[declared side-effect-only prim, in-place prim]) with the clause "functionalize(...) leaves the state of
       its input model unchanged".
 S11 (seeded/C14-r6m2) RemoveUnusedNodesPass sweeps subgraph initializers against the MAIN graph's inputs/outputs -> FIRST
       MISSED (no generated subgraph returned its own initializer); now replay (invariants I1:dangling-output) through
       subgraph_init_family() (If branches returning an own initializer directly, initializers that are also subgraph
       inputs, depth 1-2, with/without dead code; every pass + 2 compositions) and gen_graph (12% of subgraphs with
       initializers return one directly).
Also checked: with the four fix commits reverted (old HEAD 823601c) the check reported the six findings
(KNOWN-FINDING while they were status "known"); with the fixes applied and the old models it reported every
finding stale + broken correspondences (no false VIOLATION input in 26k oracle evaluations).
"""

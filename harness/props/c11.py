"""C11 — graph iteration stays well defined while the graph is edited.

Decided by: Coq theorems (coq/theories/C11/Property.v, 41 theorems, all "Closed under the global context")
about the hand-written executable model coq/theories/C11/Model.v of onnx_ir._linked_list.DoublyLinkedSet and of
its generator-based iterators, tied to the code on every run by a correspondence check on schedules
(interleavings of next() calls of several forward/backward iterators with edits and queries) against the real
DoublyLinkedSet AND against ir.Graph / ir.Function with real ir.Node objects; plus a property oracle (public API
only, plain-Python-list specification) that is run on every schedule and is the violation search.

MODEL (Model.v)  "live sequence + frozen tombstone links":
  live : list (box id, value)            pointers of live boxes are derived from the sequence
  tomb : list (box id, (prev, next))     frozen pointers of erased boxes, in erase order (oldest first)
  nid, slen                              box allocation counter, the _length field
  cursor = Fresh | Parked b | Done       CPython generator: head read at first next(); b.next read at RESUME time
  step = `while box is not root` loop with explicit fuel (one unit per erased box skipped); None = stuck
  edits: insert_one_after (same value -> no-op, present -> remove first), insert_many_after (threads the
  insertion point), append/extend/insert_after/insert_before (box.prev)/remove; len/getitem/membership written
  through the iterators as the code does.  Graph/Function methods are the same list operations; Graph.sort is
  extend(sorted order) and Graph.remove(iterable) a sequence of removes (translated by the harness).
THEOREMS (all proved for all states / schedules, no bounds):
  C11_wf_init, C11_wf_preserved            invariant `wf`: distinct box ids, distinct values, _length = len, every
                                           frozen pointer is the root, a live box, or a box erased LATER (both
                                           directions) — the termination measure
  C11_refines_list, C11_observers_agree,   every edit acts on list(g) as the plain-list operation l_apply and is
  C11_getitem_in_range                     rejected exactly when it is; list(), reversed, len, g[i], `in` agree
  C11_step_law, C11_fresh_future           next() yields the head of `futE` (a node of the graph at that moment)
  C11_iter_terminates, C11_never_raises    <= len+1 calls to Done without edits, yields = futE; no schedule gets
                                           the model stuck (fuel suffices, no dangling pointer)
  C11_schedule_law                         for EVERY interleaving and every node set U no edit touches:
                                           U-yields so far ++ U-future now = U-future at the start
  C11_untouched_once_in_order,             corollaries: untouched nodes exactly once in (reverse) graph order;
  C11_not_in_future_never_yielded          nodes behind the position never yielded
  C11_insert_{after,before}_current_{forward,backward}, C11_insert_position_law   inserted after the position
                                           -> yielded (next), before -> skipped, for both directions; general gap law
  C11_remove_law, C11_remove_current_resumes_at_successor, C11_move_current_resumes_at_successor
  C11_cursors_independent                  iterator i of a multi-iterator schedule = the same iterator alone
  RecursiveGraphIterator (Model.v `rnext`: stack of frames (graph, flat cursor, pending subgraphs) over a forest
  gid -> st, lazy entry of subgraph cursors, enter/exit callbacks as trace events — the code calls them twice
  per subgraph —, forward and reverse through `subs`), ProofsR.v / ProofsR2.v:
  C11_rec_step_safe, C11_rec_edit_safe      next() never stuck/raises, yielded node belongs to the graph of the
                                           frame on top at that moment, edits keep every frame valid
  C11_rec_step_law, C11_rec_terminates      on an acyclic forest next() pops the head of the pre-order future
                                           `rfut`; |rfut|+1 calls finish the traversal once edits stop
  C11_rec_schedule_law,                     every interleaving with edits of any graph: U-yields ++ U-future is
  C11_rec_untouched_once_in_preorder        invariant when no edit touches a U node or a node with a U node
                                           underneath (edit_clear), nodes keep their graph (`home`), nesting is
                                           acyclic (sub_rank) => untouched nodes exactly once in pre-order
  Deepening round (ProofsR3.v): the `recursive` predicate and the callbacks are in the model: `rnext subs recp`
  (recp : option (elt -> bool); eff_subs = subgraphs of x if the predicate accepts x else none; trace events
  CEnter g / CExit g / CRec x, the predicate call being made when the generator RESUMES after x):
  C11_rec_next_safe, C11_rec_predicate_rule   next() never raises, yielded node is in its graph, the new top frame
                                           descends into exactly eff_subs x; all earlier rec laws hold for eff_subs
  C11_rec_predicate_asked_once              recursive(x) is called exactly once per yielded node, at resume, never else
  C11_rec_callbacks_step / _nested / _balanced / _prefix   for EVERY history of next() calls and edits of any graph
                                           (no hypothesis on the forest) the enter/exit trace is a legal stack
                                           history from the graphs held open to the graphs held open afterwards,
                                           hence properly nested, and balanced when the traversal is exhausted
  C11_rec_history_never_raises              no history makes rnext stuck
  Second deepening round — the pointer code is TRANSLATED per run (harness/props/_c11_translate.py, fail-closed
  ast -> Gallina, one monad operation per attribute read/write, dict operation, allocation, call, raise):
  Gen/C11Gen.v = _LinkBox.__init__/erase, DoublyLinkedSet.remove/_insert_one_after/_insert_many_after/append/
  extend/insert_after/insert_before and the generators __iter__/__reversed__ (first / advance / scan) over the
  box heap of C11/Heap.v (prev, next, value, owning_list; _root, _length, id->box dict).  HeapProofs*.v prove,
  about the GENERATED definitions, that they refine the sequence+tombstone model under the representation
  relation R (pointers of live boxes = prv/nxt derived from the live sequence; erased boxes keep frozen pointers):
  C11_heap_R_init, C11_heap_edit_refines    every mutator: same outcome, related states (so every model theorem
                                           transfers to the pointer code)
  C11_heap_iter_refines, C11_heap_observers_refine   next() of both generators = the model's cursor step (incl. the
                                           owning_list check and asserts never firing); list/reversed/len agree
  C11_heap_erase_eval, C11_pointer_laws     the pointer surgery of erase; how prv/nxt change under erase/insert
  A source edit of these lines changes Gen/C11Gen.v, so the proofs are re-checked against it and break (or the
  translator rejects it): `proof:` obligation broken, besides the correspondence.  The translated code is also run
  inside Coq on every case file and schedule tree (HeapRun.hagree / htree_fail) against the implementation.
  RecursiveGraphIterator.__iter__ (restart) is modelled (RRestart: a new generator on the top graph; the abandoned
  one owes no callbacks) and in the correspondence (iter(it) events, ~3 % of recursive schedule events).
  Callbacks: what the property needs is the stack discipline (balanced, properly nested: ProofsR3 cb_run theorems
  + the oracle, exact).  The doubled enter/exit per subgraph is how the code happens to do it: the correspondence
  compares callback traces up to repetition of the same call (Model.dedup_adj), so a clean-up to one call each
  does not break any obligation, while seeded C15-r4m1 (enter once / exit twice) is still caught with a replay by
  the oracle's discipline check.
  Round 6: schedule options "journal" (0/1/2 nested active onnx_ir.journaling.Journal()s around the whole history;
  about half of the graph/function/recursive schedules) and "iter_args" (list arguments of extend / insert_after /
  insert_before / remove passed as one-shot iterators, 40 %): recording must not interfere with edits or running
  iterators, results must equal the model's.  Seeded C11-r6m3 (journal wrapper of Graph.extend consumes an
  iterator argument) -> replay {journal:1, iter_args:true, events:[extend [5]]}: nothing appended.
  Nothing is `_partial`.  Scope notes: __getitem__/__contains__/__len__'s assertion are not translated (thin layer
  over the translated iterators); node attributes and the predicate are fixed during a schedule; insertions far
  from the cursor are stated positionally (C11_insert_position_law) rather than per API call.
READINGS of the English (weaker reading taken by the oracle where ambiguous):
  * "touched" = removed, inserted or moved by an edit (being the anchor of insert_before/after does not touch).
  * position of an iterator whose current node was removed or moved = the gap where it was; "iteration resumes
    with the node that followed it at its original place", hence a node later inserted exactly into that gap
    (a new head after the head was removed, the current node re-inserted behind its predecessor, a replacement
    put into the vacated slot) is BEFORE the position and must not be yielded (Example C11_example_state,
    theorem fut_ins_detached_gap).  The oracle enforces this exactly (an earlier version accepted both
    behaviours there and therefore had no replay for seeded/C11-r2m3; tightened after that evaluation).
    Consequently no node is yielded twice unless an edit moved/re-inserted it behind the position in between.
  * inserting x directly after itself (the insertion point's value is x: insert_after(x,[x]), append(x) when x
    is last, insert_before(n,[x]) when x precedes n) is a no-op of the list AND of every iterator: x is not
    touched; any other insertion of a present node is a move (remove + insert), also when it lands in the
    same place.
  * Graph.sort moves every node (extend of the sorted order), so a suspended iterator legitimately re-yields
    them; an iterator that already raised StopIteration stays exhausted (generator semantics).
  * a not-yet-started iterator has no position: its future is the list at its first next().
TIE (measured in evidence): random state-aware schedules (dls/graph/function kinds, up to 80 events x 4
  iterators, sort / remove(iterable) / single-Node insert on graph kinds) -> case files, the model replays every
  event inside Coq and compares result, list(g), list(reversed(g)), len after EVERY event; exhaustive small
  scopes: Coq model on the tree of ALL schedules of <= 3 events (quick; 4 thorough) over 3 elements, 26-event
  alphabet, 2 iterators, 3 initial configurations; oracle on all schedules one event deeper (457k quick).
  RecursiveGraphIterator: nested If-like graphs (GRAPH and GRAPHS attributes, depth 2, forward and reverse,
  mixed with flat iterators on the subgraphs): every schedule goes through oracle_rec (plain-list cursors
  composed into the depth-first traversal; callbacks checked as a stack discipline; predicate asked once per
  node) AND through the Coq model `ragree` (yield, enter/exit/predicate-call trace and all six node lists after
  every event).  Iterator variants, all in the Coq correspondence: RecursiveGraphIterator(graph|Function,
  recursive=table|None, reverse, callbacks|none), reversed(RecursiveGraphIterator(...)), Graph.all_nodes(),
  Function.all_nodes().
MODELLED NOT VERIFIED: generator semantics; None values (TypeError before any mutation); owning_list check (a
  single list: boxes reachable from its root are its own); the id->box dict (derived: find_box); slices.
OBSERVATION outside C11 (C01/C06 family, not reported here): Graph.insert_after(absent_anchor, [n]) leaves
  n.graph = g; a later Graph.remove([present, n]) then removes `present` and raises.  The generator avoids
  remove(iterable) over such nodes; single removes behave like the list.
MUTANTS of /repo tried (scratch worktree /tmp/wt-C11, VERIF_REPO, quick tier, seed 0) — all 9 reported VIOLATION
with a shrunk concrete replay; "coq" = the Coq correspondence (random and/or exhaustive tree) also diverged:
  m1 erase() also clears the erased box's own links (prev=next=self)      oracle: next() never returns (Hang guard),
                                                                          replay new,step,remove 1,step ; coq
  m2 __iter__ reads box.next BEFORE yielding (eager successor)            oracle (flat + recursive) ; coq + tree
  m3 erase() forgets `next_.prev = prev`                                  oracle: reversed(g) wrong after
                                                                          remove,insert_before ; coq + tree
  m4 _insert_many_after does not thread the insertion point               oracle: insert_after(3,[1,2]) -> [3,2,1] ; coq
  m5 "same value -> no-op" rule removed from _insert_one_after            oracle: Function.sort() on one node loses it ; coq + tree
  m6 erase() points the erased box's next at the root                     oracle: iterator stops early after
                                                                          remove-current ; coq + tree
  m7 RecursiveGraphIterator iterates tuple(graph) (snapshot)              oracle_rec (at the time; the recursive Coq
                                                                          model was added afterwards, see below)
  m8 __reversed__ reads box.prev before yielding                          oracle: reversed iterator misses
                                                                          insert_before(current) ; coq + tree
  m9 moving a present value re-points its old box at the new place        oracle: after sort the iterator does not
     (iteration "follows" the moved node)                                 resume at the original successor ; coq + tree
Their shrunk witnesses are kept in corpus/C11/1x-*.json.  Unchanged tree: quick exits 0 for VERIF_SEED=0,1,2,3.
After the recursive Coq model was added: seeded/C11-m3 (reverse recursive traversal walks graph[::-1]) gives
VIOLATION replays from oracle_rec AND broken `correspondence:RecursiveGraphIterator-model` (3 diverging traces).
Deepening round: seeded C11-m1, -m3, -r2m3, -r3m3, -r4m1, -r4m2 re-evaluated with tools/seed_eval.py: all detected
with input; seeded C15-r4m1 (enter_graph once / exit_graph twice for GRAPHS attributes) gives a C11 replay
"exit_graph(5) but the open graphs are [0]" from the callback discipline of oracle_rec, and breaks `ragree`.
"""

from __future__ import annotations

import itertools
import json
import os
import random

from harness import common
from harness.common import REPO, cZ, clist, copt

SRC_LL = os.path.join(REPO, "src", "onnx_ir", "_linked_list.py")

# =========================================================================== schedules
#
# A schedule is JSON: {"kind": "dls"|"graph"|"function", "init": [h...], "deps": {h: [h...]} (graph kinds),
#                      "events": [[op, args...], ...]}
# ops:  ["new", fwd]            create an iterator (iter()/reversed()); cursor ids are creation order
#       ["step", i]             next() on iterator i
#       ["append", x] ["extend", [x..]] ["ins_after", a, [x..]] ["ins_before", a, [x..]] ["remove", x]
#       ["get", i] ["mem", x]
#       graph kinds only: ["sort"], ["remove_many", [x..]], ["ins_after1", a, x] / ["ins_before1", a, x]
#       (single Node argument instead of an iterable)
# elements are small positive integers (handles); the implementation side maps them to objects.

EDIT_OPS = ("append", "extend", "ins_after", "ins_before", "remove", "sort", "remove_many",
            "ins_after1", "ins_before1")


class _Elem:
    """A hashable value for DoublyLinkedSet (identity semantics, like ir.Node)."""
    __slots__ = ("h",)

    def __init__(self, h):
        self.h = h

    def __repr__(self):
        return f"E{self.h}"


class Impl:
    """Runs a schedule on the real code.  Public API only."""

    def __init__(self, kind: str, init, deps=None, universe=8):
        self.kind = kind
        self.iters = []
        if kind == "dls":
            from onnx_ir import _linked_list
            self.objs = {h: _Elem(h) for h in range(1, universe + 1)}
            self.c = _linked_list.DoublyLinkedSet([self.objs[h] for h in init])
        else:
            import onnx_ir as ir
            self.ir = ir
            self.objs = {}
            deps = deps or {}
            for h in range(1, universe + 1):
                ins = [self.objs[d].outputs[0] for d in deps.get(str(h), deps.get(h, [])) if d < h]
                self.objs[h] = ir.Node("", "Op", inputs=ins, num_outputs=1, name=f"n{h}")
            g = ir.Graph([], [], nodes=[self.objs[h] for h in init], name="g")
            self.graph = g
            if kind == "function":
                self.c = ir.Function("d", "f", graph=g, attributes=[])
            else:
                self.c = g
        self.back = {id(o): h for h, o in self.objs.items()}

    iter_args = False

    def args(self, xs):
        """the node-list argument of extend / insert_after / insert_before / remove: a list, or (schedule option
        "iter_args") a one-shot iterator, which the callee may consume only once"""
        if self.iter_args:
            return (self.objs[x] for x in xs)
        return [self.objs[x] for x in xs]

    def h(self, o):
        return self.back.get(id(o), 0)

    def snapshot(self):
        return ([self.h(o) for o in self.c], [self.h(o) for o in reversed(self.c)], len(self.c))

    def do(self, e):
        """-> ("ok", value|None) | ("raise", ExnName)"""
        op = e[0]
        O = self.objs
        c = self.c
        try:
            if op == "new":
                self.iters.append(iter(c) if e[1] else reversed(c))
                return ("ok", None)
            if op == "step":
                try:
                    return ("ok", self.h(next(self.iters[e[1]])))
                except StopIteration:
                    return ("ok", None)
            if op == "append":
                c.append(O[e[1]])
            elif op == "extend":
                c.extend(self.args(e[1]))
            elif op == "ins_after":
                c.insert_after(O[e[1]], self.args(e[2]))
            elif op == "ins_before":
                c.insert_before(O[e[1]], self.args(e[2]))
            elif op == "ins_after1":
                c.insert_after(O[e[1]], O[e[2]])
            elif op == "ins_before1":
                c.insert_before(O[e[1]], O[e[2]])
            elif op == "remove":
                c.remove(O[e[1]])
            elif op == "remove_many":
                c.remove(self.args(e[1]))
            elif op == "sort":
                c.sort()
            elif op == "get":
                return ("ok", self.h(c[e[1]]))
            elif op == "mem":
                return ("ok", 1 if O[e[1]] in c else 0)
            else:
                raise AssertionError(op)
            return ("ok", None)
        except Exception as ex:  # noqa: BLE001
            return ("raise", common.exn_name(ex))


class _Hang(BaseException):
    """an implementation call did not return (the property demands termination)"""


_ALARM_READY = False
HANGS = 0            # implementation calls that did not return, this run


class _limit:
    """Wall-clock limit for the implementation calls of ONE schedule (SIGALRM, main thread only): an iterator
    that never returns must become an observation, not a hung check."""

    def __init__(self, seconds=1.5):
        self.seconds = seconds

    def __enter__(self):
        import signal
        import threading
        global _ALARM_READY
        self.on = threading.current_thread() is threading.main_thread()
        if self.on:
            if not _ALARM_READY:
                def on_alarm(signum, frame):
                    raise _Hang()
                signal.signal(signal.SIGALRM, on_alarm)
                _ALARM_READY = True
            signal.setitimer(signal.ITIMER_REAL, self.seconds)
        return self

    def __exit__(self, *a):
        import signal
        if self.on:
            signal.setitimer(signal.ITIMER_REAL, 0)
        return False


def _journals(stack, n):
    """schedule option "journal": n nested active onnx_ir.journaling.Journal()s around the whole history
    (recording must observe without interfering with edits or running iterators)"""
    if n:
        from onnx_ir import journaling
        for _ in range(n):
            stack.enter_context(journaling.Journal())


def run_impl(sched: dict) -> list[dict]:
    import contextlib
    with contextlib.ExitStack() as stack:
        _journals(stack, sched.get("journal", 0))
        return _run_impl(sched)


def _run_impl(sched: dict) -> list[dict]:
    im = Impl(sched["kind"], sched["init"], sched.get("deps"), sched.get("universe", 8))
    im.iter_args = bool(sched.get("iter_args"))
    out = []
    for e in sched["events"]:
        try:
            with _limit():
                r = im.do(e)
                f, b, n = im.snapshot()
        except _Hang:
            global HANGS
            HANGS += 1
            out.append({"res": ["raise", "Hang"], "fwd": [], "bwd": [], "len": -1})
            break           # the structure cannot be observed any further
        except Exception as ex:  # noqa: BLE001  (snapshot itself failed: list()/len() raised)
            out.append({"res": ["raise", "Observer" + common.exn_name(ex)], "fwd": [], "bwd": [], "len": -1})
            break
        out.append({"res": list(r), "fwd": f, "bwd": b, "len": n})
    return out


# =========================================================================== plain-list specification / oracle

class SpecCursor:
    """Abstract cursor over the plain list specification: the elements it still has to yield (`fut`) and whether
    it is anchored on a live element / the list head (`anch`).  Exact: the statement fixes every yield
    ("resumes with the node that followed it at its original place" decides the gap of a removed current node:
    whatever is put there later is before the position).  `opt` is kept empty (older replays print it)."""

    def __init__(self, spec, fwd):
        self.spec, self.fwd = spec, fwd
        self.started = False
        self.done = False
        self.anch = True
        self.cur = None            # element anchored on (None + anch = list head / not started)
        self.fut = None            # fixed at the first next(): generator bodies start lazily
        self.opt = []

    def _view(self):
        return list(self.spec.l) if self.fwd else list(reversed(self.spec.l))

    def _materialise(self):
        if self.fut is None:
            self.fut = self._view()

    # ---- notifications from edits (before the plain list is changed)
    def on_remove(self, x):
        if self.fut is None or self.done:
            return
        if x in self.fut:
            self.fut.remove(x)
        if x in self.opt:
            self.opt.remove(x)
        if self.anch and self.cur == x:
            self.anch, self.cur, self.opt = False, None, []

    def on_insert(self, k, x):
        """x is about to be inserted at index k of spec.l"""
        if self.fut is None or self.done:
            return
        n = len(self.spec.l)
        kv = k if self.fwd else n - k
        j = n - len(self.fut)
        if self.anch:
            if kv >= j:
                self.fut.insert(kv - j, x)
        elif kv > j:
            # the current node was removed/moved: the position is the gap it left, iteration "resumes with the
            # node that followed it at its original place" (fut[0]); a node put into that gap (kv == j) or
            # earlier lies BEFORE the position and must never be yielded by this iterator
            self.fut.insert(kv - j, x)

    # ---- checking a step of the implementation
    def accepts(self, x):
        self._pre()
        return (not self.done) and ((self.fut and self.fut[0] == x) or x in self.opt)

    def exhausted(self):
        self._pre()
        return self.done or not self.fut

    def _pre(self):
        if not self.started:
            # a generator that has not started reads the head at its first next(): it behaves as anchored on the
            # list head with the whole current list as its future
            self.fut = self._view()
            self.anch, self.cur, self.opt = True, None, []

    def advance(self, x):
        self._pre()
        self.started = True
        if self.fut and self.fut[0] == x:
            self.fut.pop(0)
        else:
            i = self.opt.index(x)
            self.fut = self.opt[i + 1:] + self.fut
        self.opt, self.anch, self.cur = [], True, x

    def stop(self):
        self._pre()
        self.started = True
        self.done, self.fut, self.opt = True, [], []


class Spec:
    """The container as a plain Python list (no duplicates) with the documented edit semantics."""

    def __init__(self, init=()):
        self.l = []
        self.cursors = []
        for x in init:
            self.append(x)

    def _rm(self, x):
        for c in self.cursors:
            c.on_remove(x)
        self.l.remove(x)

    def _ins(self, k, x):
        for c in self.cursors:
            c.on_insert(k, x)
        self.l.insert(k, x)

    def _one(self, p, x):
        """insert x right after element p (None = at the front); returns the new anchor"""
        if p == x:
            return p
        if x in self.l:
            self._rm(x)
        self._ins(0 if p is None else self.l.index(p) + 1, x)
        return x

    def append(self, x):
        self._one(self.l[-1] if self.l else None, x)

    def extend(self, xs):
        for x in xs:
            self.append(x)

    def insert_after(self, a, xs):
        if a not in self.l:
            return False
        p = a
        for x in xs:
            p = self._one(p, x)
        return True

    def insert_before(self, a, xs):
        if a not in self.l:
            return False
        i = self.l.index(a)
        p = self.l[i - 1] if i > 0 else None
        for x in xs:
            p = self._one(p, x)
        return True

    def remove(self, x):
        if x not in self.l:
            return False
        self._rm(x)
        return True

    def new_cursor(self, fwd):
        c = SpecCursor(self, fwd)
        self.cursors.append(c)
        return c


def spec_sort(l, deps):
    """Order Graph.sort must produce on a flat graph: the stable topological order (reverse Kahn, always taking
    the ready node with the largest current index); producers outside the graph are ignored."""
    idx = {h: i for i, h in enumerate(l)}
    preds = {h: [d for d in deps.get(str(h), deps.get(h, [])) if d in idx and d < h] for h in l}
    depth = {h: 0 for h in l}
    for h in l:
        for d in preds[h]:
            depth[d] += 1
    ready = [h for h in l if depth[h] == 0]
    out = []
    while ready:
        h = max(ready, key=lambda z: idx[z])
        ready.remove(h)
        out.append(h)
        for d in preds[h]:
            depth[d] -= 1
            if depth[d] == 0:
                ready.append(d)
    assert len(out) == len(l)
    return list(reversed(out))


def oracle(sched: dict, obs: list[dict]) -> list[str]:
    """The property, clause by clause, against the plain list specification.  Returns failure messages
    (each prefixed by the event index)."""
    sp = Spec(sched["init"])
    deps = sched.get("deps") or {}
    bad = []
    for t, (e, o) in enumerate(zip(sched["events"], obs)):
        op = e[0]
        res = tuple(o["res"])
        ok_expected = True
        if op == "new":
            sp.new_cursor(bool(e[1]))
        elif op == "step":
            c = sp.cursors[e[1]]
            if res[0] != "ok":
                bad.append(f"{t}: next() raised {res[1]} (iteration must terminate without error)")
            elif res[1] is None:
                if not c.exhausted():
                    bad.append(f"{t}: iterator {e[1]} stopped but must still yield {c.fut}")
                c.stop()
            else:
                x = res[1]
                if x not in sp.l:
                    bad.append(f"{t}: iterator {e[1]} yielded {x} which is not in the graph {sp.l}")
                if c.accepts(x):
                    c.advance(x)
                else:
                    c._pre()
                    bad.append(f"{t}: iterator {e[1]} yielded {x}; required next {c.fut[:1]} (optional {c.opt})"
                               + (" after StopIteration" if c.done else ""))
                    # resynchronise on the observed behaviour to keep later messages meaningful
                    if x in c.fut:
                        c.fut = c.fut[c.fut.index(x) + 1:]
                    c.started, c.opt, c.anch, c.cur = True, [], True, x
        elif op == "append":
            sp.append(e[1])
        elif op == "extend":
            sp.extend(e[1])
        elif op in ("ins_after", "ins_after1"):
            ok_expected = sp.insert_after(e[1], e[2] if op == "ins_after" else [e[2]])
        elif op in ("ins_before", "ins_before1"):
            ok_expected = sp.insert_before(e[1], e[2] if op == "ins_before" else [e[2]])
        elif op == "remove":
            ok_expected = sp.remove(e[1])
        elif op == "remove_many":
            if all(x in sp.l for x in e[1]):
                for x in dict.fromkeys(e[1]):
                    sp.remove(x)
            else:
                ok_expected = False
        elif op == "sort":
            sp.extend(spec_sort(sp.l, deps))
        elif op == "get":
            i = e[1]
            if -len(sp.l) <= i < len(sp.l):
                if res != ("ok", sp.l[i]):
                    bad.append(f"{t}: g[{i}] = {res}, current sequence {sp.l}")
            elif res[0] != "raise":
                bad.append(f"{t}: g[{i}] returned {res} for a sequence of length {len(sp.l)}")
        elif op == "mem":
            if res != ("ok", 1 if e[1] in sp.l else 0):
                bad.append(f"{t}: ({e[1]} in g) = {res}, current sequence {sp.l}")
        if op in EDIT_OPS:
            if ok_expected and res[0] != "ok":
                bad.append(f"{t}: {e} raised {res[1]} on a valid request")
            if not ok_expected and res[0] != "raise":
                bad.append(f"{t}: {e} must be rejected (anchor/element not in the graph)")
        if o["fwd"] != sp.l or o["bwd"] != sp.l[::-1] or o["len"] != len(sp.l):
            bad.append(f"{t}: after {e}: list={o['fwd']} reversed={o['bwd']} len={o['len']}; "
                       f"plain-list specification {sp.l}")
            # resynchronise the spec on the observed list to avoid a cascade
            sp.l = list(o["fwd"])
    return bad


# =========================================================================== Coq case printing

def _n(x):
    return str(int(x))


def _nl(xs):
    return "[" + ";".join(_n(x) for x in xs) + "]"


def model_events(sched, obs):
    """Translate a schedule to model events [(coq_ev_text, obs|None)] (Graph-level composites are unfolded)."""
    out = []
    sp = Spec(sched["init"])  # only to unfold sort / remove_many into list-level edits
    deps = sched.get("deps") or {}
    for e, o in zip(sched["events"], obs):
        op = e[0]
        if op == "new":
            out.append((f"ENew {'true' if e[1] else 'false'}", o))
        elif op == "step":
            out.append((f"EStep {e[1]}", o))
        elif op == "append":
            out.append((f"EEdit (Append {e[1]})", o))
        elif op == "extend":
            out.append((f"EEdit (Extend {_nl(e[1])})", o))
        elif op in ("ins_after", "ins_after1"):
            xs = e[2] if op == "ins_after" else [e[2]]
            out.append((f"EEdit (InsAfter {e[1]} {_nl(xs)})", o))
        elif op in ("ins_before", "ins_before1"):
            xs = e[2] if op == "ins_before" else [e[2]]
            out.append((f"EEdit (InsBefore {e[1]} {_nl(xs)})", o))
        elif op == "remove":
            out.append((f"EEdit (Remove {e[1]})", o))
        elif op == "remove_many":
            xs = list(dict.fromkeys(e[1]))
            if all(x in o_prev_list(out, sched) for x in xs) and xs:
                for x in xs[:-1]:
                    out.append((f"EEdit (Remove {x})", None))
                out.append((f"EEdit (Remove {xs[-1]})", o))
            elif not xs:
                out.append(("EEdit (Extend [])", o))
            else:
                # rejected before any mutation: Remove of an absent element has the same model behaviour
                absent = next(x for x in xs if x not in o_prev_list(out, sched))
                out.append((f"EEdit (Remove {absent})", o))
        elif op == "sort":
            cur = o_prev_list(out, sched)
            out.append((f"EEdit (Extend {_nl(spec_sort(cur, deps))})", o))
        elif op == "get":
            out.append((f"EGet {cZ(e[1])}", o))
        elif op == "mem":
            out.append((f"EMem {e[1]}", o))
        else:
            raise AssertionError(op)
    del sp
    return out


def o_prev_list(out, sched):
    """the implementation's list before the current event (last recorded observation)"""
    for _, o in reversed(out):
        if o is not None:
            return o["fwd"]
    return list(dict.fromkeys(sched["init"])) if sched["init"] else []


def obs_args(o):
    r = o["res"]
    if r[0] == "ok":
        rt = "RN" if r[1] is None else f"(RY {r[1]})"
    else:
        rt = f"(RE {r[1] if r[1] in common._EXN_NAMES else 'OtherError'})"
    return f"{rt} {_nl(o['fwd'])} {_nl(o['bwd'])} {max(0, o['len'])}"


def case_term(sched, obs):
    evs = model_events(sched, obs)
    body = ";\n   ".join(f"EV ({t}) {'NO' if o is None else '(SO ' + obs_args(o) + ')'}" for t, o in evs)
    return f"CASE {_nl(sched['init'])}\n  [{body}]"


CASE_HEADER = """From Coq Require Import List ZArith Bool.
From IRV Require Import Base.Exn C11.Model C11.Heap Gen.C11Gen C11.HeapRun.
Import ListNotations.
"""


def generate(ck) -> bool:
    """Per-run translation of _linked_list.py into Gen/C11Gen.v (fail-closed)."""
    from harness.props import _c11_translate as T
    try:
        text = T.translate(SRC_LL)
    except (T.Unsupported, SyntaxError, OSError) as e:
        ck.gen_failed("C11Gen", e)
        return False
    ck.gen("C11Gen", text)
    return True


def cases_file(cases) -> str:
    return (CASE_HEADER + "Definition cases : list (list elt * list (ev * option obs)) :=\n ["
            + ";\n ".join(case_term(s, o) for s, o in cases) + "].\n"
            "Eval vm_compute in (failing agree cases ++ map (fun i => 100000 + i) (failing hagree cases)).\n")


# =========================================================================== generators

def _sim_step(c):
    """advance a specification cursor the way the model does (used only to aim the generator)"""
    c._pre()
    if not c.done and c.fut:
        c.advance(c.fut[0])
    else:
        c.stop()


def gen_schedule(rng, kind, steps, ncur, universe=6):
    """State-aware random schedule: arguments are aimed at the current / next / previous node of some
    iterator about half of the time, so that chains such as "remove the current node, then its successor,
    then re-insert it" are frequent."""
    init_n = rng.randrange(0, universe + 1)
    init = rng.sample(range(1, universe + 1), init_n)
    if kind == "dls" and rng.random() < 0.15 and init:
        init.append(rng.choice(init))      # duplicates in the constructor argument
    deps = {}
    if kind != "dls":
        for h in range(2, universe + 1):
            deps[str(h)] = sorted(rng.sample(range(1, h), rng.randrange(0, min(3, h))))
    sp = Spec(init)
    tainted = set()       # graph kinds: nodes whose .graph was set by a rejected insert (C01/C06 leak), not in list
    events = []

    def el():
        if sp.cursors and rng.random() < 0.55:
            c = rng.choice(sp.cursors)
            cands = []
            if c.cur is not None:
                cands += [c.cur, c.cur]
                if c.cur in sp.l:
                    i = sp.l.index(c.cur)
                    cands += [sp.l[j] for j in (i - 1, i + 1) if 0 <= j < len(sp.l)]
            if c.fut:
                cands += c.fut[:2]
            if cands:
                return rng.choice(cands)
        return rng.randrange(1, universe + 1)

    def els():
        return [el() for _ in range(rng.choice([0, 1, 1, 1, 2, 2, 3, 4]))]

    while len(events) < steps:
        r = rng.random()
        ncs = len(sp.cursors)
        if ncs < ncur and (ncs == 0 or r < 0.06):
            e = ["new", rng.random() < 0.6]
        elif r < 0.42:
            e = ["step", rng.randrange(ncs)]
        elif r < 0.54:
            e = ["remove", el()]
        elif r < 0.62:
            e = ["append", el()]
        elif r < 0.66:
            e = ["extend", els()]
        elif r < 0.76:
            e = ["ins_after", el(), els()]
        elif r < 0.86:
            e = ["ins_before", el(), els()]
        elif r < 0.90:
            e = ["get", rng.randrange(-len(sp.l) - 2, len(sp.l) + 2)]
        elif r < 0.92:
            e = ["mem", el()]
        elif kind == "dls":
            e = ["step", rng.randrange(ncs)]
        else:
            q = rng.random()
            if q < 0.3:
                e = ["sort"]
            elif q < 0.5:
                xs = [x for x in els() if x in sp.l or x not in tainted]
                e = ["remove_many", xs]
            elif q < 0.75:
                e = ["ins_after1", el(), el()]
            else:
                e = ["ins_before1", el(), el()]
        # keep the specification in step (only to aim later choices)
        op = e[0]
        if op == "new":
            sp.new_cursor(bool(e[1]))
        elif op == "step":
            _sim_step(sp.cursors[e[1]])
        elif op == "append":
            sp.append(e[1])
            tainted.discard(e[1])
        elif op == "extend":
            sp.extend(e[1])
            tainted.difference_update(e[1])
        elif op in ("ins_after", "ins_before", "ins_after1", "ins_before1"):
            xs = e[2] if isinstance(e[2], list) else [e[2]]
            ok = (sp.insert_after if "after" in op else sp.insert_before)(e[1], xs)
            if ok:
                tainted.difference_update(xs)
            else:
                tainted.update(x for x in xs if x not in sp.l)
        elif op == "remove":
            sp.remove(e[1])
            tainted.discard(e[1])
        elif op == "remove_many":
            if all(x in sp.l for x in e[1]):
                for x in dict.fromkeys(e[1]):
                    sp.remove(x)
        elif op == "sort":
            sp.extend(spec_sort(sp.l, deps))
        events.append(e)
    return {"kind": kind, "init": init, "deps": deps, "universe": universe, "events": events,
            "journal": rng.choice([0, 0, 0, 1, 1, 2]) if kind != "dls" else 0,
            "iter_args": rng.random() < 0.4}


def alphabet(elems):
    """event alphabet of the exhaustive small scopes (two iterators exist from the start)"""
    evs = [["step", 0], ["step", 1]]
    evs += [["remove", x] for x in elems]
    evs += [["append", x] for x in elems]
    evs += [["ins_after", a, [x]] for a in elems for x in elems]
    evs += [["ins_before", a, [x]] for a in elems for x in elems]
    return evs


# =========================================================================== recursive iteration (nested graphs)
#
# Fixed nesting (node handle -> graphs it carries):  graph 0 holds nodes 1..5; node 1 has GRAPH attributes g1, g2;
# node 2 has a GRAPHS attribute [g4, g5]; graph 1 holds nodes 11..13 and node 11 has a GRAPH attribute g3.
# Every node only ever lives in the graph of its pool, so edits never hit the ownership checks of C01.
REC_POOLS = {0: [1, 2, 3, 4, 5], 1: [11, 12, 13], 2: [21, 22], 3: [31, 32], 4: [41], 5: [51, 52]}


REC_PARENT = {1: 0, 2: 0, 4: 0, 5: 0, 3: 1}     # graph -> graph of the node that carries it


def rnew_opts(e):
    """["rnew", fwd] or ["rnew", fwd, {"stop": [nodes where recursive(node) is False] | None, "via": how}]
    via: ctor (callbacks) | ctor_nocb | all_nodes | function_all_nodes (forward, no predicate, no callbacks) |
         reversed_of (reversed(RecursiveGraphIterator(..., reverse=fwd))) | function (traversal of ir.Function)"""
    o = e[2] if len(e) > 2 else {}
    return bool(e[1]), o.get("stop"), o.get("via", "ctor")


def rec_subs(x, fwd):
    if x == 1:
        return [1, 2]
    if x == 11:
        return [3]
    if x == 2:
        return [4, 5] if fwd else [5, 4]
    return []


class RecImpl:
    def __init__(self, inits):
        import onnx_ir as ir
        from onnx_ir.traversal import RecursiveGraphIterator
        self.RGI = RecursiveGraphIterator
        self.objs, self.graphs, self.iters = {}, {}, []
        mk = lambda h, attrs=(): ir.Node("", "If" if attrs else "Op", [], attributes=list(attrs),  # noqa: E731
                                         num_outputs=1, name=f"n{h}")
        for gid in (3, 2, 4, 5):
            for h in REC_POOLS[gid]:
                self.objs[h] = mk(h)
        G = lambda gid: ir.Graph([], [], nodes=[self.objs[h] for h in inits[str(gid)]], name=f"g{gid}")  # noqa: E731
        for gid in (3, 2, 4, 5):
            self.graphs[gid] = G(gid)
        self.objs[11] = mk(11, [ir.AttrGraph("body", self.graphs[3])])
        self.objs[12], self.objs[13] = mk(12), mk(13)
        self.graphs[1] = G(1)
        self.objs[1] = mk(1, [ir.AttrGraph("then_branch", self.graphs[1]), ir.AttrGraph("else_branch", self.graphs[2])])
        self.objs[2] = mk(2, [ir.AttrGraphs("branches", [self.graphs[4], self.graphs[5]])])
        for h in (3, 4, 5):
            self.objs[h] = mk(h)
        self.graphs[0] = G(0)
        self.back = {id(o): h for h, o in self.objs.items()}
        self.gback = {id(g): k for k, g in self.graphs.items()}
        self.func = ir.Function("d", "f", graph=self.graphs[0], attributes=[])
        self.gback[id(self.func)] = 0          # callbacks of a traversal over the Function get the Function
        self.cbs = []           # trace of the current event: 3*gid enter_graph, 3*gid+1 exit_graph, 3*node+2 recursive(node)

    iter_args = False

    def args(self, xs):
        if self.iter_args:
            return (self.objs[x] for x in xs)
        return [self.objs[x] for x in xs]

    def do(self, e):
        O, op = self.objs, e[0]
        self.cbs = []
        try:
            if op == "rnew":
                fwd, stop, via = rnew_opts(e)
                kw = {}
                if stop is not None:
                    def pred(node, stop=frozenset(stop)):
                        h = self.back[id(node)]
                        self.cbs.append(3 * h + 2)
                        return h not in stop
                    kw["recursive"] = pred
                if via in ("ctor", "reversed_of", "function"):
                    kw["enter_graph"] = lambda g: self.cbs.append(3 * self.gback[id(g)])
                    kw["exit_graph"] = lambda g: self.cbs.append(3 * self.gback[id(g)] + 1)
                top = self.func if via in ("function", "function_all_nodes") else self.graphs[0]
                if via in ("all_nodes", "function_all_nodes"):
                    it = top.all_nodes()
                elif via == "reversed_of":
                    it = reversed(self.RGI(top, reverse=fwd, **kw))
                else:
                    it = self.RGI(top, reverse=not fwd, **kw)
                self.iters.append(it)
                return ("ok", None)
            if op == "fnew":
                g = self.graphs[e[1]]
                self.iters.append(iter(g) if e[2] else reversed(g))
                return ("ok", None)
            if op == "step":
                try:
                    return ("ok", self.back[id(next(self.iters[e[1]]))])
                except StopIteration:
                    return ("ok", None)
            if op == "restart":          # iter(it): RecursiveGraphIterator.__iter__ starts over; a generator returns itself
                self.iters[e[1]] = iter(self.iters[e[1]])
                return ("ok", None)
            g, sub = self.graphs[e[1]], e[2]
            if sub == "append":
                g.append(O[e[3]])
            elif sub == "remove":
                g.remove(O[e[3]])
            elif sub == "ins_after":
                g.insert_after(O[e[3]], self.args(e[4]))
            elif sub == "ins_before":
                g.insert_before(O[e[3]], self.args(e[4]))
            else:
                raise AssertionError(e)
            return ("ok", None)
        except Exception as ex:  # noqa: BLE001
            return ("raise", common.exn_name(ex))

    def snapshot(self):
        return {str(k): [self.back[id(n)] for n in g] for k, g in self.graphs.items()}


def run_rec(sched):
    import contextlib
    with contextlib.ExitStack() as stack:
        _journals(stack, sched.get("journal", 0))
        return _run_rec(sched)


def _run_rec(sched):
    im = RecImpl(sched["inits"])
    im.iter_args = bool(sched.get("iter_args"))
    out = []
    for e in sched["events"]:
        try:
            with _limit():
                r = im.do(e)
                snap = im.snapshot()
            out.append({"res": list(r), "lists": snap, "cbs": list(im.cbs)})
        except _Hang:
            global HANGS
            HANGS += 1
            out.append({"res": ["raise", "Hang"], "lists": {str(g): [] for g in REC_POOLS}, "cbs": []})
            break
        except Exception as ex:  # noqa: BLE001
            out.append({"res": ["raise", "Observer" + common.exn_name(ex)], "lists": {str(g): [] for g in REC_POOLS},
                        "cbs": []})
            break
    return out


def oracle_rec(sched, obs):
    specs = {gid: Spec(sched["inits"][str(gid)]) for gid in REC_POOLS}
    iters = []       # ("flat", cursor) | ("rec", fwd, stack)   stack frames: [gid, cursor, pending gids]
    bad = []
    for t, (e, o) in enumerate(zip(sched["events"], obs)):
        op, res = e[0], tuple(o["res"])
        if op == "rnew":
            fwd_, stop_, via_ = rnew_opts(e)
            iters.append(["rec", fwd_, [[0, specs[0].new_cursor(fwd_), []]],
                          {"stop": stop_, "cb": via_ in ("ctor", "reversed_of", "function"), "open": [], "last": None,
                           "asked": True, "started": False}])
        elif op == "fnew":
            iters.append(["flat", specs[e[1]].new_cursor(bool(e[2]))])
        elif op == "restart":
            it = iters[e[1]]
            if res[0] != "ok":
                bad.append(f"{t}: iter(it) raised {res[1]}")
            if it[0] == "rec":       # a new traversal of the top graph; the abandoned one owes no more callbacks
                it[2] = [[0, specs[0].new_cursor(it[1]), []]]
                it[3].update({"open": [], "last": None, "asked": True, "started": False})
        elif op == "step":
            it = iters[e[1]]
            if res[0] != "ok":
                bad.append(f"{t}: next() raised {res[1]}")
                continue
            x = res[1]
            if it[0] == "flat":
                c = it[1]
                if x is None:
                    if not c.exhausted():
                        bad.append(f"{t}: flat iterator stopped, must still yield {c.fut}")
                    c.stop()
                elif c.accepts(x):
                    c.advance(x)
                else:
                    bad.append(f"{t}: flat iterator yielded {x}, required {c.fut[:1]}")
                    c.started, c.opt, c.anch, c.cur = True, [], True, x
                continue
            fwd, stack = it[1], it[2]
            info = it[3]
            # ---- callbacks observed during this next(): balanced, properly nested, predicate asked once per node
            for code in o.get("cbs", []):
                k, z = code % 3, code // 3
                if k == 2:
                    if info["stop"] is None or info["asked"] or z != info["last"]:
                        bad.append(f"{t}: recursive({z}) called; last yielded node {info['last']}, already asked={info['asked']}")
                    info["asked"] = True
                elif not info["cb"]:
                    bad.append(f"{t}: callback {code} although none was installed")
                elif k == 0:
                    if not info["open"]:
                        if z != 0 or info["started"]:
                            bad.append(f"{t}: enter_graph({z}) with no graph open")
                    elif info["open"][-1] not in (z, REC_PARENT.get(z)):
                        bad.append(f"{t}: enter_graph({z}) while graph {info['open'][-1]} is open: not a subgraph of it")
                    info["open"].append(z)
                    info["started"] = True
                else:
                    if not info["open"] or info["open"][-1] != z:
                        bad.append(f"{t}: exit_graph({z}) but the open graphs are {info['open']} (not properly nested)")
                    else:
                        info["open"].pop()
            if info["stop"] is not None and info["last"] is not None and not info["asked"]:
                bad.append(f"{t}: recursive({info['last']}) was not called when the iterator resumed")
            if x is None:
                if info["cb"] and info["open"]:
                    bad.append(f"{t}: traversal ended with graphs still open {info['open']} (exit_graph missing)")
                info["last"], info["asked"] = None, True
            else:
                info["last"], info["asked"] = x, False
            verdict = None
            while stack:
                fr = stack[-1]
                if fr[2]:
                    gid = fr[2].pop(0)
                    stack.append([gid, specs[gid].new_cursor(fwd), []])
                    continue
                c = fr[1]
                if x is not None and c.accepts(x):
                    c.advance(x)
                    fr[2] = [] if (info["stop"] is not None and x in info["stop"]) else list(rec_subs(x, fwd))
                    verdict = "ok"
                    break
                if c.exhausted():
                    c.stop()
                    stack.pop()
                    continue
                verdict = f"{t}: recursive iterator yielded {x}; graph {fr[0]} must next yield {c.fut[:1]} (optional {c.opt})"
                break
            if verdict is None:
                verdict = "ok" if x is None else f"{t}: recursive iterator yielded {x} after the traversal was complete"
            if verdict != "ok":
                bad.append(verdict)
                it[2] = []      # give up on this iterator
            elif x is not None and not any(x in sp.l for sp in specs.values()):
                bad.append(f"{t}: recursive iterator yielded {x} which is in no graph")
        else:
            sp, sub = specs[e[1]], e[2]
            ok = True
            if sub == "append":
                sp.append(e[3])
            elif sub == "remove":
                ok = sp.remove(e[3])
            elif sub == "ins_after":
                ok = sp.insert_after(e[3], e[4])
            elif sub == "ins_before":
                ok = sp.insert_before(e[3], e[4])
            if ok and res[0] != "ok":
                bad.append(f"{t}: {e} raised {res[1]} on a valid request")
            if not ok and res[0] != "raise":
                bad.append(f"{t}: {e} must be rejected")
        for gid, sp in specs.items():
            if o["lists"][str(gid)] != sp.l:
                bad.append(f"{t}: after {e}: graph {gid} = {o['lists'][str(gid)]}, plain-list specification {sp.l}")
                sp.l = list(o["lists"][str(gid)])
    return bad


def gen_rec(rng, steps):
    inits = {str(g): rng.sample(p, rng.randrange(0, len(p) + 1)) for g, p in REC_POOLS.items()}
    if rng.random() < 0.8:       # usually keep the nesting reachable
        for g, need in ((0, [1, 2]), (1, [11])):
            for h in need:
                if h not in inits[str(g)]:
                    inits[str(g)].insert(rng.randrange(len(inits[str(g)]) + 1), h)
    events, n = [], 0
    while len(events) < steps:
        r = rng.random()
        if n < 3 and (n == 0 or r < 0.05):
            if rng.random() < 0.8:
                via = rng.choice(["ctor", "ctor", "ctor", "ctor_nocb", "all_nodes", "function_all_nodes",
                                  "reversed_of", "function"])
                if via in ("all_nodes", "function_all_nodes"):
                    events.append(["rnew", True, {"stop": None, "via": via}])
                else:
                    stop = None
                    if rng.random() < 0.5:
                        stop = sorted(rng.sample([1, 2, 11, 3, 12, 21], rng.randrange(0, 4)))
                    events.append(["rnew", rng.random() < 0.6, {"stop": stop, "via": via}])
            else:
                events.append(["fnew", rng.choice(list(REC_POOLS)), rng.random() < 0.5])
            n += 1
        elif r < 0.5:
            events.append(["step", rng.randrange(n)])
        elif r < 0.53:
            events.append(["restart", rng.randrange(n)])
        else:
            gid = rng.choice([0, 0, 1, 1, 2, 3, 4, 5])
            pool = REC_POOLS[gid]
            q = rng.random()
            xs = [rng.choice(pool) for _ in range(rng.choice([1, 1, 2]))]
            if q < 0.3:
                events.append(["ed", gid, "remove", rng.choice(pool)])
            elif q < 0.5:
                events.append(["ed", gid, "append", rng.choice(pool)])
            elif q < 0.75:
                events.append(["ed", gid, "ins_after", rng.choice(pool), xs])
            else:
                events.append(["ed", gid, "ins_before", rng.choice(pool), xs])
    return {"kind": "rec", "inits": inits, "events": events,
            "journal": rng.choice([0, 0, 0, 1, 2]), "iter_args": rng.random() < 0.4}


REC_SUBS_F = "[(1,[1;2]);(11,[3]);(2,[4;5])]"
REC_SUBS_B = "[(1,[1;2]);(11,[3]);(2,[5;4])]"


def rec_case_term(sched, obs):
    rows = []
    for e, o in zip(sched["events"], obs):
        op = e[0]
        if op == "rnew":
            fwd_, stop_, via_ = rnew_opts(e)
            ev = (f"RNew {'true' if fwd_ else 'false'} {'None' if stop_ is None else '(Some ' + _nl(stop_) + ')'} "
                  f"{'true' if via_ in ('ctor', 'reversed_of', 'function') else 'false'}")
        elif op == "fnew":
            ev = f"FNew {e[1]} {'true' if e[2] else 'false'}"
        elif op == "step":
            ev = f"RStep {e[1]}"
        elif op == "restart":
            ev = f"RRestart {e[1]}"
        else:
            g, sub = e[1], e[2]
            ed = {"append": lambda: f"Append {e[3]}", "remove": lambda: f"Remove {e[3]}",
                  "ins_after": lambda: f"InsAfter {e[3]} {_nl(e[4])}",
                  "ins_before": lambda: f"InsBefore {e[3]} {_nl(e[4])}"}[sub]()
            ev = f"REdit {g} ({ed})"
        r = o["res"]
        if r[0] == "ok":
            rt = "RN" if r[1] is None else f"(RY {r[1]})"
        else:
            rt = f"(RE {r[1] if r[1] in common._EXN_NAMES else 'OtherError'})"
        ls = "[" + ";".join(_nl(o["lists"][str(g)]) for g in sorted(REC_POOLS)) + "]"
        rows.append(f"REV ({ev}) {rt} {_nl(o.get('cbs', []))} {ls}")
    inits = "[" + ";".join(_nl(sched["inits"][str(g)]) for g in sorted(REC_POOLS)) + "]"
    return f"RCASE {REC_SUBS_F} {REC_SUBS_B} {inits}\n  [" + ";\n   ".join(rows) + "]"


def rec_cases_file(cases) -> str:
    return (CASE_HEADER + "Definition cases := [\n " + ";\n ".join(rec_case_term(s, o) for s, o in cases)
            + "].\nEval vm_compute in (failing ragree cases).\n")


# =========================================================================== running, shrinking, reporting

def run_any(sched):
    return run_rec(sched) if sched["kind"] == "rec" else run_impl(sched)


def check_any(sched):
    """-> (observations, oracle failures); an exception of the machinery counts as a failure"""
    obs = run_any(sched)
    return obs, (oracle_rec(sched, obs) if sched["kind"] == "rec" else oracle(sched, obs))


def _valid(sched):
    """events must refer to iterators created earlier"""
    n = 0
    for e in sched["events"]:
        if e[0] in ("new", "rnew", "fnew"):
            n += 1
        elif e[0] in ("step", "restart") and e[1] >= n:
            return False
    return True


def shrink(sched):
    """delta-debugging on the event list while the oracle still fails"""
    def fails(s):
        if not _valid(s):
            return False
        try:
            return bool(check_any(s)[1])
        except Exception:  # noqa: BLE001
            return False
    cur = json.loads(json.dumps(sched))
    # cut the tail after the first failure
    _, bad = check_any(cur)
    if bad:
        t = int(bad[0].split(":")[0])
        cur["events"] = cur["events"][:t + 1]
    changed = True
    while changed:
        changed = False
        for i in range(len(cur["events"]) - 1, -1, -1):
            c2 = dict(cur, events=cur["events"][:i] + cur["events"][i + 1:])
            # dropping a cursor creation shifts later cursor ids: renumber
            if cur["events"][i][0] in ("new", "rnew", "fnew"):
                k = sum(1 for e in cur["events"][:i] if e[0] in ("new", "rnew", "fnew"))
                ev2 = []
                for e in c2["events"]:
                    if e[0] in ("step", "restart"):
                        if e[1] == k:
                            continue
                        e = [e[0], e[1] - 1] if e[1] > k else e
                    ev2.append(e)
                c2["events"] = ev2
            if fails(c2):
                cur, changed = c2, True
        for key, val in (("journal", 0), ("journal", 1), ("iter_args", False)):
            if cur.get(key) and cur.get(key) != val:
                c2 = dict(cur, **{key: val})
                if fails(c2):
                    cur, changed = c2, True
        if cur["kind"] != "rec":
            for i in range(len(cur["init"]) - 1, -1, -1):
                c2 = dict(cur, init=cur["init"][:i] + cur["init"][i + 1:])
                if fails(c2):
                    cur, changed = c2, True
        for i, e in enumerate(cur["events"]):
            for j, a in enumerate(e):
                if isinstance(a, list) and len(a) > 1:
                    for k in range(len(a)):
                        e2 = list(e)
                        e2[j] = a[:k] + a[k + 1:]
                        c2 = dict(cur, events=cur["events"][:i] + [e2] + cur["events"][i + 1:])
                        if fails(c2):
                            cur, changed = c2, True
                            break
    return cur


def report(ck, sched, why, seen):
    obs, bad = check_any(sched)
    if not bad:
        return False
    small = shrink(sched)
    obs, bad = check_any(small)
    sig = (small["kind"], tuple(e[0] for e in small["events"]))
    if sig in seen:
        return True
    seen.add(sig)
    ck.violation({"kind": why, "schedule": small, "failures": bad,
                  "observed": obs[-1] if obs else None, "broken": ck.broken_items})
    return True


# --------------------------------------------------------------------------- exhaustive small scopes

def tree_files(init, cursors, depth, elems):
    """One Coq file per first event: the full tree of schedules of `depth` events over `elems`, two iterators
    created up front, every edge carrying the implementation's observation."""
    A = alphabet(elems)
    pre = [["new", f] for f in cursors]
    files, count = [], 0

    def obs_of(path):
        s = {"kind": "dls", "init": init, "universe": max(elems), "events": pre + path}
        return run_impl(s)[-1]

    def coq_ev(e):
        s = {"kind": "dls", "init": init, "events": [e]}
        return model_events(s, [{"fwd": []}])[0][0]

    def build(path, d):
        nonlocal count
        kids = []
        for e in A:
            p2 = path + [e]
            o = obs_of(p2)
            count += 1
            sub = build(p2, d - 1) if d > 1 else "T []"
            kids.append(f"TE ({coq_ev(e)}) (OB {obs_args(o)}) ({sub})")
        return "T [" + ";\n".join(kids) + "]"

    for i, e in enumerate(A):
        o = obs_of([e])
        count += 1
        sub = build([e], depth - 1) if depth > 1 else "T []"
        text = (CASE_HEADER + f"Definition t : tcase := T [TE ({coq_ev(e)}) (OB {obs_args(o)}) ({sub})].\n"
                f"Eval vm_compute in (match tree_fail {_nl(init)} {clist('true' if f else 'false' for f in cursors)} t with\n"
                f"  | [] => map (fun i => 100000 + i) (htree_fail {_nl(init)} {clist('true' if f else 'false' for f in cursors)} t)\n"
                f"  | p => p end).\n")
        files.append((f"tree_{len(init)}_{''.join('f' if f else 'b' for f in cursors)}_{i}", text, e))
    return files, count


def path_of(fail_path, first, elems):
    """decode a first_fail path (1-based child indices; the root has one child) into events"""
    A = alphabet(elems)
    return [first] + [A[k - 1] for k in fail_path[1:]]


def exhaustive_oracle(ck, init, cursors, depth, elems, seen, budget_s):
    import time
    A = alphabet(elems)
    pre = [["new", f] for f in cursors]
    t0 = time.time()
    n = 0
    for path in itertools.product(A, repeat=depth):
        s = {"kind": "dls", "init": init, "universe": max(elems), "events": pre + [list(e) for e in path]}
        obs = run_impl(s)
        n += 1
        if oracle(s, obs):
            report(ck, s, "oracle-exhaustive", seen)
            if len(ck.violations) >= 3 or HANGS >= 3:
                break
        if n % 4096 == 0 and time.time() - t0 > budget_s:
            ck.notes.append(f"exhaustive oracle scope init={init} depth={depth} stopped after {n} schedules (time budget)")
            break
    return n


# --------------------------------------------------------------------------- main

def load_corpus():
    d = os.path.join(common.CORPUS, "C11")
    out = []
    if os.path.isdir(d):
        for fn in sorted(os.listdir(d)):
            if fn.endswith(".json"):
                with open(os.path.join(d, fn)) as f:
                    out.append(json.load(f))
    return out


def coq_compare(ck, cases, tag, printer=None):
    """-> list of (sched, obs) whose trace the Coq model does not reproduce"""
    printer = printer or cases_file
    chunks = [cases[i:i + 25] for i in range(0, len(cases), 25)]
    texts = [(f"{tag}_{i}", printer(ch)) for i, ch in enumerate(chunks)]
    res = ck.coq_eval_many(texts, timeout=900)
    out = []
    for (name, _), (rc, o), ch in zip(texts, res, chunks):
        if rc != 0:
            raise RuntimeError(f"case file {name} did not compile:\n{o[-2000:]}")
        seen_idx = set()
        for i in common.parse_nat_list(o):
            # index >= 100000: the TRANSLATED code (Gen/C11Gen.v on the box heap) diverges; below: the hand model
            WHICH.setdefault(id(ch[i % 100000][0]), set()).add("translated-code" if i >= 100000 else "hand-model")
            if i % 100000 not in seen_idx:
                seen_idx.add(i % 100000)
                out.append(ch[i % 100000])
    return out


WHICH: dict = {}


def first_divergence(ck, sched, obs):
    """shortest prefix of the schedule the model does not reproduce (for the report)"""
    lo, hi = 1, len(sched["events"])
    printer = rec_cases_file if sched["kind"] == "rec" else cases_file
    while lo < hi:
        mid = (lo + hi) // 2
        s2 = dict(sched, events=sched["events"][:mid])
        if ck.coq_failing(printer([(s2, obs[:mid])]), "bisect"):
            hi = mid
        else:
            lo = mid + 1
    return lo


def run(ck) -> None:
    import logging
    import time
    logging.disable(logging.WARNING)
    ck.trust("Coq 8.16.1 kernel (coqc; vm_compute in case files; no native_compute)",
             "harness/props/c11.py: schedule generators, the runner of the real DoublyLinkedSet / ir.Graph / "
             "ir.Function / RecursiveGraphIterator, the Coq literal printer, the translation of Graph.sort / "
             "Graph.remove(iterable) into list-level edits (spec_sort)",
             "harness/props/_c11_translate.py (fail-closed ast->Gallina translator of _linked_list.py; its output is "
             "proved to refine C11/Model.v and is also run on every case file against the implementation)",
             "hand-written model C11/Model.v: tied to the translated pointer code by the refinement theorems, to the "
             "implementation by correspondence",
             "modelled not verified: CPython generator semantics (Fresh/Parked/Done, b.next read at resume time, "
             "yield from = a stack of generators); RecursiveGraphIterator.__iter__ (restart) is outside the model, "
             "node attributes and the `recursive` predicate are fixed during a schedule; Graph.sort order (C12) "
             "enters as the permutation passed to extend")
    ck.assumptions += ["values are hashable and never None; one DoublyLinkedSet per schedule (no cross-list moves)",
                       "CPython generators: a suspended generator resumes after its yield; exhausted generators stay exhausted"]
    ck.coverage["rule"] = ("non-trivial = a next() call whose iterator is parked on an erased box (tombstone chain), "
                           "or an insertion/removal adjacent to a parked iterator")
    generate(ck)
    ck.prove()
    rng = ck.rng
    seen: set = set()
    t_start = time.time()

    # ---- 1. corpus + random schedules: implementation + oracle, then the Coq model on the same traces
    scheds = [s for s in load_corpus()]
    n_rand = 70 if not ck.thorough else 1000
    for i in range(n_rand):
        for kind in ("dls", "graph", "function"):
            if i % 5 == 0:
                scheds.append(gen_schedule(rng, kind, rng.choice([8, 15, 25]), 2, universe=3))
            else:
                scheds.append(gen_schedule(rng, kind, rng.choice([40, 60, 80]), rng.choice([2, 3, 4]),
                                           universe=rng.choice([4, 6, 7])))
    for i in range(n_rand * 2):
        scheds.append(gen_rec(rng, rng.choice([30, 60])))
    cases, rcases, oracle_failed = [], [], []
    for s in scheds:
        if HANGS >= 3 or len(oracle_failed) >= 25:
            ck.notes.append("stopped generating early: the implementation already fails the oracle "
                            f"({len(oracle_failed)} schedules, {HANGS} non-terminating calls)")
            break
        obs, bad = check_any(s)
        ck.count(len(s["events"]))
        for e in s["events"]:
            ck.hist("ops", (s["kind"] + ":" if s["kind"] == "rec" else "") + (e[2] if e[0] == "ed" else e[0]))
        for o in obs:
            ck.hist("results", o["res"][0] if o["res"][0] == "ok" else o["res"][1])
        if bad:
            oracle_failed.append(s)
        if s["kind"] != "rec":
            cases.append((s, obs))
        else:
            rcases.append((s, obs))
        _coverage(ck, s, obs)
    ck.coverage["traces_validated_against_impl"] = len(cases) + len(rcases)
    for s in scheds[:2] + [x for x in scheds if x["kind"] == "rec"][:1]:
        ck.sample({"kind": s["kind"], "init": s.get("init", s.get("inits")), "events": s["events"][:12]})
    mism = []
    try:
        mism = coq_compare(ck, cases, "cases")
    except RuntimeError as e:
        ck.broken("correspondence:case-files", str(e))
    for s, obs in mism[:3]:
        k = first_divergence(ck, s, obs)
        ck.broken("correspondence:DoublyLinkedSet-model",
                  json.dumps({"diverging": sorted(WHICH.get(id(s), [])),
                              "schedule": dict(s, events=s["events"][:k]), "impl_observation": obs[k - 1]}))
    rmism = []
    try:
        rmism = coq_compare(ck, rcases, "rcases", rec_cases_file)
    except RuntimeError as e:
        ck.broken("correspondence:rec-case-files", str(e))
    for s, obs in rmism[:3]:
        k = first_divergence(ck, s, obs)
        ck.broken("correspondence:RecursiveGraphIterator-model",
                  json.dumps({"schedule": dict(s, events=s["events"][:k]), "impl_observation": obs[k - 1]}))
    mism = mism + rmism

    # ---- 2. exhaustive small scopes: Coq model on the tree of all schedules; oracle one level deeper
    depth = 3 if not ck.thorough else 4
    elems = [1, 2, 3]
    tree_mism = []
    tree_scopes = [([1, 2, 3], [True, False]), ([1, 2], [True, True]), ([2, 1, 3], [False, False])]
    if not ck.thorough:      # quick: two of the three configurations, chosen by the seed (all three in thorough)
        tree_scopes = [tree_scopes[ck.seed % 3], tree_scopes[(ck.seed + 1) % 3]]
    for ti, (init, cursors) in enumerate(tree_scopes):
        if HANGS >= 3:
            break
        # thorough: two configurations at depth 4, the third at depth 3 (time budget)
        tdepth = 3 if (ck.thorough and ti == 2) else depth
        files, n = tree_files(init, cursors, tdepth, elems)
        ck.count(n)
        ck.hist("exhaustive_scopes", f"coq-tree init={init} cursors={cursors} depth={tdepth}", n)
        try:
            res = ck.coq_eval_many([(name, text) for name, text, _ in files], timeout=1500)
        except Exception as e:  # noqa: BLE001
            ck.broken("correspondence:tree-files", str(e))
            continue
        for (name, _, first), (rc, o) in zip(files, res):
            if rc != 0:
                ck.broken("correspondence:tree-files", f"{name} did not compile: {o[-1500:]}")
                continue
            p = common.parse_nat_list(o)
            if p and p[0] >= 100000:
                ck.hist("diverged", "translated-code(tree)")
                p = [x - 100000 for x in p]
            elif p:
                ck.hist("diverged", "hand-model(tree)")
            if p:
                tree_mism.append({"kind": "dls", "init": init, "universe": 3,
                                  "events": [["new", f] for f in cursors] + path_of(p, first, elems)})
    for s in tree_mism[:3]:
        ck.broken("correspondence:DoublyLinkedSet-model(exhaustive)", json.dumps(s))
    scopes = [([1, 2, 3], [True, False], depth + 1, 15 if not ck.thorough else 240)]
    if ck.thorough:
        scopes += [([1, 2], [True, True], depth, 60), ([1, 2, 3], [False, False], depth, 60)]
    for init, cursors, d, budget in scopes:
        if HANGS >= 3 or len(oracle_failed) >= 25:
            break
        n = exhaustive_oracle(ck, init, cursors, d, elems, seen, budget)
        ck.count(n)
        ck.hist("exhaustive_scopes", f"oracle init={init} cursors={cursors} depth={d}", n)

    # ---- 3. known findings (none recorded for C11), oracle failures -> violations
    for k in ck._known:
        if k.get("status") == "known":
            obs, bad = check_any(k["witness"])
            if bad:
                ck.known_finding(k["key"], k["what"])
            else:
                ck.broken(f"known-finding-stale:{k['key']}", "the recorded witness no longer fails")
    for s in oracle_failed[:6]:
        report(ck, s, "oracle", seen)

    # ---- 4. something is broken and no failing input yet: search
    if ck.broken_items and not ck.violations:
        search(ck, [s for s, _ in mism] + tree_mism, seen)
    ck.coverage["wall_correspondence_s"] = round(time.time() - t_start, 1)


def _coverage(ck, s, obs):
    """count the schedules that reach the non-trivial rules (tombstone chains, edits next to a cursor)"""
    if s["kind"] == "rec":
        if any(e[0] == "ed" for e in s["events"]) and sum(1 for e in s["events"] if e[0] == "step") > 3:
            ck.nontriv(s)
        return
    sp = Spec(s["init"])
    hit = False
    for e in s["events"]:
        op = e[0]
        if op == "new":
            sp.new_cursor(bool(e[1]))
        elif op == "step":
            c = sp.cursors[e[1]]
            if c.started and not c.done and not c.anch:
                hit = True
                ck.hist("rules", "step-from-tombstone")
            _sim_step(c)
        elif op == "remove":
            if any(c.started and c.anch and c.cur == e[1] for c in sp.cursors):
                ck.hist("rules", "remove-current")
                hit = True
            sp.remove(e[1])
        elif op == "append":
            sp.append(e[1])
        elif op == "extend":
            sp.extend(e[1])
        elif op in ("ins_after", "ins_before", "ins_after1", "ins_before1"):
            xs = e[2] if isinstance(e[2], list) else [e[2]]
            if any(c.started and not c.done and (c.cur == e[1] or c.cur in xs) for c in sp.cursors):
                ck.hist("rules", "insert-next-to-or-move-current")
                hit = True
            (sp.insert_after if "after" in op else sp.insert_before)(e[1], xs)
        elif op == "remove_many":
            if all(x in sp.l for x in e[1]):
                for x in dict.fromkeys(e[1]):
                    sp.remove(x)
        elif op == "sort":
            sp.extend(spec_sort(sp.l, s.get("deps") or {}))
            if any(c.started and not c.done for c in sp.cursors):
                ck.hist("rules", "sort-under-iterator")
    if hit:
        ck.nontriv(s)


def search(ck, diverging, seen) -> None:
    """Violation search: the diverging schedules and their prefixes, then the same with every iterator drained,
    then fresh schedules, all through the oracle on the implementation."""
    import time
    t0 = time.time()
    budget = 60 if not ck.thorough else 1200
    for s in diverging:
        for k in range(1, len(s["events"]) + 1):
            if report(ck, dict(s, events=s["events"][:k]), "oracle-on-diverging-schedule", seen):
                return
    for s in diverging:
        ncur = sum(1 for e in s["events"] if e[0] == "new")
        ext = dict(s, events=s["events"] + [["step", i] for _ in range(8) for i in range(ncur)])
        if report(ck, ext, "oracle-on-diverging-schedule-drained", seen):
            return
    rng = ck.rng
    i = 0
    while time.time() - t0 < budget:
        i += 1
        if i % 4 == 0:
            s = gen_rec(rng, 50)
        else:
            s = gen_schedule(rng, rng.choice(["dls", "graph", "function"]), rng.choice([20, 50, 90]),
                             rng.choice([2, 3, 4]), universe=rng.choice([3, 4, 6]))
        ck.count(len(s["events"]))
        if report(ck, s, "oracle-after-broken-obligation", seen):
            return


def replay(rp: dict) -> int:
    s = rp.get("schedule")
    if s is None:
        print("replay names a broken obligation/correspondence, no concrete input:",
              json.dumps(rp.get("broken"), indent=1)[:3000])
        return 1
    obs, bad = check_any(s)
    print(json.dumps({"schedule": s, "failures": bad, "observed": obs[-1] if obs else None}, indent=1))
    return 1 if bad else 0

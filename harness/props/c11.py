"""C11 — graph iteration stays well defined while the graph is edited.

WORK IN PROGRESS docstring (rewritten at the end of the build).
"""

from __future__ import annotations

import itertools
import json
import os
import random

from harness import common
from harness.common import REPO, cZ, clist, copt

SRC_LL = os.path.join(REPO, "src", "onnx_ir", "_linked_list.py")

# =========================================================================== schedules
#
# A schedule is JSON: {"kind": "dls"|"graph"|"function", "init": [h...], "deps": {h: [h...]} (graph kinds),
#                      "events": [[op, args...], ...]}
# ops:  ["new", fwd]            create an iterator (iter()/reversed()); cursor ids are creation order
#       ["step", i]             next() on iterator i
#       ["append", x] ["extend", [x..]] ["ins_after", a, [x..]] ["ins_before", a, [x..]] ["remove", x]
#       ["get", i] ["mem", x]
#       graph kinds only: ["sort"], ["remove_many", [x..]], ["ins_after1", a, x] / ["ins_before1", a, x]
#       (single Node argument instead of an iterable)
# elements are small positive integers (handles); the implementation side maps them to objects.

EDIT_OPS = ("append", "extend", "ins_after", "ins_before", "remove", "sort", "remove_many",
            "ins_after1", "ins_before1")


class _Elem:
    """A hashable value for DoublyLinkedSet (identity semantics, like ir.Node)."""
    __slots__ = ("h",)

    def __init__(self, h):
        self.h = h

    def __repr__(self):
        return f"E{self.h}"


class Impl:
    """Runs a schedule on the real code.  Public API only."""

    def __init__(self, kind: str, init, deps=None, universe=8):
        self.kind = kind
        self.iters = []
        if kind == "dls":
            from onnx_ir import _linked_list
            self.objs = {h: _Elem(h) for h in range(1, universe + 1)}
            self.c = _linked_list.DoublyLinkedSet([self.objs[h] for h in init])
        else:
            import onnx_ir as ir
            self.ir = ir
            self.objs = {}
            deps = deps or {}
            for h in range(1, universe + 1):
                ins = [self.objs[d].outputs[0] for d in deps.get(str(h), deps.get(h, [])) if d < h]
                self.objs[h] = ir.Node("", "Op", inputs=ins, num_outputs=1, name=f"n{h}")
            g = ir.Graph([], [], nodes=[self.objs[h] for h in init], name="g")
            self.graph = g
            if kind == "function":
                self.c = ir.Function("d", "f", graph=g, attributes=[])
            else:
                self.c = g
        self.back = {id(o): h for h, o in self.objs.items()}

    def h(self, o):
        return self.back.get(id(o), 0)

    def snapshot(self):
        return ([self.h(o) for o in self.c], [self.h(o) for o in reversed(self.c)], len(self.c))

    def do(self, e):
        """-> ("ok", value|None) | ("raise", ExnName)"""
        op = e[0]
        O = self.objs
        c = self.c
        try:
            if op == "new":
                self.iters.append(iter(c) if e[1] else reversed(c))
                return ("ok", None)
            if op == "step":
                try:
                    return ("ok", self.h(next(self.iters[e[1]])))
                except StopIteration:
                    return ("ok", None)
            if op == "append":
                c.append(O[e[1]])
            elif op == "extend":
                c.extend([O[x] for x in e[1]])
            elif op == "ins_after":
                c.insert_after(O[e[1]], [O[x] for x in e[2]])
            elif op == "ins_before":
                c.insert_before(O[e[1]], [O[x] for x in e[2]])
            elif op == "ins_after1":
                c.insert_after(O[e[1]], O[e[2]])
            elif op == "ins_before1":
                c.insert_before(O[e[1]], O[e[2]])
            elif op == "remove":
                c.remove(O[e[1]])
            elif op == "remove_many":
                c.remove([O[x] for x in e[1]])
            elif op == "sort":
                c.sort()
            elif op == "get":
                return ("ok", self.h(c[e[1]]))
            elif op == "mem":
                return ("ok", 1 if O[e[1]] in c else 0)
            else:
                raise AssertionError(op)
            return ("ok", None)
        except Exception as ex:  # noqa: BLE001
            return ("raise", common.exn_name(ex))


def run_impl(sched: dict) -> list[dict]:
    im = Impl(sched["kind"], sched["init"], sched.get("deps"), sched.get("universe", 8))
    out = []
    for e in sched["events"]:
        r = im.do(e)
        f, b, n = im.snapshot()
        out.append({"res": list(r), "fwd": f, "bwd": b, "len": n})
    return out


# =========================================================================== plain-list specification / oracle

class SpecCursor:
    """Abstract cursor over the plain list specification: the elements it still has to yield (`fut`), whether
    it is anchored on a live element / the list head (`anch`), and `opt`: elements inserted exactly at the
    position of a cursor whose current element was removed — the statement does not say whether those lie
    "after" or "before" the position, so the oracle accepts both (weaker reading)."""

    def __init__(self, spec, fwd):
        self.spec, self.fwd = spec, fwd
        self.started = False
        self.done = False
        self.anch = True
        self.cur = None            # element anchored on (None + anch = list head / not started)
        self.fut = None            # fixed at the first next(): generator bodies start lazily
        self.opt = []

    def _view(self):
        return list(self.spec.l) if self.fwd else list(reversed(self.spec.l))

    def _materialise(self):
        if self.fut is None:
            self.fut = self._view()

    # ---- notifications from edits (before the plain list is changed)
    def on_remove(self, x):
        if self.fut is None or self.done:
            return
        if x in self.fut:
            self.fut.remove(x)
        if x in self.opt:
            self.opt.remove(x)
        if self.anch and self.cur == x:
            self.anch, self.cur, self.opt = False, None, []

    def on_insert(self, k, x):
        """x is about to be inserted at index k of spec.l"""
        if self.fut is None or self.done:
            return
        n = len(self.spec.l)
        kv = k if self.fwd else n - k
        j = n - len(self.fut)
        if self.anch:
            if kv >= j:
                self.fut.insert(kv - j, x)
        else:
            lo = j - len(self.opt)
            if kv > j:
                self.fut.insert(kv - j, x)
            elif kv >= lo:
                self.opt.insert(kv - lo, x)

    # ---- checking a step of the implementation
    def accepts(self, x):
        self._pre()
        return (not self.done) and ((self.fut and self.fut[0] == x) or x in self.opt)

    def exhausted(self):
        self._pre()
        return self.done or not self.fut

    def _pre(self):
        if not self.started:
            # a generator that has not started reads the head at its first next(): it behaves as anchored on the
            # list head with the whole current list as its future
            self.fut = self._view()
            self.anch, self.cur, self.opt = True, None, []

    def advance(self, x):
        self._pre()
        self.started = True
        if self.fut and self.fut[0] == x:
            self.fut.pop(0)
        else:
            i = self.opt.index(x)
            self.fut = self.opt[i + 1:] + self.fut
        self.opt, self.anch, self.cur = [], True, x

    def stop(self):
        self._pre()
        self.started = True
        self.done, self.fut, self.opt = True, [], []


class Spec:
    """The container as a plain Python list (no duplicates) with the documented edit semantics."""

    def __init__(self, init=()):
        self.l = []
        self.cursors = []
        for x in init:
            self.append(x)

    def _rm(self, x):
        for c in self.cursors:
            c.on_remove(x)
        self.l.remove(x)

    def _ins(self, k, x):
        for c in self.cursors:
            c.on_insert(k, x)
        self.l.insert(k, x)

    def _one(self, p, x):
        """insert x right after element p (None = at the front); returns the new anchor"""
        if p == x:
            return p
        if x in self.l:
            self._rm(x)
        self._ins(0 if p is None else self.l.index(p) + 1, x)
        return x

    def append(self, x):
        self._one(self.l[-1] if self.l else None, x)

    def extend(self, xs):
        for x in xs:
            self.append(x)

    def insert_after(self, a, xs):
        if a not in self.l:
            return False
        p = a
        for x in xs:
            p = self._one(p, x)
        return True

    def insert_before(self, a, xs):
        if a not in self.l:
            return False
        i = self.l.index(a)
        p = self.l[i - 1] if i > 0 else None
        for x in xs:
            p = self._one(p, x)
        return True

    def remove(self, x):
        if x not in self.l:
            return False
        self._rm(x)
        return True

    def new_cursor(self, fwd):
        c = SpecCursor(self, fwd)
        self.cursors.append(c)
        return c


def spec_sort(l, deps):
    """Order Graph.sort must produce on a flat graph: the stable topological order (reverse Kahn, always taking
    the ready node with the largest current index); producers outside the graph are ignored."""
    idx = {h: i for i, h in enumerate(l)}
    preds = {h: [d for d in deps.get(str(h), deps.get(h, [])) if d in idx and d < h] for h in l}
    depth = {h: 0 for h in l}
    for h in l:
        for d in preds[h]:
            depth[d] += 1
    ready = [h for h in l if depth[h] == 0]
    out = []
    while ready:
        h = max(ready, key=lambda z: idx[z])
        ready.remove(h)
        out.append(h)
        for d in preds[h]:
            depth[d] -= 1
            if depth[d] == 0:
                ready.append(d)
    assert len(out) == len(l)
    return list(reversed(out))


def oracle(sched: dict, obs: list[dict]) -> list[str]:
    """The property, clause by clause, against the plain list specification.  Returns failure messages
    (each prefixed by the event index)."""
    sp = Spec(sched["init"])
    deps = sched.get("deps") or {}
    bad = []
    for t, (e, o) in enumerate(zip(sched["events"], obs)):
        op = e[0]
        res = tuple(o["res"])
        ok_expected = True
        if op == "new":
            sp.new_cursor(bool(e[1]))
        elif op == "step":
            c = sp.cursors[e[1]]
            if res[0] != "ok":
                bad.append(f"{t}: next() raised {res[1]} (iteration must terminate without error)")
            elif res[1] is None:
                if not c.exhausted():
                    bad.append(f"{t}: iterator {e[1]} stopped but must still yield {c.fut}")
                c.stop()
            else:
                x = res[1]
                if x not in sp.l:
                    bad.append(f"{t}: iterator {e[1]} yielded {x} which is not in the graph {sp.l}")
                if c.accepts(x):
                    c.advance(x)
                else:
                    c._pre()
                    bad.append(f"{t}: iterator {e[1]} yielded {x}; required next {c.fut[:1]} (optional {c.opt})"
                               + (" after StopIteration" if c.done else ""))
                    # resynchronise on the observed behaviour to keep later messages meaningful
                    if x in c.fut:
                        c.fut = c.fut[c.fut.index(x) + 1:]
                    c.started, c.opt, c.anch, c.cur = True, [], True, x
        elif op == "append":
            sp.append(e[1])
        elif op == "extend":
            sp.extend(e[1])
        elif op in ("ins_after", "ins_after1"):
            ok_expected = sp.insert_after(e[1], e[2] if op == "ins_after" else [e[2]])
        elif op in ("ins_before", "ins_before1"):
            ok_expected = sp.insert_before(e[1], e[2] if op == "ins_before" else [e[2]])
        elif op == "remove":
            ok_expected = sp.remove(e[1])
        elif op == "remove_many":
            if all(x in sp.l for x in e[1]):
                for x in dict.fromkeys(e[1]):
                    sp.remove(x)
            else:
                ok_expected = False
        elif op == "sort":
            sp.extend(spec_sort(sp.l, deps))
        elif op == "get":
            i = e[1]
            if -len(sp.l) <= i < len(sp.l):
                if res != ("ok", sp.l[i]):
                    bad.append(f"{t}: g[{i}] = {res}, current sequence {sp.l}")
            elif res[0] != "raise":
                bad.append(f"{t}: g[{i}] returned {res} for a sequence of length {len(sp.l)}")
        elif op == "mem":
            if res != ("ok", 1 if e[1] in sp.l else 0):
                bad.append(f"{t}: ({e[1]} in g) = {res}, current sequence {sp.l}")
        if op in EDIT_OPS:
            if ok_expected and res[0] != "ok":
                bad.append(f"{t}: {e} raised {res[1]} on a valid request")
            if not ok_expected and res[0] != "raise":
                bad.append(f"{t}: {e} must be rejected (anchor/element not in the graph)")
        if o["fwd"] != sp.l or o["bwd"] != sp.l[::-1] or o["len"] != len(sp.l):
            bad.append(f"{t}: after {e}: list={o['fwd']} reversed={o['bwd']} len={o['len']}; "
                       f"plain-list specification {sp.l}")
            # resynchronise the spec on the observed list to avoid a cascade
            sp.l = list(o["fwd"])
    return bad


# =========================================================================== Coq case printing

def _n(x):
    return str(int(x))


def _nl(xs):
    return "[" + ";".join(_n(x) for x in xs) + "]"


def model_events(sched, obs):
    """Translate a schedule to model events [(coq_ev_text, obs|None)] (Graph-level composites are unfolded)."""
    out = []
    sp = Spec(sched["init"])  # only to unfold sort / remove_many into list-level edits
    deps = sched.get("deps") or {}
    for e, o in zip(sched["events"], obs):
        op = e[0]
        if op == "new":
            out.append((f"ENew {'true' if e[1] else 'false'}", o))
        elif op == "step":
            out.append((f"EStep {e[1]}", o))
        elif op == "append":
            out.append((f"EEdit (Append {e[1]})", o))
        elif op == "extend":
            out.append((f"EEdit (Extend {_nl(e[1])})", o))
        elif op in ("ins_after", "ins_after1"):
            xs = e[2] if op == "ins_after" else [e[2]]
            out.append((f"EEdit (InsAfter {e[1]} {_nl(xs)})", o))
        elif op in ("ins_before", "ins_before1"):
            xs = e[2] if op == "ins_before" else [e[2]]
            out.append((f"EEdit (InsBefore {e[1]} {_nl(xs)})", o))
        elif op == "remove":
            out.append((f"EEdit (Remove {e[1]})", o))
        elif op == "remove_many":
            xs = list(dict.fromkeys(e[1]))
            if all(x in o_prev_list(out, sched) for x in xs) and xs:
                for x in xs[:-1]:
                    out.append((f"EEdit (Remove {x})", None))
                out.append((f"EEdit (Remove {xs[-1]})", o))
            elif not xs:
                out.append(("EEdit (Extend [])", o))
            else:
                # rejected before any mutation: Remove of an absent element has the same model behaviour
                absent = next(x for x in xs if x not in o_prev_list(out, sched))
                out.append((f"EEdit (Remove {absent})", o))
        elif op == "sort":
            cur = o_prev_list(out, sched)
            out.append((f"EEdit (Extend {_nl(spec_sort(cur, deps))})", o))
        elif op == "get":
            out.append((f"EGet {cZ(e[1])}", o))
        elif op == "mem":
            out.append((f"EMem {e[1]}", o))
        else:
            raise AssertionError(op)
    del sp
    return out


def o_prev_list(out, sched):
    """the implementation's list before the current event (last recorded observation)"""
    for _, o in reversed(out):
        if o is not None:
            return o["fwd"]
    return list(dict.fromkeys(sched["init"])) if sched["init"] else []


def obs_args(o):
    r = o["res"]
    if r[0] == "ok":
        rt = "RN" if r[1] is None else f"(RY {r[1]})"
    else:
        rt = f"(RE {r[1]})"
    return f"{rt} {_nl(o['fwd'])} {_nl(o['bwd'])} {o['len']}"


def case_term(sched, obs):
    evs = model_events(sched, obs)
    body = ";\n   ".join(f"EV ({t}) {'NO' if o is None else '(SO ' + obs_args(o) + ')'}" for t, o in evs)
    return f"CASE {_nl(sched['init'])}\n  [{body}]"


CASE_HEADER = """From Coq Require Import List ZArith Bool.
From IRV Require Import Base.Exn C11.Model.
Import ListNotations.
"""


def cases_file(cases) -> str:
    return (CASE_HEADER + "Definition cases : list (list elt * list (ev * option obs)) :=\n ["
            + ";\n ".join(case_term(s, o) for s, o in cases) + "].\n"
            "Eval vm_compute in (failing agree cases).\n")


# =========================================================================== generators

def gen_schedule(rng, kind, steps, ncur, universe=6):
    init_n = rng.randrange(0, universe + 1)
    init = rng.sample(range(1, universe + 1), init_n)
    if rng.random() < 0.15 and init:
        init.append(rng.choice(init))      # duplicates in the constructor argument
    if kind != "dls":
        init = list(dict.fromkeys(init))
    deps = {}
    if kind != "dls":
        for h in range(2, universe + 1):
            deps[str(h)] = sorted(rng.sample(range(1, h), rng.randrange(0, min(3, h))))
    events = []
    cur_n = 0
    el = lambda: rng.randrange(1, universe + 1)  # noqa: E731
    els = lambda: [el() for _ in range(rng.choice([0, 1, 1, 2, 2, 3, 4]))]  # noqa: E731
    while len(events) < steps:
        r = rng.random()
        if cur_n < ncur and (cur_n == 0 or r < 0.06):
            events.append(["new", rng.random() < 0.6])
            cur_n += 1
        elif r < 0.45:
            events.append(["step", rng.randrange(cur_n)])
        elif r < 0.55:
            events.append(["remove", el()])
        elif r < 0.63:
            events.append(["append", el()])
        elif r < 0.68:
            events.append(["extend", els()])
        elif r < 0.78:
            events.append(["ins_after", el(), els()])
        elif r < 0.88:
            events.append(["ins_before", el(), els()])
        elif r < 0.92:
            events.append(["get", rng.randrange(-universe - 1, universe + 1)])
        elif r < 0.94:
            events.append(["mem", el()])
        elif kind == "dls":
            events.append(["step", rng.randrange(cur_n)])
        else:
            q = rng.random()
            if q < 0.3:
                events.append(["sort"])
            elif q < 0.5:
                events.append(["remove_many", els()])
            elif q < 0.75:
                events.append(["ins_after1", el(), el()])
            else:
                events.append(["ins_before1", el(), el()])
    return {"kind": kind, "init": init, "deps": deps, "universe": universe, "events": events}


def run(ck) -> None:
    rng = ck.rng
    cases = []
    for i in range(30):
        s = gen_schedule(rng, ["dls", "graph", "function"][i % 3], 40, 3)
        o = run_impl(s)
        bad = oracle(s, o)
        if bad:
            print("ORACLE", json.dumps(s), bad[:3])
        cases.append((s, o))
    txt = cases_file(cases)
    print(ck.coq_failing(txt, "cases0"))

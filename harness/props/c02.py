r"""C02 — ONNX proto -> IR -> proto is lossless for every supported proto.

Decided by: Coq theorems (coq/theories/C02/Property.v) about the executable model of serde.py in
C02/Model.v + Model2.v (datatypes mirroring onnx.proto at field level, `deser_*`, `ser_*` written after
serde.deserialize_* / serialize_*_into), the normalisation `norm_*` and the boolean `wf_*` in C02/Norm.v,
over Gen/C02Gen.v (IR-version gates and the DataType/AttributeType members, regenerated from serde.py /
_enums.py by tools/translate.py on every run).

Tie: `proto_term` converts an onnx proto into a Coq term of the model's Proto datatypes.  For every
generated proto p the implementation's q = to_proto(from_proto(p)) is converted too; a case file embeds
(p, q | Raise) and Coq evaluates, per case,
     norm (model ser (deser p)) = norm q_impl           (model == implementation)
  /\ (wf p -> norm q_impl = norm p)                       (the property, on the implementation's output)
  /\ (wf p -> the model does not raise)  /\ (generator's "supported" flag -> wf p)
printing only failing indices.  Independently the Python oracle `oracle_diff` (a norm-aware field-by-field
diff written against the protobuf descriptors, stricter than onnx_ir.testing.assert_onnx_proto_equal:
tensor metadata, denotations, attribute doc strings, overloads, device configurations, quantization
annotations as multisets) compares p and q for every supported case.

Log of decisions is at the end of this docstring (kept current).

Readings of ambiguous English (weaker reading taken, see README "Findings policy"):
  * "metadata entries may be reordered" is read as: every repeated StringStringEntryProto field is a map
    (metadata_props, external_data, quant_parameter_tensor_names); the quantization_annotation list is
    keyed by tensor_name and is compared as a multiset (so duplication is still a difference).
  * "unset and default-valued optional scalars are equivalent" includes: an absent sub-message equals an
    empty one (AttributeProto.t/g/tp, ValueInfoProto.type), *except* TensorShapeProto (absent shape =
    unknown rank, empty shape = scalar) and oneof members, whose presence the code must keep.
  * "value-info is added for initializers / unreferenced value-info is dropped" also covers: a value-info
    entry that repeats a graph input/output name (the information lives in input/output), and an entry
    that carries nothing (no type, no doc string, no metadata).
  * "supported" (= wf): SSA names per scope, inputs resolvable, outputs produced, value_info does not name
    graph inputs/outputs, unique keys in every map-like repeated field, nested types have element types,
    attribute value stored in the field of its declared type, STRINGS attributes are UTF-8, external
    entries have unique keys, a location and canonical integers for offset/length (any other key is allowed), IR version 3..13, device configurations
    only at IR >= 11, function value_info only at IR >= 10, no sparse tensors/initializers, no map/opaque
    types, no training_info, no TensorProto.segment.

LOG (kept current)

Theorems (coq/theories/C02/Property.v, all "Closed under the global context"; ck.level = "proof"):
  C02_roundtrip / C02_model_roundtrip   PRINCIPAL, full: forall p, wf_model p -> exists q, roundtrip_model p = Ok q
                            /\ norm_model q = norm_model p   (IR 3..13, opset dict, functions table, device
                            configurations at IR >= 11, metadata, producer fields)
  C02_attr_roundtrip, C02_function_entry_roundtrip   the standalone entry points from_proto/to_proto on an
                            AttributeProto (all kinds, references, subgraphs of any depth, value sub-message present
                            but empty or absent) and on a FunctionProto (serialize_function(create_value_info=True), no
                            model IR version); both are also message kinds of the correspondence ("attr", "function")
  C02_function_experimental_ir9   IR < 10, function level: function values typed through main-graph entries
                            "{domain}::{function}/{value}" (prefix matching, 348a4f1): deserialize_function + the
                            experimental lookup (apply_exp_fn) + serialize_function_into(create_value_info=False) give
                            back the function and exactly the informative entries, qualified, once each (ProofsG21).
                            wf_model still excludes the format below IR 10 (C02_roundtrip does not cover it at model
                            level; the stream "experimental-function-value-info-ir<10" + oracle do).
  C02_function_roundtrip    functions: overloads, attribute parameters, reference attributes, IR-10 value_info
                            incl. function inputs, nothing moved to the main graph for a well-formed function
  C02_graph_roundtrip / C02_graph_scoping   graphs at every nesting depth and in any scope stack: scoped name tables
                            (invariant key = value name), "initializer for an input", outputs declared before
                            nodes, value-info application/emission/completion for initializers, quantization
                            annotations exactly once, pass-through inputs, trailing outputs
  C02_node_scoping, C02_attrs_all_kinds, C02_attrs_flat   nodes / attributes relative to the nested graphs (the
                            hypothesis is discharged inside the graph stage by induction on the nesting depth)
  C02_value_info, C02_tensor_fields, C02_types_nested, C02_dims_denotations, C02_metadata_every_carrier
  Proof files: Proofs1-3 (stages up to nodes), ProofsG1-G14 (graph: total step functions, name tables T0..T3 after
  each phase of _deserialize_graph, final value of every declared name, serializer output as an explicit proto,
  value-info part, quantization part, induction on depth), ProofsG15-G17 (function), ProofsG18 (model),
  ProofsFuel/ProofsDepth (the fuel of deser_graph/ser_graph is immaterial above the nesting depth),
  ProofsEqb (soundness of the boolean equality used in wf for pass-through inputs).
  Fuel: deser_* use 1 + nesting depth of the proto, ser_* the depth of the IR; exhaustion is an error and the
  theorems prove it does not happen.

Tie: see above; quick = 200 models + 67 mutated (20 kinds of unsupported constructs) + 50 graphs + 200 tensors +
  200 value-infos + 40 backend/testdata seeds + corpus/C02 (witnesses of the fixed findings); every feature of the
  quantifier is counted in evidence coverage["features"].  Gen/C02Gen.v: the two IR-version gates and the enum
  members come from the source on every run (a changed gate changes wf, the generator's "supported" flag then
  disagrees -> oracle -> violation; tried, caught).

Modelled, not verified: protobuf presence/oneof/CopyFrom, dict order, sorted() on str, UTF-8 validity (a flag
  computed by the converter), int()/str() on digit strings, ExternalDataInfo's key whitelist.  Not modelled
  (model answers Raise OtherError = "outside the model", such inputs are not generated as supported): duplicated graph
  or function input names, external offset/length that are not plain digit strings.  Abstraction: node outputs are keys of the scope
  table (a key always equals the name of its value; proved as invariant scope_ok for inputs).

Findings on the tree as first read (all reproduced on the real code; witnesses in known_witnesses()):
  fixed c4d9dd5  function-input-value-info-dropped   (my proposed_fixes/C02-function-input-value-info.diff)
  fixed 952a3c2  quantization-annotation-duplicated   (my proposed_fixes/C02-quantization-annotation-duplicated.diff)
  fixed 86f4e6a  ref-graph-attr-crash                 (proposed_fixes/C02-ref-graph-attr-traversal.diff; committed variant)
  fixed 66aa20a  tensorproto-metadata-duplicated      (orchestrator, before this module existed)
  fixed fb2515e  external-data-checksum-dropped       (my proposed_fixes/C02-external-data-extra-entries.diff: the
                 entries the IR does not interpret are kept in tensor.meta and written back).  Model: IExt carries
                 the extra entries, wf_tensor only asks for unique keys + a location + canonical offset/length,
                 ProofsSort/ProofsExt prove the general case (ksort is invariant under permutations of a list with
                 unique keys); the unsupported tensor stream has duplicated keys, leading zeros, no location.
  The model describes the fixed code; the witnesses are ordinary supported corpus cases now.
  The IR < 10 experimental function value-info lookup (names "domain::function/value" in the main graph) is now
  modelled (parse_exp / apply_exp_fn, gated on the regenerated FUNCTION_VALUE_INFO_SUPPORTED_VERSION) instead of
  "outside the model"; the generator writes such names at IR >= 10 (supported: ordinary unreferenced entries) and,
  in the unsupported stream, at every IR version (seeded r2m3: gate changed to `if model.functions` — first missed,
  now caught).
  Seeded r5m3 (leading "::" of the qualified name dropped for functions in the default domain, IR < 10): first
  missed; now the stream "experimental-function-value-info-ir<10" (functions in domains "", "ai.onnx", "pkg" whose
  values are typed by main-graph entries "{domain}::{function}/{value}") is compared model-vs-implementation AND judged
  by the oracle, which treats those entries as referenced value-info that must round-trip.  These protos are outside
  wf_model (C02_roundtrip does not cover the IR < 10 experimental format at model level; the function-level behaviour
  is theorem C02_function_experimental_ir9, the model describes the rest and the tie checks it).  348a4f1 (prefix
  matching against the existing functions, all overloads) is followed by model (strip_prefix/exp_entries), oracle
  and generator (separators inside domain / function names).
  Round-6 seeded changes: r6m1 (repeated graph outputs dropped) and r6m3 (graph output inherits the doc string of a
  value_info entry) were missed because wf excludes both inputs; they are now oracle-judged streams ('repeated-output',
  'output-with-value-info', also compared model-vs-implementation).  r6m2 (annotation popped from value.meta: a second
  to_proto of the same IR loses it) is caught by serializing every deserialized IR twice (impl_roundtrip.last_twice).
  Finding quantization-annotation-repeated-output (a value listed twice in graph.output got its annotation twice):
  fixed b6bf1ea (my proposed_fixes/C02-quantization-annotation-repeated-output.diff); model: dedup_quant on the
  outputs part; the repeated-output stream now includes annotated repeated outputs.
  Upstream fixes 5e4600e (nodes of nested graphs follow the model's IR-version gate: ser_graph passes irv down,
  wf_graph's allow_dev now covers nested graphs) and 3a09e57 (a repeated initializer name: only the last tensor is
  used — `last_only`, after all tensors are deserialized) landed after the proof was finished: model, wf, generator
  and proofs (ProofsFuel/Depth/G2/G4/G14-G17) follow them.
  Upstream fixes 420823a / 5c8d56d (value_info without type/shape on an initializer is completed from the tensor;
  a shape without type is serialized) landed while this was built: model, norm ("value-info is added for
  initializers" now also completes an existing entry) and oracle follow them.

Mutants tried (scratch worktree, VERIF_REPO), all reported VIOLATION with a concrete wf replay unless noted:
  m1 doc_string of a value-info written only when a shape exists          caught (model!=impl, oracle)
  m2 dimension denotation written only for integer dims                    caught
  m3 _remove_trailing_outputs off by one (drops a named output)            caught
  m4 revert of the tensor-metadata fix (duplicate entries)                 caught
  m5 OptionalType loses its denotation                                      caught
  m6 device-configuration gate `<=` instead of `<` (IR 11 loses them)       caught
  m7 reference attribute doc_string not written                             caught
  m8 quantization annotation of initializers not read                       caught
  m9 node input lookup limited to the two innermost scopes                  NOT a C02 violation: the placeholder
     value has the same name, to_proto(from_proto(p)) is unchanged (C03/C17 territory); check is rightly silent
  m10 function overload not written                                          caught
  m11 _declare_node_outputs ignores value_info                               caught
  m12 _should_create_value_info_for_value ignores doc/metadata-only values   caught
  m13 _MULTI_DEVICE_SUPPORTED_VERSION = 12 (translated constant)             caught
  seeded/C02-m1 (orchestrator): deserialize_value_info_proto keeps the old shape when the new one is "equal"
     (Shape.__eq__ ignores denotations)  first MISSED: the generator never gave an initializer a value_info entry
     restating the tensor's dims with denotations; feature added (vinfo:restates-initializer,
     graph:input-restates-initializer), now caught with a 1-initializer replay.  seeded m2, m3: caught.
  Shrinking keeps candidates supported by evaluating Coq's wf on each batch of shrink candidates, so a replay is
  never an unsupported proto (an early version shrank to `sequence_type {}`, which raises on any tree).
"""

from __future__ import annotations

import ast
import base64
import json
import logging
import os
import struct

import translate as T
from harness import common
from harness.common import REPO

SER = os.path.join(REPO, "src", "onnx_ir", "serde.py")
ENUMS = os.path.join(REPO, "src", "onnx_ir", "_enums.py")


# =========================================================================== translation (Gen/C02Gen.v)

def _enum_members(path: str, cls: str) -> list[tuple[str, int]]:
    with open(path, encoding="utf-8") as f:
        mod = ast.parse(f.read())
    for n in mod.body:
        if isinstance(n, ast.ClassDef) and n.name == cls:
            out = []
            for s in n.body:
                if (isinstance(s, ast.Assign) and len(s.targets) == 1 and isinstance(s.targets[0], ast.Name)
                        and s.targets[0].id.isupper()):
                    out.append((s.targets[0].id, T.const_int(s.value)))
            if not out:
                raise T.Unsupported(f"enum {cls} has no integer members")
            return out
    raise T.Unsupported(f"class {cls} not found in {path}")


def generate(ck) -> bool:
    try:
        text = T.HEADER
        text += T.translate_int_constant(SER, "_MULTI_DEVICE_SUPPORTED_VERSION")[0] + "\n"
        text += T.translate_int_constant(SER, "_FUNCTION_VALUE_INFO_SUPPORTED_VERSION")[0] + "\n"
        for cls, nm in (("DataType", "datatype_values"), ("AttributeType", "attrtype_values")):
            mem = _enum_members(ENUMS, cls)
            text += (f"(* translated from _enums.py::{cls} members *)\nDefinition {nm} : list Z := ["
                     + "; ".join(T.coq_Z(v) for _, v in mem) + "].\n")
            for k, v in mem:
                text += f"Definition {cls}_{k} : Z := {T.coq_Z(v)}.\n"
            text += "\n"
        if T.read_literal(SER, "_QUANT_PARAMETER_TENSOR_NAMES_FIELD") != "quant_parameter_tensor_names":
            raise T.Unsupported("_QUANT_PARAMETER_TENSOR_NAMES_FIELD changed")
    except (T.Unsupported, SyntaxError, OSError) as e:
        ck.gen_failed("C02Gen", e)
        return False
    ck.gen("C02Gen", text)
    return True


# =========================================================================== proto -> Coq term

class Unsupported(Exception):
    """The proto uses a construct outside the Proto datatypes of the model."""


def cz(n: int) -> str:
    return f"({n})" if n < 0 else str(n)


def cstr(s) -> str:
    """str (code points) or bytes -> list N; printable ASCII uses the compact `(q "...")` form."""
    codes = list(s) if isinstance(s, (bytes, bytearray)) else [ord(c) for c in s]
    if not codes:
        return "[]"
    if all(32 <= c < 127 and c != 34 for c in codes):
        return '(q "' + "".join(chr(c) for c in codes) + '")'
    return "[" + ";".join(f"{c}%N" for c in codes) + "]"


def copt(x, f) -> str:
    return "None" if x is None else f"(Some {f(x)})"


def clist(items) -> str:
    return "[" + "; ".join(items) + "]"


def fld(msg, name):
    return getattr(msg, name) if msg.HasField(name) else None


def ostr(msg, name) -> str:
    return copt(fld(msg, name), cstr)


def oz(msg, name) -> str:
    return copt(fld(msg, name), lambda v: cz(int(v)))


def cdict(entries) -> str:
    return clist(f"({cstr(e.key)}, {cstr(e.value)})" for e in entries)


def f32bits(x: float) -> int:
    return struct.unpack("<I", struct.pack("<f", x))[0]


def t_dim(d) -> str:
    w = d.WhichOneof("value")
    v = "DUnset" if w is None else (f"(DVal {cz(d.dim_value)})" if w == "dim_value" else f"(DParam {cstr(d.dim_param)})")
    return f"(mkDim {v} {ostr(d, 'denotation')})"


def t_type(tp) -> str:
    w = tp.WhichOneof("value")
    den = ostr(tp, "denotation")
    if w is None:
        return f"(TUnset {den})"
    if w in ("tensor_type", "sparse_tensor_type"):
        tt = getattr(tp, w)
        sh = clist(t_dim(d) for d in tt.shape.dim) if tt.HasField("shape") else None
        c = "TTensor" if w == "tensor_type" else "TSparse"
        return f"({c} {oz(tt, 'elem_type')} {copt(sh, lambda s: s)} {den})"
    if w in ("sequence_type", "optional_type"):
        st = getattr(tp, w)
        el = t_type(st.elem_type) if st.HasField("elem_type") else None
        c = "TSeq" if w == "sequence_type" else "TOpt"
        return f"({c} {copt(el, lambda s: s)} {den})"
    if w == "map_type":
        return f"(TMap {den})"
    raise Unsupported("opaque_type")


_PACK = {"float_data": (4, "<f"), "int32_data": (5, "<i"), "int64_data": (7, "<q"), "double_data": (10, "<d"),
         "uint64_data": (11, "<Q")}


def t_tensor(t) -> str:
    if t.HasField("segment"):
        raise Unsupported("TensorProto.segment")
    other = []
    for name, (num, fmt) in _PACK.items():
        vals = getattr(t, name)
        if len(vals):
            other.append(f"({num}%N, {cstr(b''.join(struct.pack(fmt, v) for v in vals))})")
    return ("(mkTensorP " + " ".join([
        clist(cz(d) for d in t.dims), oz(t, "data_type"), ostr(t, "name"), ostr(t, "doc_string"),
        oz(t, "data_location"), copt(fld(t, "raw_data"), cstr), clist(cstr(s) for s in t.string_data),
        clist(other), cdict(t.external_data), cdict(t.metadata_props)]) + ")")


def t_vinfo(v) -> str:
    ty = t_type(v.type) if v.HasField("type") else "(TUnset None)"
    return f"(mkVInfoP {ostr(v, 'name')} {ty} {ostr(v, 'doc_string')} {cdict(v.metadata_props)})"


def _utf8_ok(b: bytes) -> bool:
    try:
        b.decode("utf-8")
        return True
    except UnicodeDecodeError:
        return False


def t_attr(a) -> str:
    pop = []
    if a.HasField("f"):
        pop.append(f"(AF {f32bits(a.f)})")
    if a.HasField("i"):
        pop.append(f"(AI {cz(a.i)})")
    if a.HasField("s"):
        pop.append(f"(AS {cstr(a.s)})")
    # sub-message presence is kept: a present-but-empty t / g / tp is AT empty / AG empty / ATP unset, an absent
    # one is ANone (the theorems cover both; norm identifies them)
    if a.HasField("t"):
        pop.append(f"(AT {t_tensor(a.t)})")
    if a.HasField("g"):
        pop.append(f"(AG {t_graph(a.g)})")
    if a.HasField("tp"):
        pop.append(f"(ATP {t_type(a.tp)})")
    if a.HasField("sparse_tensor") or len(a.sparse_tensors):
        pop.append("ASparse")
    if len(a.floats):
        pop.append(f"(AFs {clist(str(f32bits(x)) for x in a.floats)})")
    if len(a.ints):
        pop.append(f"(AIs {clist(cz(x) for x in a.ints)})")
    if len(a.strings):
        pop.append("(ASs " + clist(f"({'true' if _utf8_ok(s) else 'false'}, {cstr(s)})" for s in a.strings) + ")")
    if len(a.tensors):
        pop.append(f"(ATs {clist(t_tensor(x) for x in a.tensors)})")
    if len(a.graphs):
        pop.append(f"(AGs {clist(t_graph(x) for x in a.graphs)})")
    if len(a.type_protos):
        pop.append(f"(ATPs {clist(t_type(x) for x in a.type_protos)})")
    if len(pop) > 1:
        raise Unsupported("attribute with several value fields populated")
    val = pop[0] if pop else "ANone"
    return (f"(mkAttrP {ostr(a, 'name')} {ostr(a, 'ref_attr_name')} {ostr(a, 'doc_string')} "
            f"{oz(a, 'type')} {val})")


def t_simple(s) -> str:
    w = s.WhichOneof("dim")
    v = "DUnset" if w is None else (f"(DVal {cz(s.dim_value)})" if w == "dim_value" else f"(DParam {cstr(s.dim_param)})")
    return f"(mkSimpleShardP {v} {oz(s, 'num_shards')})"


def t_spec(s) -> str:
    return ("(mkShardSpecP " + " ".join([
        ostr(s, "tensor_name"), clist(cz(d) for d in s.device),
        clist(f"({oz(e, 'key')}, {clist(cz(v) for v in e.value)})" for e in s.index_to_device_group_map),
        clist(f"(mkShardedDimP {oz(d, 'axis')} {clist(t_simple(x) for x in d.simple_sharding)})"
              for d in s.sharded_dim)]) + ")")


def t_nodedev(d) -> str:
    return (f"(mkNodeDevP {ostr(d, 'configuration_id')} {clist(t_spec(s) for s in d.sharding_spec)} "
            f"{oz(d, 'pipeline_stage')})")


def t_node(n) -> str:
    return ("(mkNodeP " + " ".join([
        clist(cstr(s) for s in n.input), clist(cstr(s) for s in n.output), ostr(n, "name"), ostr(n, "op_type"),
        ostr(n, "domain"), ostr(n, "overload"), ostr(n, "doc_string"), clist(t_attr(a) for a in n.attribute),
        cdict(n.metadata_props), clist(t_nodedev(d) for d in n.device_configurations)]) + ")")


def t_graph(g) -> str:
    if len(g.sparse_initializer):
        raise Unsupported("sparse_initializer")
    return ("(mkGraphP " + " ".join([
        ostr(g, "name"), ostr(g, "doc_string"), clist(t_vinfo(v) for v in g.input),
        clist(t_tensor(t) for t in g.initializer), clist(t_node(n) for n in g.node),
        clist(t_vinfo(v) for v in g.output), clist(t_vinfo(v) for v in g.value_info),
        clist(f"(mkQuantP {ostr(q, 'tensor_name')} {cdict(q.quant_parameter_tensor_names)})"
              for q in g.quantization_annotation),
        cdict(g.metadata_props)]) + ")")


def t_opsets(l) -> str:
    return clist(f"({cstr(o.domain)}, {cz(o.version)})" for o in l)


def t_function(f) -> str:
    return ("(mkFunctionP " + " ".join([
        ostr(f, "name"), ostr(f, "domain"), ostr(f, "overload"), ostr(f, "doc_string"),
        clist(cstr(s) for s in f.input), clist(cstr(s) for s in f.output), clist(cstr(s) for s in f.attribute),
        clist(t_attr(a) for a in f.attribute_proto), clist(t_node(n) for n in f.node), t_opsets(f.opset_import),
        clist(t_vinfo(v) for v in f.value_info), cdict(f.metadata_props)]) + ")")


def t_model(m) -> str:
    if len(m.training_info):
        raise Unsupported("training_info")
    return ("(mkModelP " + " ".join([
        oz(m, "ir_version"), t_opsets(m.opset_import), ostr(m, "producer_name"), ostr(m, "producer_version"),
        ostr(m, "domain"), oz(m, "model_version"), ostr(m, "doc_string"), t_graph(m.graph),
        cdict(m.metadata_props), clist(t_function(f) for f in m.functions),
        clist(f"(mkDevConfP {ostr(c, 'name')} {oz(c, 'num_devices')} {clist(cstr(d) for d in c.device)})"
              for c in m.configuration)]) + ")")


KINDS = {
    # kind: (proto class name, term printer, Coq case type, Coq roundtrip, Coq norm, Coq eqb, Coq wf)
    "model": ("ModelProto", t_model, "ModelP", "roundtrip_model", "norm_model", "model_eqb", "wf_model"),
    "graph": ("GraphProto", t_graph, "GraphP", "roundtrip_graph", "norm_graph", "graph_eqb_top", "(wf_graph true [])"),
    "tensor": ("TensorProto", t_tensor, "TensorP", "roundtrip_tensor", "norm_tensor", "tensor_eqb", "wf_tensor"),
    "function": ("FunctionProto", t_function, "FunctionP", "roundtrip_function", "norm_function", "function_eqb",
                 "(wf_function true true)"),
    "attr": ("AttributeProto", t_attr, "(AttrP GraphP)", "roundtrip_attr", "norm_attr_top", "attr_eqb_top", "wf_attr_top"),
    "vinfo": ("ValueInfoProto", t_vinfo, "VInfoP", "roundtrip_vinfo", "norm_vinfo", "vinfo_eqb", "wf_vinfo"),
}


# =========================================================================== implementation side

def impl_roundtrip(kind: str, p):
    """to_proto(from_proto(p)) on a private copy; ('ok', q) | ('raise', ExceptionClassName)."""
    import onnx_ir as ir
    from onnx_ir import serde
    p2 = type(p)()
    p2.CopyFrom(p)
    impl_roundtrip.last_twice = None
    try:
        if kind == "vinfo":
            obj = serde.deserialize_value_info_proto(p2, None)
            q = serde.serialize_value(obj)
            q2 = serde.serialize_value(obj)
        else:
            obj = ir.from_proto(p2)
            q = ir.to_proto(obj)
            q2 = ir.to_proto(obj)        # serializing the same IR object again must give the same proto
        if q2 != q:
            d = tree_diff(canon(q), canon(q2))
            impl_roundtrip.last_twice = ["second to_proto of the same IR object differs from the first: "
                                         + (d[0] if d else "only outside the normalisation")]
        return ("ok", q)
    except Exception as e:  # noqa: BLE001
        return ("raise", type(e).__name__)


impl_roundtrip.last_twice = None


# =========================================================================== oracle: norm-aware field diff

AI_ONNX = "ai.onnx"
_SS_FIELDS = {"metadata_props", "external_data", "quant_parameter_tensor_names"}


def _canon_scalar(fd, v):
    if fd.type in (fd.TYPE_FLOAT,):
        return ("f32", f32bits(v))
    if fd.type in (fd.TYPE_DOUBLE,):
        return ("f64", struct.unpack("<Q", struct.pack("<d", v))[0])
    if isinstance(v, bytes):
        return ("b", v.hex())
    return v


def canon(msg, ctx=None):
    """Protobuf message -> plain tree under the documented normalisation."""
    import onnx
    name = msg.DESCRIPTOR.name
    out = {}
    oneofs = {}
    for fd in msg.DESCRIPTOR.fields:
        is_rep = fd.is_repeated if hasattr(fd, "is_repeated") else (fd.label == fd.LABEL_REPEATED)
        if fd.containing_oneof is not None:
            if msg.WhichOneof(fd.containing_oneof.name) == fd.name:
                v = getattr(msg, fd.name)
                oneofs[fd.containing_oneof.name] = (fd.name, canon(v) if fd.type == fd.TYPE_MESSAGE else _canon_scalar(fd, v))
            continue
        v = getattr(msg, fd.name)
        if is_rep:
            if fd.type == fd.TYPE_MESSAGE:
                items = [canon(x) for x in v]
                if fd.name in _SS_FIELDS:
                    items = sorted(items, key=lambda e: (e["key"], e["value"]))
                elif fd.name == "opset_import":
                    items = sorted(items, key=lambda e: (e["domain"], e["version"]))
                elif fd.name == "quantization_annotation":
                    items = sorted(items, key=lambda e: json.dumps(e, sort_keys=True))
                out[fd.name] = items
            else:
                out[fd.name] = [_canon_scalar(fd, x) for x in v]
        elif fd.type == fd.TYPE_MESSAGE:
            if fd.name == "shape" and not msg.HasField("shape"):
                out[fd.name] = None
            elif name == "ModelProto" and fd.name == "graph":
                out[fd.name] = canon(v, _experimental_function_value_names(msg))
            else:
                out[fd.name] = canon(v)
        else:
            out[fd.name] = _canon_scalar(fd, v)
    for k, v in oneofs.items():
        out["oneof:" + k] = v
    if name == "NodeProto":
        if out["domain"] == AI_ONNX:
            out["domain"] = ""
        o = list(out["output"])
        while o and o[-1] == "":
            o.pop()
        out["output"] = o
    if name == "AttributeProto" and not out["ref_attr_name"]:
        pass
    if name == "GraphProto":
        io = {v.name for v in msg.input} | {v.name for v in msg.output}
        referenced = {o for n in msg.node for o in n.output if o} | {t.name for t in msg.initializer}
        referenced |= ctx or set()
        out["value_info"] = _canon_vinfos(msg.value_info, io, referenced, msg.initializer)
    if name == "FunctionProto":
        referenced = {o for n in msg.node for o in n.output if o} | set(msg.input)
        out["value_info"] = _canon_vinfos(msg.value_info, set(), referenced, [])
    return out


def _experimental_function_value_names(m) -> set:
    """Below the IR version that has FunctionProto.value_info, a main-graph value_info entry named
    "{domain}::{function}/{value}" describes a value (input or node output) of a model-local function: the name is
    matched against the qualified-name prefix of every existing function (348a4f1), the rest is the value name —
    such an entry is referenced, hence part of what must round-trip."""
    if m.ir_version >= 10 or not len(m.functions):
        return set()
    out = set()
    for f in m.functions:
        prefix = f"{f.domain}::{f.name}/"
        vals = set(f.input) | {o for n in f.node for o in n.output}
        for vi in m.graph.value_info:
            if vi.name.startswith(prefix) and vi.name[len(prefix):] in vals:
                out.add(vi.name)
    return out


def _vi_has_info(c) -> bool:
    t = c["type"]
    has_type = ("oneof:value" in t) or bool(t["denotation"])
    return has_type or bool(c["metadata_props"]) or bool(c["doc_string"])


def _complete_from_tensor(vi, t):
    """'value-info is added for initializers': an entry of an initializer without type / without shape is
    completed from the tensor (element type, dims)."""
    import onnx
    out = onnx.ValueInfoProto()
    out.CopyFrom(vi)
    tp = out.type
    if tp.WhichOneof("value") is None:
        tp.tensor_type.elem_type = t.data_type
    leaf = tp
    while leaf.WhichOneof("value") in ("sequence_type", "optional_type"):
        inner = getattr(leaf, leaf.WhichOneof("value"))
        if not inner.HasField("elem_type"):
            return out
        leaf = inner.elem_type
    w = leaf.WhichOneof("value")
    if w in ("tensor_type", "sparse_tensor_type") and not getattr(leaf, w).HasField("shape"):
        sh = getattr(leaf, w).shape
        sh.ClearField("dim")
        for d in t.dims:
            sh.dim.add().dim_value = d
    return out


def _canon_vinfos(vinfos, io, referenced, initializers):
    import onnx
    kept = []
    names = set()
    inits = {t.name: t for t in initializers}
    for v in vinfos:
        c = canon(v)
        if _vi_has_info(c):
            names.add(v.name)
            if v.name in referenced and v.name not in io:
                kept.append(canon(_complete_from_tensor(v, inits[v.name])) if v.name in inits else c)
    for t in initializers:
        if t.name and t.name not in io and t.name not in names:
            vi = onnx.ValueInfoProto(name=t.name)
            vi.type.tensor_type.elem_type = t.data_type
            vi.type.tensor_type.shape.ClearField("dim")
            for d in t.dims:
                vi.type.tensor_type.shape.dim.add().dim_value = d
            kept.append(canon(vi))
    return sorted(kept, key=lambda c: (c["name"], json.dumps(c, sort_keys=True)))


def tree_diff(a, b, path="", out=None, limit=8):
    out = [] if out is None else out
    if len(out) >= limit:
        return out
    if isinstance(a, dict) and isinstance(b, dict):
        for k in sorted(set(a) | set(b)):
            if k not in a or k not in b:
                out.append(f"{path}/{k}: present only in {'p' if k in a else 'q'}")
            else:
                tree_diff(a[k], b[k], f"{path}/{k}", out, limit)
    elif isinstance(a, list) and isinstance(b, list):
        if len(a) != len(b):
            out.append(f"{path}: {len(a)} entries in p, {len(b)} in q")
        for i, (x, y) in enumerate(zip(a, b)):
            tree_diff(x, y, f"{path}[{i}]", out, limit)
    elif a != b:
        out.append(f"{path}: p={a!r} q={b!r}"[:300])
    return out


def all_graphs(msg):
    """Every GraphProto inside a model / graph / function / attribute proto."""
    name = msg.DESCRIPTOR.name
    if name == "ModelProto":
        yield from all_graphs(msg.graph)
        for f in msg.functions:
            for n in f.node:
                for a in n.attribute:
                    yield from all_graphs(a)
    elif name == "GraphProto":
        yield msg
        for n in msg.node:
            for a in n.attribute:
                yield from all_graphs(a)
    elif name == "AttributeProto":
        if msg.HasField("g"):
            yield from all_graphs(msg.g)
        for g in msg.graphs:
            yield from all_graphs(g)
    elif name == "FunctionProto":
        for n in msg.node:
            for a in n.attribute:
                yield from all_graphs(a)


def has_repeated_outputs(p) -> bool:
    try:
        return any(len({o.name for o in g.output}) < len(g.output) for g in all_graphs(p))
    except Exception:  # noqa: BLE001
        return False


def oracle_diff(p, q) -> list[str]:
    """Differences between p and q = to_proto(from_proto(p)) beyond the documented normalisation."""
    d = tree_diff(canon(p), canon(q))
    if d and all("/quantization_annotation" in x for x in d) and has_repeated_outputs(p):
        d = ["[repeated-output] " + x for x in d]
    return d


def oracle_case(kind: str, p) -> list[str]:
    """The property on one supported proto: the round trip returns, and returns an equal proto."""
    st, q = impl_roundtrip(kind, p)
    if st != "ok":
        return [f"round trip raised {q}"]
    return oracle_diff(p, q) + (impl_roundtrip.last_twice or [])


# =========================================================================== generator

DTYPES = list(range(1, 27))
NAMES_DOC = ["doc", "a doc string", "", "δοκ ünï", "line1\nline2"]
DENOT = ["DATA_BATCH", "DATA_CHANNEL", "IMAGE", "", "TENSOR"]


class Gen:
    """Structured generator of supported protos (quantifier's feature list); `mutate` makes unsupported ones."""

    def __init__(self, rng, hist=None):
        self.r = rng
        self.n = 0
        self.hist = hist if hist is not None else {}

    def h(self, key):
        self.hist[key] = self.hist.get(key, 0) + 1

    def fresh(self, base="v"):
        self.n += 1
        return f"{base}{self.n}"

    def chance(self, p):
        return self.r.random() < p

    def meta(self, rep, p=0.35):
        if self.chance(p):
            keys = self.r.sample(["k", "a", "zz", "B", "m1", "κλειδί", "namespace", "pkg.onnx::x"], self.r.randrange(1, 4))
            for k in keys:
                rep.add(key=k, value=self.r.choice(["", "v", "value 1", "0", "ω"]))
            self.h("metadata")

    def optstr(self, msg, field, choices, p=0.5):
        """unset / explicitly default / a value"""
        x = self.r.random()
        if x < p:
            setattr(msg, field, self.r.choice(choices))
            self.h("optstr:set")
        elif x < p + 0.08:
            setattr(msg, field, "")
            self.h("optstr:default")

    # ---- types
    def shape(self, sh):
        sh.ClearField("dim")
        for _ in range(self.r.choice([0, 1, 1, 2, 3, 4])):
            d = sh.dim.add()
            k = self.r.random()
            if k < 0.45:
                d.dim_value = self.r.choice([0, 1, 2, 3, 7, 224, 2**40, -1])
                self.h("dim:value")
            elif k < 0.8:
                d.dim_param = self.r.choice(["N", "batch", "seq_len", "M*2", "", "a+b"])
                self.h("dim:param")
            else:
                self.h("dim:unset")
            if self.chance(0.25):
                d.denotation = self.r.choice(DENOT)
                self.h("dim:denotation")

    def type(self, tp, depth=0):
        k = self.r.random()
        if self.chance(0.25):
            tp.denotation = self.r.choice(DENOT)
            self.h("type:denotation")
        if k < 0.5 or depth >= 3:
            tp.tensor_type.elem_type = self.r.choice(DTYPES + [0])
            if self.chance(0.75):
                self.shape(tp.tensor_type.shape)
            self.h("type:tensor")
        elif k < 0.62:
            tp.sparse_tensor_type.elem_type = self.r.choice(DTYPES)
            if self.chance(0.7):
                self.shape(tp.sparse_tensor_type.shape)
            self.h("type:sparse")
        elif k < 0.82:
            self.type(tp.sequence_type.elem_type, depth + 1)
            self.h(f"type:sequence@{depth}")
        else:
            self.type(tp.optional_type.elem_type, depth + 1)
            self.h(f"type:optional@{depth}")

    def vinfo(self, vi, name, typed=0.9):
        vi.name = name
        if self.chance(typed):
            self.type(vi.type)
        self.optstr(vi, "doc_string", NAMES_DOC, 0.3)
        self.meta(vi.metadata_props, 0.3)

    # ---- tensors
    def tensor(self, t, name=None, allow_external=True):
        import numpy as np
        if name is not None:
            t.name = name
        elif self.chance(0.5):
            t.name = self.fresh("t")
        self.optstr(t, "doc_string", NAMES_DOC, 0.3)
        self.meta(t.metadata_props, 0.4)
        dims = [self.r.choice([0, 1, 2, 3]) for _ in range(self.r.choice([0, 1, 1, 2, 3]))]
        n = 1
        for d in dims:
            n *= d
        t.dims.extend(dims)
        k = self.r.random()
        if allow_external and k < 0.15:
            t.data_type = self.r.choice(DTYPES)
            t.data_location = 1
            ents = [("location", self.r.choice(["w.bin", "sub/data.bin", "weights"]))]
            if self.chance(0.7):
                ents.append(("offset", str(self.r.choice([0, 1, 4096, 2**33]))))
            if self.chance(0.7):
                ents.append(("length", str(self.r.choice([0, 4, 128, 10**12]))))
            # entries the IR does not interpret are kept (fb2515e): spec keys checksum/basepath, unknown keys
            for kk, vv in (("checksum", "da39a3ee5e6b4b0d3255bfef95601890afd80709"), ("basepath", "weights/dir"),
                           ("x-vendor", "1"), ("Location", "upper-case key"), ("", "empty key")):
                if self.chance(0.3):
                    ents.append((kk, vv))
                    self.h("tensor:external-extra-entry")
            self.r.shuffle(ents)                       # any order, interpreted and other keys interleaved
            for kk, vv in ents:
                t.external_data.add(key=kk, value=vv)
            self.h("tensor:external")
            return
        if k < 0.27:
            t.data_type = 8
            t.string_data.extend([self.r.choice([b"", b"a", b"\xff\x00", "ü".encode()]) for _ in range(n)])
            self.h("tensor:string_data")
            return
        dt = self.r.choice([d for d in DTYPES if d != 8])
        t.data_type = dt
        store = self.r.choice(["raw", "raw", "typed"])
        if store == "raw":
            width = {1: 4, 2: 1, 3: 1, 4: 2, 5: 2, 6: 4, 7: 8, 9: 1, 10: 2, 11: 8, 12: 4, 13: 8, 14: 8, 15: 16, 16: 2}.get(dt, 1)
            nbytes = (n * width) if dt < 21 or dt == 24 else (n + 1) // 2 if dt in (21, 22, 23) else (n + 3) // 4
            t.raw_data = bytes(self.r.randrange(256) for _ in range(nbytes))
            self.h("tensor:raw_data")
        else:
            if dt == 1:
                t.float_data.extend([self.r.choice([0.0, 1.5, -2.25, float("inf")]) for _ in range(n)])
                self.h("tensor:float_data")
            elif dt == 14:
                t.float_data.extend([float(self.r.randrange(-3, 4)) for _ in range(2 * n)])
                self.h("tensor:float_data")
            elif dt == 11:
                t.double_data.extend([self.r.choice([0.0, 1e300, -1.0]) for _ in range(n)])
                self.h("tensor:double_data")
            elif dt == 15:
                t.double_data.extend([float(self.r.randrange(-3, 4)) for _ in range(2 * n)])
                self.h("tensor:double_data")
            elif dt == 7:
                t.int64_data.extend([self.r.choice([0, -1, 2**62]) for _ in range(n)])
                self.h("tensor:int64_data")
            elif dt in (12, 13):
                t.uint64_data.extend([self.r.choice([0, 1, 2**63]) for _ in range(n)])
                self.h("tensor:uint64_data")
            else:
                t.int32_data.extend([self.r.randrange(0, 4) for _ in range(n)])
                self.h("tensor:int32_data")
        self.h(f"tensor:dtype{dt}")

    # ---- attributes
    ATTR_KINDS = ["INT", "FLOAT", "STRING", "TENSOR", "GRAPH", "FLOATS", "INTS", "STRINGS", "TENSORS", "GRAPHS",
                  "TYPE_PROTO", "TYPE_PROTOS"]

    def attr(self, a, name, visible, depth, in_function_attrs=None, allow_graph=True, irv=10):
        import onnx
        a.name = name
        self.optstr(a, "doc_string", NAMES_DOC, 0.25)
        kinds = [k for k in self.ATTR_KINDS if allow_graph or "GRAPH" not in k]
        if depth >= 2:
            kinds = [k for k in kinds if "GRAPH" not in k]
        if in_function_attrs and self.chance(0.35):
            a.ref_attr_name = self.r.choice(in_function_attrs)
            a.type = getattr(onnx.AttributeProto, self.r.choice(kinds))
            self.h("attr:ref")
            return
        k = self.r.choice(kinds)
        a.type = getattr(onnx.AttributeProto, k)
        self.h("attr:" + k)
        if k == "INT":
            if self.chance(0.85):
                a.i = self.r.choice([0, 1, -1, 2**62, 7])
        elif k == "FLOAT":
            if self.chance(0.85):
                a.f = self.r.choice([0.0, 1.5, -0.0, 3.4e38, float("inf")])
        elif k == "STRING":
            if self.chance(0.85):
                a.s = self.r.choice([b"", b"abc", "ü→".encode(), b"\xff\xfe"])
        elif k == "TENSOR":
            if self.chance(0.1):
                a.t.SetInParent()                      # present but empty
                self.h("attr:present-empty-submessage")
            else:
                self.tensor(a.t)
        elif k == "GRAPH":
            if self.chance(0.1):
                a.g.SetInParent()
                self.h("attr:present-empty-submessage")
            else:
                self.graph(a.g, visible, depth + 1, irv)
        elif k == "FLOATS":
            a.floats.extend([self.r.choice([0.0, 1.0, -2.5]) for _ in range(self.r.randrange(0, 4))])
        elif k == "INTS":
            a.ints.extend([self.r.choice([0, 1, -5, 2**40]) for _ in range(self.r.randrange(0, 4))])
        elif k == "STRINGS":
            a.strings.extend([self.r.choice([b"", b"x", "ß".encode()]) for _ in range(self.r.randrange(0, 4))])
        elif k == "TENSORS":
            for _ in range(self.r.randrange(0, 3)):
                self.tensor(a.tensors.add())
        elif k == "GRAPHS":
            for _ in range(self.r.randrange(0, 3)):
                self.graph(a.graphs.add(), visible, depth + 1, irv)
        elif k == "TYPE_PROTO":
            x = self.r.random()
            if x < 0.8:
                self.type(a.tp)
            elif x < 0.9:
                a.tp.SetInParent()
                self.h("attr:present-empty-submessage")
        elif k == "TYPE_PROTOS":
            for _ in range(self.r.randrange(0, 3)):
                self.type(a.type_protos.add())

    # ---- device configurations
    def nodedev(self, d, names, confs):
        d.configuration_id = self.r.choice(confs + ["dangling_conf"])
        if self.chance(0.5):
            d.pipeline_stage = self.r.choice([0, 1, 3])
        for _ in range(self.r.randrange(0, 3)):
            s = d.sharding_spec.add()
            s.tensor_name = self.r.choice(names + ["not_a_value"])
            s.device.extend([self.r.randrange(-2, 4) for _ in range(self.r.randrange(0, 3))])
            for _ in range(self.r.randrange(0, 2)):
                e = s.index_to_device_group_map.add()
                if self.chance(0.8):
                    e.key = self.r.randrange(0, 3)
                e.value.extend([self.r.randrange(0, 4) for _ in range(self.r.randrange(0, 3))])
            for _ in range(self.r.randrange(0, 3)):
                sd = s.sharded_dim.add()
                if self.chance(0.8):
                    sd.axis = self.r.randrange(-2, 3)
                for _ in range(self.r.randrange(0, 3)):
                    ss = sd.simple_sharding.add()
                    k = self.r.random()
                    if k < 0.4:
                        ss.dim_value = self.r.choice([0, 4, 128])
                    elif k < 0.7:
                        ss.dim_param = self.r.choice(["N", "h"])
                    if self.chance(0.8):
                        ss.num_shards = self.r.choice([0, 2, 4])
        self.h("node:device_configuration")

    # ---- nodes and graphs
    def node(self, n, visible, depth, irv, fattrs=None, confs=None, nout=None):
        n.op_type = self.r.choice(["Add", "Relu", "If", "Loop", "Custom", "Identity", "f"])
        k = self.r.random()
        if k < 0.12:
            n.domain = AI_ONNX
            self.h("node:ai.onnx")
        elif k < 0.3:
            n.domain = self.r.choice(["custom", "com.microsoft", "d"])
        elif k < 0.36:
            n.domain = ""
        self.optstr(n, "name", [self.fresh("node"), "n"], 0.6)
        if irv >= 10:
            self.optstr(n, "overload", ["o1", "int64"], 0.2)
        self.optstr(n, "doc_string", NAMES_DOC, 0.25)
        self.meta(n.metadata_props, 0.3)
        for _ in range(self.r.randrange(0, 4)):
            if visible and self.chance(0.85):
                n.input.append(self.r.choice(visible))
            else:
                n.input.append("")
                self.h("node:empty-input")
        outs = []
        for _ in range(self.r.randrange(1, 4) if nout is None else nout):
            if self.chance(0.12):
                n.output.append("")
                self.h("node:empty-output")
            else:
                o = self.fresh("v")
                if self.chance(0.06) and visible:
                    pass
                n.output.append(o)
                outs.append(o)
        if n.output and n.output[-1] == "":
            self.h("node:trailing-empty-output")
        anames = self.r.sample(["alpha", "axis", "body", "then_branch", "value", "to", "k", "perm"], self.r.randrange(0, 4))
        for an in anames:
            self.attr(n.attribute.add(), an, visible + outs, depth, fattrs, irv=irv)
        if confs is not None and self.chance(0.3):
            for _ in range(self.r.randrange(1, 3)):
                self.nodedev(n.device_configurations.add(), visible + outs or ["x"], confs)
        return outs

    def graph(self, g, outer_visible, depth, irv, confs=None):
        self.optstr(g, "name", [self.fresh("g"), "main"], 0.8)
        self.optstr(g, "doc_string", NAMES_DOC, 0.3)
        self.meta(g.metadata_props, 0.3)
        if depth > 0:
            self.h(f"graph:nested@{depth}")
            # nested graphs follow the model's IR version (5e4600e): device configurations only at IR >= 11
            confs_here = ["c0", "c1"] if (irv >= 11 and self.chance(0.3)) else None
        else:
            confs_here = confs
        ins, inits_only = [], []
        for _ in range(self.r.randrange(0, 4)):
            nm = self.fresh("x")
            if depth > 0 and outer_visible and self.chance(0.1):
                nm = self.r.choice(outer_visible)                        # shadow an outer name
                if nm in ins:
                    continue
                self.h("graph:shadowing")
            self.vinfo(g.input.add(), nm, typed=0.95)
            ins.append(nm)
        for _ in range(self.r.randrange(0, 4)):
            if ins and self.chance(0.3):
                nm = self.r.choice(ins)
                if nm in [t.name for t in g.initializer]:
                    continue
                t = g.initializer.add()
                self.tensor(t, nm)
                self.h("graph:initializer-for-input")
                if len(t.dims) >= 1 and self.chance(0.4):
                    # the input's own info restates the tensor (same type and dims) and adds denotations
                    vi = next(v for v in g.input if v.name == nm)
                    vi.ClearField("type")
                    vi.type.tensor_type.elem_type = t.data_type
                    for d in t.dims:
                        dd = vi.type.tensor_type.shape.dim.add()
                        dd.dim_value = d
                        if self.chance(0.7):
                            dd.denotation = self.r.choice([x for x in DENOT if x])
                    self.h("graph:input-restates-initializer")
            else:
                nm = self.fresh("w")
                self.tensor(g.initializer.add(), nm)
                inits_only.append(nm)
        declared = ins + inits_only
        node_outs = []
        nnodes = self.r.randrange(0, 5 if depth == 0 else 3)
        for _ in range(nnodes):
            vis = list(dict.fromkeys(outer_visible + declared + node_outs))
            if depth > 0 and any(v in outer_visible and v not in declared for v in vis):
                self.h("graph:captures-outer")
            node_outs += self.node(g.node.add(), vis, depth, irv, confs=confs_here)
        # outputs
        outs = []
        cands = node_outs[:]
        self.r.shuffle(cands)
        for nm in cands[: self.r.randrange(0, 3)]:
            self.vinfo(g.output.add(), nm, typed=0.95)
            outs.append(nm)
        if ins and self.chance(0.12):                                     # pass-through input (same info)
            src = self.r.choice(list(g.input))
            if src.name not in outs:
                o = g.output.add()
                o.CopyFrom(src)
                outs.append(src.name)
                self.h("graph:passthrough-output")
        if inits_only and self.chance(0.1):
            nm = self.r.choice(inits_only)
            if nm not in outs:
                self.vinfo(g.output.add(), nm, typed=0.95)
                outs.append(nm)
                self.h("graph:initializer-output")
        # value_info
        tensors = {t.name: t for t in g.initializer}
        for nm in node_outs + inits_only:
            if nm in outs:
                continue
            t = tensors.get(nm)
            if t is not None and len(t.dims) >= 1 and self.chance(0.35):
                # an entry that RESTATES what the tensor already says (same element type, same dims) and only adds
                # dimension denotations / a type denotation / doc / metadata
                vi = g.value_info.add()
                vi.name = nm
                vi.type.tensor_type.elem_type = t.data_type
                for d in t.dims:
                    dd = vi.type.tensor_type.shape.dim.add()
                    dd.dim_value = d
                    if self.chance(0.7):
                        dd.denotation = self.r.choice([x for x in DENOT if x])
                if self.chance(0.3):
                    vi.type.denotation = "TENSOR"
                self.optstr(vi, "doc_string", NAMES_DOC, 0.3)
                self.meta(vi.metadata_props, 0.3)
                self.h("vinfo:restates-initializer")
            elif self.chance(0.45):
                self.vinfo(g.value_info.add(), nm)
                self.h("vinfo:referenced")
        if self.chance(0.15):
            self.vinfo(g.value_info.add(), self.fresh("unref"))
            self.h("vinfo:unreferenced")
        # quantization annotations (also on pass-through values: fixed finding quantization-annotation-duplicated)
        qn = declared + node_outs
        self.r.shuffle(qn)
        for nm in qn[: self.r.choice([0, 0, 1, 2])]:
            qa = g.quantization_annotation.add()
            qa.tensor_name = nm
            for kk in self.r.sample(["SCALE_TENSOR", "ZERO_POINT_TENSOR", "AXIS"], self.r.randrange(1, 3)):
                qa.quant_parameter_tensor_names.add(key=kk, value=self.fresh("q"))
            self.h("graph:quantization_annotation")
        return declared + node_outs

    def function(self, f, irv, idx, confs):
        f.name = "f" + str(idx // 2 if irv >= 10 else idx)
        f.domain = "d" if irv >= 10 else self.r.choice(["d", "custom"])
        if irv >= 10 and idx % 2 == 1:
            f.overload = self.r.choice(["o1", "int64"])
            self.h("function:overload")
        self.optstr(f, "doc_string", NAMES_DOC, 0.3)
        self.meta(f.metadata_props, 0.3)
        if self.chance(0.9):
            f.opset_import.add(domain="", version=self.r.choice([13, 18, 21]))
        ins = [self.fresh("fx") for _ in range(self.r.randrange(0, 3))]
        f.input.extend(ins)
        fattrs = self.r.sample(["alpha", "axis", "mode", "to"], self.r.randrange(0, 3))
        n_plain = self.r.randrange(0, len(fattrs) + 1)
        f.attribute.extend(fattrs[:n_plain])
        for an in fattrs[n_plain:]:
            self.attr(f.attribute_proto.add(), an, [], 0, None, allow_graph=False, irv=irv)
        outs = []
        for _ in range(self.r.randrange(0, 4)):
            outs += self.node(f.node.add(), ins + outs, 0, irv, fattrs=fattrs or None, confs=confs)
        if irv >= 10:
            for nm in outs + ins:
                if self.chance(0.4):
                    self.vinfo(f.value_info.add(), nm)
                    self.h("function:value_info")
        cands = ins + outs
        self.r.shuffle(cands)
        f.output.extend(cands[: self.r.randrange(0, 3)])
        self.h("function")

    def model(self):
        import onnx
        m = onnx.ModelProto()
        irv = self.r.choice([3, 4, 5, 6, 7, 8, 9, 10, 10, 11, 11, 12, 13])
        m.ir_version = irv
        self.h(f"ir_version:{irv}")
        doms = [("", self.r.choice([13, 17, 21]))]
        if self.chance(0.4):
            doms.append((self.r.choice(["custom", "com.microsoft"]), 1))
        if self.chance(0.1):
            doms.append((AI_ONNX, 1))
        self.r.shuffle(doms)
        for d, v in doms:
            m.opset_import.add(domain=d, version=v)
        self.optstr(m, "producer_name", ["pytorch", "verif"], 0.6)
        self.optstr(m, "producer_version", ["2.1", "0"], 0.4)
        self.optstr(m, "domain", ["org.example"], 0.3)
        self.optstr(m, "doc_string", NAMES_DOC, 0.3)
        x = self.r.random()
        if x < 0.4:
            m.model_version = self.r.choice([1, 7, 2**40])
        elif x < 0.5:
            m.model_version = 0
        self.meta(m.metadata_props, 0.4)
        confs = None
        if irv >= 11 and self.chance(0.6):
            confs = []
            for i in range(self.r.randrange(1, 3)):
                c = m.configuration.add()
                c.name = f"c{i}"
                if self.chance(0.9):
                    c.num_devices = self.r.choice([0, 1, 2, 8])
                c.device.extend([f"gpu{j}" for j in range(self.r.randrange(0, 3))])
                confs.append(c.name)
            self.h("model:configuration")
        self.graph(m.graph, [], 0, irv, confs)
        if self.chance(0.5):
            for i in range(self.r.randrange(1, 4)):
                self.function(m.functions.add(), irv, i, confs)
        if irv >= 10 and len(m.functions) and self.chance(0.5):
            # from IR 10 on a main-graph value_info named "{domain}::{function}/{value}" is an ordinary
            # (here: unreferenced) entry and must not touch the function's values
            taken = {v.name for v in m.graph.value_info}
            for f in m.functions:
                vals = list(f.input) + [o for n in f.node for o in n.output if o]
                if not vals or not self.chance(0.7):
                    continue
                nm = f"{f.domain}::{f.name}/{self.r.choice(vals)}"
                if nm in taken:
                    continue
                taken.add(nm)
                self.vinfo(m.graph.value_info.add(), nm, typed=1.0)
                self.h("model:experimental-name-at-ir10+")
            if self.chance(0.3) and "nofn::x/y" not in taken:
                self.vinfo(m.graph.value_info.add(), "nofn::x/y")
        return m


def model_experimental_ir9(g: "Gen"):
    """IR < 10 model whose model-local functions (default domain "", "ai.onnx", a custom one) have their values typed
    through main-graph value_info entries named "{domain}::{function}/{value}" (the format the serializer itself
    writes below IR 10).  Outside wf (the theorem's domain) but inside the property: judged by the oracle."""
    import onnx
    for _ in range(50):
        m = g.model()
        if m.ir_version < 10:
            break
    else:
        return None
    if not len(m.functions):
        g.function(m.functions.add(), m.ir_version, 0, None)
    taken = {v.name for v in m.graph.value_info} | {o for n in m.graph.node for o in n.output}
    for i, f in enumerate(m.functions):
        f.domain = ["", "", AI_ONNX, "pkg", "a::b"][(i + g.r.randrange(5)) % 5]
        f.name = g.r.choice([f"Block{i}", f"mod/Block{i}", f"ns::Block{i}"])   # separators inside the names (348a4f1)
        vals = list(f.input) + [o for n in f.node for o in n.output if o]
        g.r.shuffle(vals)
        for v in vals[: g.r.randrange(1, 4)]:
            nm = f"{f.domain}::{f.name}/{v}"
            if nm in taken:
                continue
            taken.add(nm)
            g.vinfo(m.graph.value_info.add(), nm, typed=0.9)
            g.h("model:experimental-function-value-info-ir<10")
    return m


def model_output_variants(g: "Gen"):
    """Supported-by-oracle variants of a well-formed model (outside wf, inside the property):
    'repeated-output'  a graph or subgraph lists one of its outputs twice (same entry);
    'output-with-value-info'  a node output that is a graph output also has a value_info entry (doc string and type,
                       no metadata) while its output entry has no doc string: the entry must not leak into the output."""
    import onnx
    out = []
    for tag in ("repeated-output", "output-with-value-info"):
        for _ in range(30):
            m = g.model()
            graphs = [x for x in all_graphs(m) if len(x.output)]
            if tag == "output-with-value-info":
                graphs = [x for x in graphs
                          if any(o.name in {y for n in x.node for y in n.output} for o in x.output)]
            if graphs:
                break
        else:
            continue
        gr = g.r.choice(graphs)
        if tag == "repeated-output":
            o = g.r.choice(list(gr.output))
            # the repeated output may carry a quantization annotation: written once (b6bf1ea)
            produced = {y for n in gr.node for y in n.output}
            if (o.name in produced and o.name not in {qa.tensor_name for qa in gr.quantization_annotation}
                    and g.chance(0.6)):
                qa = gr.quantization_annotation.add()
                qa.tensor_name = o.name
                qa.quant_parameter_tensor_names.add(key="SCALE_TENSOR", value="s_rep")
                g.h("model:repeated-output-annotated")
            dup = onnx.ValueInfoProto()
            dup.CopyFrom(o)
            pos = g.r.randrange(len(gr.output) + 1)
            outs = list(gr.output)
            outs.insert(pos, dup)
            del gr.output[:]
            gr.output.extend(outs)
        else:
            produced = {y for n in gr.node for y in n.output}
            o = g.r.choice([x for x in gr.output if x.name in produced])
            o.ClearField("doc_string")
            vi = gr.value_info.add()
            vi.name = o.name
            vi.doc_string = "doc of the value_info entry"
            if g.chance(0.7):
                vi.type.CopyFrom(o.type)
        g.h("model:" + tag)
        out.append((tag, m))
    return out


MUTATIONS = ["dup-metadata-key", "vinfo-names-input", "unresolved-input", "checksum", "function-input-vinfo",
             "quant-passthrough", "seq-no-elem", "map-type", "tensor-no-elem", "sparse-attr", "undefined-attr",
             "devconf-old-ir", "function-vinfo-old-ir", "dup-opset", "output-not-produced", "dup-attr",
             "strings-not-utf8", "type-denotation-only", "empty-sharding-tensor", "dup-value-info",
             "devconf-old-ir-subgraph", "dup-initializer", "exp-vinfo-name", "exp-vinfo-name-value"]


def mutate(rng, m, kind: str) -> bool:
    """Turn a supported model into an unsupported one; returns False when the mutation does not apply."""
    import onnx
    g = m.graph
    if kind == "dup-metadata-key":
        m.metadata_props.add(key="dup", value="1")
        m.metadata_props.add(key="dup", value="2")
    elif kind == "vinfo-names-input":
        if not g.input:
            return False
        vi = g.value_info.add()
        vi.name = g.input[0].name
        vi.type.tensor_type.elem_type = 1
        vi.metadata_props.add(key="from_vi", value="1")
    elif kind == "unresolved-input":
        if not g.node:
            return False
        g.node[0].input.append("nowhere")
    elif kind == "checksum":
        t = g.initializer.add()
        t.name = "ext_ck"
        t.data_type = 1
        t.dims.append(2)
        t.data_location = 1
        t.external_data.add(key="location", value="f.bin")
        t.external_data.add(key="checksum", value="da39a3ee")
    elif kind == "function-input-vinfo":
        if m.ir_version < 10:
            return False
        f = m.functions.add(name="fin", domain="dfin")
        f.input.append("a")
        f.output.append("b")
        f.node.add(op_type="Identity", input=["a"], output=["b"])
        vi = f.value_info.add()
        vi.name = "a"
        vi.type.tensor_type.elem_type = 1
    elif kind == "quant-passthrough":
        x = g.input.add()
        x.name = "pt"
        x.type.tensor_type.elem_type = 1
        g.output.add().CopyFrom(x)
        qa = g.quantization_annotation.add()
        qa.tensor_name = "pt"
        qa.quant_parameter_tensor_names.add(key="SCALE_TENSOR", value="s")
    elif kind == "seq-no-elem":
        vi = g.input.add()
        vi.name = "seq_in"
        vi.type.sequence_type.SetInParent()
    elif kind == "map-type":
        vi = g.input.add()
        vi.name = "map_in"
        vi.type.map_type.key_type = 7
        vi.type.map_type.value_type.tensor_type.elem_type = 1
    elif kind == "tensor-no-elem":
        vi = g.input.add()
        vi.name = "noelem"
        vi.type.tensor_type.shape.dim.add().dim_value = 3
    elif kind == "sparse-attr":
        if not g.node:
            return False
        a = g.node[0].attribute.add(name="sp", type=onnx.AttributeProto.SPARSE_TENSOR)
        a.sparse_tensor.dims.append(1)
    elif kind == "undefined-attr":
        if not g.node:
            return False
        g.node[0].attribute.add(name="undef_attr")
    elif kind == "devconf-old-ir":
        if m.ir_version >= 11 or not g.node:
            return False
        d = g.node[0].device_configurations.add()
        d.configuration_id = "c0"
    elif kind == "function-vinfo-old-ir":
        if m.ir_version >= 10:
            return False
        f = m.functions.add(name="fold", domain="dold")
        f.input.append("a")
        f.output.append("b")
        f.node.add(op_type="Identity", input=["a"], output=["b"])
        vi = f.value_info.add()
        vi.name = "b"
        vi.type.tensor_type.elem_type = 1
    elif kind == "dup-opset":
        m.opset_import.add(domain="dupdom", version=1)
        m.opset_import.add(domain="dupdom", version=2)
    elif kind == "output-not-produced":
        o = g.output.add()
        o.name = "ghost"
        o.type.tensor_type.elem_type = 1
    elif kind == "dup-attr":
        if not g.node:
            return False
        g.node[0].attribute.add(name="dupattr", type=onnx.AttributeProto.INT, i=1)
        g.node[0].attribute.add(name="dupattr", type=onnx.AttributeProto.INT, i=2)
    elif kind == "strings-not-utf8":
        if not g.node:
            return False
        a = g.node[0].attribute.add(name="bad_strings", type=onnx.AttributeProto.STRINGS)
        a.strings.append(b"\xff")
    elif kind == "type-denotation-only":
        vi = g.input.add()
        vi.name = "denot_only"
        vi.type.denotation = "IMAGE"
    elif kind == "empty-sharding-tensor":
        if m.ir_version < 11 or not g.node:
            return False
        d = g.node[0].device_configurations.add()
        d.configuration_id = "c0"
        d.sharding_spec.add()
    elif kind == "devconf-old-ir-subgraph":
        if m.ir_version >= 11:
            return False
        n = g.node.add(op_type="If", output=["sub_if_out"])
        a = n.attribute.add(name="then_branch", type=onnx.AttributeProto.GRAPH)
        inner = a.g.node.add(op_type="Relu", output=["inner_y"])
        inner.device_configurations.add().configuration_id = "c0"
    elif kind == "dup-initializer":
        for dt, v in ((1, 1.0), (11, 2.0)):
            t = g.initializer.add()
            t.name = "dup_init"
            t.data_type = dt
            t.dims.append(1)
            (t.float_data if dt == 1 else t.double_data).append(v)
    elif kind in ("exp-vinfo-name", "exp-vinfo-name-value"):
        # main-graph value_info named like the IR-9 experimental function value-info "{domain}::{function}/{value}"
        f = m.functions.add(name="fexp", domain="pkg")
        f.input.append("a")
        f.output.append("b")
        f.node.add(op_type="Identity", input=["a"], output=["b"])
        if m.ir_version >= 10 and rng.random() < 0.5:
            own = f.value_info.add()
            own.name = "b"
            own.type.tensor_type.elem_type = 1
        for nm, et in (("pkg::fexp/b", 7), ("pkg::fexp/a", 0), ("pkg::nofn/b", 6), ("x/y/z", 1), ("pkg::fexp", 1)):
            vi = g.value_info.add()
            vi.name = nm
            if et:
                vi.type.tensor_type.elem_type = et
                vi.type.tensor_type.shape.dim.add().dim_value = 2
            vi.doc_string = "exp " + nm
            vi.metadata_props.add(key="exp", value="1")
        if kind == "exp-vinfo-name-value":
            g.node.add(op_type="Identity", input=[], output=["pkg::fexp/b"])
    elif kind == "dup-value-info":
        outs = [o for n in g.node for o in n.output if o and o not in [v.name for v in g.output]]
        if not outs:
            return False
        for e in (1, 7):
            vi = g.value_info.add()
            vi.name = outs[0]
            vi.type.tensor_type.elem_type = e
    else:
        raise AssertionError(kind)
    return True


# =========================================================================== cases and correspondence

CASE_HEADER = """From Coq Require Import ZArith NArith List Bool String Ascii.
From IRV Require Import Base.Exn Gen.C02Gen C02.Model C02.Model2 C02.Norm.
Import ListNotations.
Open Scope Z_scope.
Definition q (s : string) : list N := map N_of_ascii (list_ascii_of_string s).
"""


def case_file(kind: str, cases: list[dict]) -> str:
    """cases: {term_p, impl: ('ok', term_q) | ('raise', name), supported: bool}"""
    _, _, ty, rt, norm, eqb, wf = KINDS[kind]
    rows = []
    for c in cases:
        qi = f"(Ok {c['impl'][1]})" if c["impl"][0] == "ok" else "(Raise OtherError)"
        rows.append(f"({c['term_p']},\n   {qi}, {'true' if c['supported'] else 'false'})")
    return CASE_HEADER + (
        f"Definition cases : list ({ty} * res {ty} * bool) :=\n  " + clist(rows).replace("; (", ";\n  (") + ".\n"
        f"Definition agree (c : {ty} * res {ty} * bool) : bool :=\n"
        f"  let '(p, qi, supported) := c in\n"
        f"  let w := {wf} p in\n"
        f"  (implb supported w) &&\n"
        f"  match {rt} p, qi with\n"
        f"  | Ok qm, Ok qq => {eqb} ({norm} qm) ({norm} qq) && (implb w ({eqb} ({norm} qq) ({norm} p)))\n"
        f"  | Raise _, Raise _ => negb w\n"
        f"  | _, _ => false\n"
        f"  end.\n"
        f"Definition diag (c : {ty} * res {ty} * bool) : nat :=\n"
        f"  let '(p, qi, supported) := c in\n"
        f"  let w := {wf} p in\n"
        f"  if negb (implb supported w) then 1%nat else\n"
        f"  match {rt} p, qi with\n"
        f"  | Ok qm, Ok qq => if negb ({eqb} ({norm} qm) ({norm} qq)) then 2%nat\n"
        f"                    else if negb (implb w ({eqb} ({norm} qq) ({norm} p))) then 3%nat else 0%nat\n"
        f"  | Raise _, Raise _ => if w then 4%nat else 0%nat\n"
        f"  | Ok _, Raise _ => 5%nat\n"
        f"  | Raise _, Ok _ => 6%nat\n"
        f"  end.\n"
        f"Eval vm_compute in (failing agree cases).\n"
        f"Eval vm_compute in (map diag cases).\n")


DIAG = {1: "generator says supported but wf is false", 2: "model and implementation outputs differ",
        3: "wf proto but the implementation's output differs from the input after norm",
        4: "wf proto but both model and implementation raise", 5: "implementation raises, model returns",
        6: "model raises, implementation returns"}


def make_case(kind: str, p, supported: bool) -> dict | None:
    printer = KINDS[kind][1]
    try:
        term_p = printer(p)
    except Unsupported:
        return None
    st, q = impl_roundtrip(kind, p)
    if st == "ok":
        try:
            impl = ("ok", printer(q))
        except Unsupported as e:
            impl = ("raise", f"converter:{e}")
    else:
        impl = ("raise", q)
    twice = impl_roundtrip.last_twice
    return {"kind": kind, "proto": p, "term_p": term_p, "impl": impl, "impl_q": q if st == "ok" else None, "twice": twice,
            "supported": supported}


def run_cases(ck, kind: str, cases: list[dict], tag: str, per_file: int = 60) -> list[tuple[dict, int]]:
    """Evaluate the case files in Coq; returns [(case, diag code)] for the failing ones."""
    files = []
    for i in range(0, len(cases), per_file):
        files.append((f"{tag}_{kind}_{i // per_file}", case_file(kind, cases[i:i + per_file])))
    # at most 4 coqc at a time (other checks share the machine)
    import concurrent.futures as cf
    results = []
    with cf.ThreadPoolExecutor(max_workers=4) as ex:
        futs = [ex.submit(ck.coq_eval, text, name, 900) for name, text in files]
        results = [f.result() for f in futs]
    bad = []
    for fi, (rc, out) in enumerate(results):
        if rc != 0:
            raise RuntimeError(f"case file {files[fi][0]} did not compile:\n{out[-3000:]}")
        parts = out.split("\n     : list nat")
        failing = common.parse_nat_list(parts[0])
        diags = common.parse_nat_list(parts[1]) if len(parts) > 1 else []
        for j in failing:
            bad.append((cases[fi * per_file + j], diags[j] if j < len(diags) else -1))
    return bad


def proto_b64(p) -> str:
    return base64.b64encode(p.SerializeToString()).decode()


def proto_from(kind: str, b64: str):
    import onnx
    p = getattr(onnx, KINDS[kind][0])()
    p.ParseFromString(base64.b64decode(b64))
    return p


# =========================================================================== known findings

def known_witnesses() -> dict:
    """Minimal witnesses of the recorded defects (also the `_refuted` terms in Property.v)."""
    import onnx
    w = {}
    # function input value-info is written by the serializer but never read back
    m = onnx.ModelProto(ir_version=10)
    m.opset_import.add(domain="", version=20)
    m.graph.name = "g"
    f = m.functions.add(name="f", domain="d")
    f.input.append("x")
    f.output.append("y")
    f.node.add(op_type="Identity", input=["x"], output=["y"])
    vi = f.value_info.add()
    vi.name = "x"
    vi.type.tensor_type.elem_type = 1
    w["function-input-value-info-dropped"] = ("model", m)
    # quantization annotation emitted twice for a value that is input/initializer and output
    g = onnx.GraphProto(name="g")
    x = g.input.add()
    x.name = "x"
    x.type.tensor_type.elem_type = 1
    g.output.add().CopyFrom(x)
    qa = g.quantization_annotation.add()
    qa.tensor_name = "x"
    qa.quant_parameter_tensor_names.add(key="SCALE_TENSOR", value="s")
    w["quantization-annotation-duplicated"] = ("graph", g)
    # external_data entries other than location/offset/length are dropped
    t = onnx.TensorProto(name="t", data_type=1, dims=[2], data_location=1)
    t.external_data.add(key="location", value="a.bin")
    t.external_data.add(key="checksum", value="da39a3ee5e6b4b0d3255bfef95601890afd80709")
    w["external-data-checksum-dropped"] = ("tensor", t)
    # from_proto crashes on a reference attribute of type GRAPH when the model has device configurations
    m = onnx.ModelProto(ir_version=11)
    m.opset_import.add(domain="", version=20)
    m.graph.name = "g"
    m.configuration.add(name="c0", num_devices=2)
    f = m.functions.add(name="f", domain="d")
    f.attribute.append("body")
    f.output.append("y")
    n = f.node.add(op_type="If", output=["y"])
    n.attribute.add(name="then_branch", ref_attr_name="body", type=onnx.AttributeProto.GRAPH)
    w["ref-graph-attr-crash"] = ("model", m)
    # a value listed twice in graph.output gets its quantization annotation twice
    g2 = onnx.GraphProto(name="g")
    g2.node.add(op_type="Relu", input=[], output=["y"])
    for _ in range(2):
        o = g2.output.add()
        o.name = "y"
        o.type.tensor_type.elem_type = 1
    qa2 = g2.quantization_annotation.add()
    qa2.tensor_name = "y"
    qa2.quant_parameter_tensor_names.add(key="SCALE_TENSOR", value="s")
    w["quantization-annotation-repeated-output"] = ("graph", g2)
    # (fixed 66aa20a) proto-backed tensor metadata was emitted twice
    t = onnx.TensorProto(name="t", data_type=1, dims=[1])
    t.float_data.append(1.0)
    t.metadata_props.add(key="k", value="v")
    w["tensorproto-metadata-duplicated"] = ("tensor", t)
    return w


def probe_fix_flags() -> dict[str, bool]:
    """True when the witness of a recorded finding round-trips on the tree under test."""
    logging.disable(logging.WARNING)
    return {k: not oracle_case(kind, p) for k, (kind, p) in known_witnesses().items()}


def classify_known(diffs: list[str]) -> str | None:
    """Map oracle differences to the key of a recorded finding (by site), else None."""
    if diffs and all("/functions[" in d and "/value_info" in d for d in diffs):
        return "function-input-value-info-dropped"
    if diffs and all(d.startswith("[repeated-output] ") for d in diffs):
        return "quantization-annotation-repeated-output"
    if diffs and all("/quantization_annotation" in d for d in diffs):
        return "quantization-annotation-duplicated"
    if diffs and all("/external_data" in d for d in diffs):
        return "external-data-checksum-dropped"
    if diffs == ["round trip raised TypeError"]:
        return "ref-graph-attr-crash"
    return None


def replay_known(ck) -> None:
    wit = known_witnesses()
    for k in ck._known:
        if k["key"] not in wit:
            ck.broken(f"known-finding-without-witness:{k['key']}", "no witness registered in c02.known_witnesses")
            continue
        kind, p = wit[k["key"]]
        diffs = oracle_case(kind, p)
        ck.count()
        if k.get("status") != "known":
            # repaired ("fixed") findings are ordinary supported cases
            if diffs:
                ck.violation({"kind": kind, "proto_b64": proto_b64(p), "proto_text": str(p)[:3000],
                              "differences": diffs, "coq_diagnosis": f"witness of fixed finding {k['key']} fails again"})
            continue
        if diffs:
            ck.known_finding(k["key"], k["what"])
        else:
            ck.broken(f"known-finding-stale:{k['key']}",
                      "the recorded witness round-trips now; the model (and wf, which excludes this site) "
                      "describes a defect the code no longer has")


# =========================================================================== shrinking

def wf_batch(ck, kind: str, protos: list) -> list[bool]:
    """Coq's wf on a batch of protos (False for protos outside the Proto datatypes)."""
    printer, wf = KINDS[kind][1], KINDS[kind][6]
    terms, idx = [], []
    for i, p in enumerate(protos):
        try:
            terms.append(printer(p))
            idx.append(i)
        except Unsupported:
            pass
    out = [False] * len(protos)
    if not terms:
        return out
    text = CASE_HEADER + "Eval vm_compute in (map (fun p => " + wf + " p) " + clist(terms) + ").\n"
    rc, res = ck.coq_eval(text, f"wf_batch_{kind}", 300)
    if rc != 0:
        raise RuntimeError("wf batch did not compile:\n" + res[-2000:])
    import re
    m = re.search(r"=\s*\[([^\]]*)\]", res)
    vals = [v.strip() == "true" for v in m.group(1).split(";")] if m and m.group(1).strip() else []
    for i, v in zip(idx, vals):
        out[i] = v
    return out


def shrink(ck, kind: str, p, fails, need_wf: bool = True, budget_s: float = 60.0) -> object:
    """Greedy structural shrinking: clear singular fields / drop repeated elements while `fails(p)` holds
    and (need_wf) the candidate is still a supported proto according to Coq's wf (checked in batches, so
    the reported witness is never an unsupported proto)."""
    import time
    t0 = time.time()

    def candidates(msg):
        for fd, v in msg.ListFields():
            is_rep = fd.is_repeated if hasattr(fd, "is_repeated") else (fd.label == fd.LABEL_REPEATED)
            if is_rep:
                for i in range(len(v) - 1, -1, -1):
                    yield ("del", msg, fd.name, i)
                if fd.type == fd.TYPE_MESSAGE:
                    for x in v:
                        yield from candidates(x)
            else:
                yield ("clear", msg, fd.name, None)
                if fd.type == fd.TYPE_MESSAGE:
                    yield from candidates(v)
    cur = type(p)()
    cur.CopyFrom(p)
    for _ in range(30):
        if time.time() - t0 > budget_s:
            break
        n = len(list(candidates(cur)))
        failing = []
        for idx in range(n):
            trial = type(p)()
            trial.CopyFrom(cur)
            cs = list(candidates(trial))
            if idx >= len(cs):
                break
            op, msg, name, i = cs[idx]
            if name == "ir_version":
                continue
            if op == "del":
                del getattr(msg, name)[i]
            else:
                msg.ClearField(name)
            try:
                if fails(trial):
                    failing.append(trial)
            except Exception:  # noqa: BLE001
                continue
        if not failing:
            break
        failing.sort(key=lambda t: t.ByteSize())
        failing = failing[:40]
        ok = wf_batch(ck, kind, failing) if need_wf else [True] * len(failing)
        nxt = next((t for t, w in zip(failing, ok) if w), None)
        if nxt is None:
            break
        cur = nxt
    return cur


# =========================================================================== seeds: backend corpus

def backend_models(limit: int, rng) -> list:
    import glob

    import onnx
    roots = [os.path.join(REPO, "testdata"), os.path.join(os.path.dirname(onnx.__file__), "backend", "test", "data")]
    paths = []
    for r in roots:
        paths += glob.glob(os.path.join(r, "**", "*.onnx"), recursive=True)
        paths += glob.glob(os.path.join(r, "**", "*.textproto"), recursive=True)
    paths = sorted(p for p in paths if os.path.getsize(p) < 6000)
    rng.shuffle(paths)
    out = []
    for p in paths:
        if len(out) >= limit:
            break
        try:
            if p.endswith(".onnx"):
                m = onnx.load(p, load_external_data=False)
            else:
                from google.protobuf import text_format
                m = onnx.ModelProto()
                with open(p, encoding="utf-8") as f:
                    text_format.Parse(f.read(), m)
        except Exception:  # noqa: BLE001
            continue
        out.append((os.path.relpath(p, "/"), m))
    return out


# =========================================================================== main

def gen_cases(ck, n_models: int) -> dict[str, list[dict]]:
    """Generated cases by message kind (supported stream + mutated stream + sub-message streams)."""
    hist = ck.coverage.setdefault("features", {})
    g = Gen(ck.rng, hist)
    by_kind: dict[str, list[dict]] = {k: [] for k in KINDS}
    import onnx
    for i in range(n_models):
        m = g.model()
        c = make_case("model", m, True)
        if c:
            by_kind["model"].append(c)
        if i % 3 == 0:
            m2 = onnx.ModelProto()
            m2.CopyFrom(m)
            mk = MUTATIONS[(i // 3) % len(MUTATIONS)]
            if mutate(ck.rng, m2, mk):
                c = make_case("model", m2, False)
                if c:
                    c["mutation"] = mk
                    by_kind["model"].append(c)
                    ck.hist("unsupported_stream", mk)
        if i % 4 == 0:
            gp = onnx.GraphProto()
            g.graph(gp, [], 0, 11, ["c0"])
            c = make_case("graph", gp, True)
            if c:
                by_kind["graph"].append(c)
    # the experimental function value-info names at both sides of the IR-version gate, in every run
    for irv in (8, 9, 10, 12):
        for mk in ("exp-vinfo-name", "exp-vinfo-name-value"):
            m2 = g.model()
            m2.ir_version = irv
            if mutate(ck.rng, m2, mk):
                c = make_case("model", m2, False)
                if c:
                    c["mutation"] = f"{mk}@ir{irv}"
                    by_kind["model"].append(c)
                    ck.hist("unsupported_stream", f"{mk}@ir{irv}")
    # repeated graph outputs / value_info naming a graph output (oracle-judged)
    for _ in range(max(8, n_models // 20)):
        for tag, m2 in model_output_variants(g):
            c = make_case("model", m2, False)
            if c:
                c["oracle_supported"] = True
                c["mutation"] = tag
                by_kind["model"].append(c)
                ck.hist("oracle_supported_stream", tag)
    # IR < 10: function values typed through the experimental main-graph value_info names (oracle-judged)
    for _ in range(max(12, n_models // 10)):
        m2 = model_experimental_ir9(g)
        if m2 is not None:
            c = make_case("model", m2, False)
            if c:
                c["oracle_supported"] = True
                c["mutation"] = "experimental-function-value-info-ir<10"
                by_kind["model"].append(c)
                ck.hist("oracle_supported_stream", "experimental-function-value-info-ir<10")
    for i in range(n_models):
        t = onnx.TensorProto()
        g.tensor(t)
        c = make_case("tensor", t, True)
        if c:
            by_kind["tensor"].append(c)
        vi = onnx.ValueInfoProto()
        g.vinfo(vi, g.fresh("vi"))
        c = make_case("vinfo", vi, True)
        if c:
            by_kind["vinfo"].append(c)
        if i % 4 == 1:
            # a standalone FunctionProto (deserialize_function / serialize_function, no model IR version)
            fp = onnx.FunctionProto()
            g.function(fp, 12, i, ["c0", "c1"])
            c = make_case("function", fp, True)
            if c:
                by_kind["function"].append(c)
        elif i % 20 == 3:
            fp = onnx.FunctionProto(name="badf", domain="d")
            fp.input.append("x")
            bad = g.r.choice(["output-undeclared", "undefined-attr-proto", "ref-attr-proto"])
            if bad == "output-undeclared":
                fp.output.append("nowhere")
            elif bad == "undefined-attr-proto":
                fp.attribute_proto.add(name="u")
            else:
                fp.attribute_proto.add(name="r", ref_attr_name="x", type=onnx.AttributeProto.INT)
            c = make_case("function", fp, False)
            if c:
                c["mutation"] = "function:" + bad
                by_kind["function"].append(c)
                ck.hist("unsupported_stream", "function:" + bad)
        if i % 8 == 5:
            # unsupported external tensors: duplicated keys (last location/offset/length wins, other duplicates are
            # kept in order), non-canonical integers
            t = onnx.TensorProto(name="ext_bad", data_type=1, dims=[2], data_location=1)
            bad = g.r.choice(["dup-location", "dup-extra", "dup-offset", "leading-zero", "no-location"])
            ents = {"dup-location": [("location", "a"), ("checksum", "c"), ("location", "b")],
                    "dup-extra": [("checksum", "c1"), ("location", "a"), ("checksum", "c2"), ("k", "1"), ("checksum", "c1")],
                    "dup-offset": [("offset", "4"), ("location", "a"), ("offset", "8")],
                    "leading-zero": [("location", "a"), ("offset", "007"), ("length", "0010")],
                    "no-location": [("offset", "1"), ("basepath", "p")]}[bad]
            for kk, vv in ents:
                t.external_data.add(key=kk, value=vv)
            c = make_case("tensor", t, False)
            if c:
                c["mutation"] = "tensor:" + bad
                by_kind["tensor"].append(c)
                ck.hist("unsupported_stream", "tensor:" + bad)
        if i % 2 == 0:
            # a standalone AttributeProto (from_proto / to_proto on an attribute): all kinds, references, subgraphs
            a = onnx.AttributeProto()
            g.attr(a, g.r.choice(["alpha", "body", "value"]), [], 0, ["fa", "fb"] if g.chance(0.3) else None, irv=11)
            c = make_case("attr", a, True)
            if c:
                by_kind["attr"].append(c)
        elif i % 10 == 1:
            a = onnx.AttributeProto(name="bad")
            bad = g.r.choice(["undefined", "sparse", "strings", "mismatch"])
            if bad == "sparse":
                a.type = onnx.AttributeProto.SPARSE_TENSOR
                a.sparse_tensor.dims.append(1)
            elif bad == "strings":
                a.type = onnx.AttributeProto.STRINGS
                a.strings.append(b"\xff")
            elif bad == "mismatch":
                a.type = onnx.AttributeProto.INT
                a.f = 1.5
            c = make_case("attr", a, False)
            if c:
                c["mutation"] = "attr:" + bad
                by_kind["attr"].append(c)
                ck.hist("unsupported_stream", "attr:" + bad)
    return by_kind


def report_failures(ck, kind: str, bad: list[tuple[dict, int]]) -> None:
    """A failing case: decide with the oracle whether it is a property violation; else a broken correspondence."""
    seen = set()
    for c, code in bad:
        p = c["proto"]
        what = DIAG.get(code, str(code))
        if c["supported"] or c.get("oracle_supported") or code in (3, 4):
            diffs = oracle_case(kind, p)
            if diffs:
                key = classify_known(diffs)
                if key and ck.known(key):
                    ck.known_finding(key, ck.known(key)["what"])
                    continue
                sig = (code, tuple(d.split(":")[0] for d in diffs[:3]))
                if sig in seen or len(ck.violations) >= 2:
                    continue
                seen.add(sig)
                small = shrink(ck, kind, p, lambda t: bool(oracle_case(kind, t)) and classify_known(oracle_case(kind, t)) is None)
                ck.violation({"kind": kind, "proto_b64": proto_b64(small), "proto_text": str(small)[:4000],
                              "differences": oracle_case(kind, small), "coq_diagnosis": what,
                              "mutation": c.get("mutation")})
                continue
        if ("corr", code) in seen:
            continue
        seen.add(("corr", code))
        ck.broken(f"correspondence:{kind}:{what}",
                  json.dumps({"kind": kind, "proto_b64": proto_b64(p), "proto_text": str(p)[:3000],
                              "impl": c["impl"][0] if c["impl"][0] == "raise" else "ok",
                              "mutation": c.get("mutation"), "supported": c["supported"]}))


def run(ck) -> None:
    logging.disable(logging.WARNING)
    import warnings
    warnings.simplefilter("ignore")
    ck.trust("Coq 8.16.1 kernel (coqc; vm_compute in case files; no native_compute)",
             "tools/translate.py (IR-version gates, enum members -> Gen/C02Gen.v)",
             "harness/props/c02.py: proto -> Coq term converter (erases presence of sub-messages other than "
             "TensorShapeProto and of key/value inside map entries; rejects protos with several attribute value "
             "fields), generators, norm-aware oracle",
             "modelled not verified: protobuf presence/CopyFrom/oneof semantics, CPython dict insertion order and "
             "sorted() on str, UTF-8 decode/encode, int()/str() on decimal strings, numpy (not involved: payloads "
             "are opaque bytes)")
    ck.assumptions += ["onnx 1.22 / protobuf upb as installed in /venv", "tensor payloads are not interpreted"]
    generate(ck)
    ck.prove()
    # the principal theorem C02_roundtrip (and every stage theorem) is proved; see Property.v
    ck.level = "proof"
    n_models = 170 if not ck.thorough else 3000
    # 1. corpus
    corpus_dir = os.path.join(common.CORPUS, "C02")
    corpus_cases: dict[str, list[dict]] = {k: [] for k in KINDS}
    if os.path.isdir(corpus_dir):
        for fn in sorted(os.listdir(corpus_dir)):
            if fn.endswith(".json"):
                with open(os.path.join(corpus_dir, fn)) as f:
                    e = json.load(f)
                c = make_case(e["kind"], proto_from(e["kind"], e["proto_b64"]), bool(e.get("supported", False)))
                if c and e.get("oracle_supported"):
                    c["oracle_supported"] = True
                if c:
                    corpus_cases[e["kind"]].append(c)
    # 2. generated + backend seeds
    by_kind = gen_cases(ck, n_models)
    seeds = backend_models(40 if not ck.thorough else 400, ck.rng)
    for path, m in seeds:
        c = make_case("model", m, False)        # seeds: model==impl and (wf -> equal); wf not demanded
        if c:
            by_kind["model"].append(c)
            ck.hist("seeds", "backend-corpus")
    oracle_failures = []
    for kind in KINDS:
        cases = corpus_cases[kind] + by_kind[kind]
        if not cases:
            continue
        ck.count(len(cases))
        ck.hist("cases_by_kind", kind, len(cases))
        for c in cases:
            ck.hist("impl_outcome", c["impl"][0] if c["impl"][0] == "ok" else "raise")
            if c["supported"] or c.get("oracle_supported"):
                ck.nontriv((kind, c["term_p"]))
                # the property oracle on every supported case, independently of Coq
                if c["impl"][0] != "ok":
                    oracle_failures.append((kind, c, [f"round trip raised {c['impl'][1]}"]))
                else:
                    d = oracle_diff(c["proto"], c["impl_q"]) + (c.get("twice") or [])
                    if d:
                        oracle_failures.append((kind, c, d))
        try:
            bad = run_cases(ck, kind, cases, "cases")
        except RuntimeError as e:
            ck.broken(f"correspondence:{kind}:case-file", str(e))
            continue
        report_failures(ck, kind, bad)
    ck.coverage["traces_validated_against_impl"] = ck.coverage["evaluations"]
    ck.coverage["rule"] = ("supported (wf) protos: model output == implementation output and both == input "
                           "after norm; unsupported stream: model output == implementation output")
    for c in by_kind["model"][:3]:
        ck.sample({"kind": "model", "supported": c["supported"], "proto_text": str(c["proto"])[:1500]})
    # 3. known findings
    replay_known(ck)
    # 4. oracle failures on supported cases not already reported
    for kind, c, diffs in oracle_failures:
        key = classify_known(diffs)
        if key and ck.known(key):
            ck.known_finding(key, ck.known(key)["what"])
            continue
        if ck.violations:
            break
        small = shrink(ck, kind, c["proto"], lambda t: bool(oracle_case(kind, t)) and classify_known(oracle_case(kind, t)) is None)
        ck.violation({"kind": kind, "proto_b64": proto_b64(small), "proto_text": str(small)[:4000],
                      "differences": oracle_case(kind, small), "coq_diagnosis": "python oracle"})
    # 5. broken obligation / correspondence without a concrete failing input: search harder
    if ck.broken_items and not ck.violations:
        search(ck)


def search(ck) -> None:
    """Violation search: the oracle over fresh supported protos (biased to the sub-message kinds) and seeds."""
    g = Gen(ck.rng, {})
    import onnx
    budget = 600 if not ck.thorough else 6000
    for i in range(budget):
        kind = ["model", "model", "graph", "tensor", "vinfo", "attr", "function"][i % 7]
        if kind == "model":
            p = g.model()
        elif kind == "graph":
            p = onnx.GraphProto()
            g.graph(p, [], 0, 11, ["c0"])
        elif kind == "tensor":
            p = onnx.TensorProto()
            g.tensor(p)
        elif kind == "attr":
            p = onnx.AttributeProto()
            g.attr(p, "alpha", [], 0, None, irv=11)
        elif kind == "function":
            p = onnx.FunctionProto()
            g.function(p, 12, i, ["c0"])
        else:
            p = onnx.ValueInfoProto()
            g.vinfo(p, g.fresh("vi"))
        ck.count()
        diffs = oracle_case(kind, p)
        if diffs and not (classify_known(diffs) and ck.known(classify_known(diffs))):
            small = shrink(ck, kind, p, lambda t: bool(oracle_case(kind, t)) and classify_known(oracle_case(kind, t)) is None)
            ck.violation({"kind": kind, "proto_b64": proto_b64(small), "proto_text": str(small)[:4000],
                          "differences": oracle_case(kind, small), "coq_diagnosis": "search after broken obligation",
                          "broken": ck.broken_items})
            return


def replay(rp: dict) -> int:
    logging.disable(logging.WARNING)
    import warnings
    warnings.simplefilter("ignore")
    if "proto_b64" not in rp:
        print("replay names a broken obligation/correspondence, no concrete input:",
              json.dumps(rp.get("broken"), indent=1)[:3000])
        return 1
    p = proto_from(rp["kind"], rp["proto_b64"])
    diffs = oracle_case(rp["kind"], p)
    print(json.dumps({"kind": rp["kind"], "proto": str(p)[:3000], "differences": diffs}, indent=1, ensure_ascii=False))
    return 1 if diffs else 0

"""C19 — device annotations follow object identity and never dangle.

Decided by: Coq theorems (coq/theories/C19/Property.v) about the hand-written executable model
coq/theories/C19/Model.v of Node.shard / set_pipeline_stage / sharding_of / _drop_sharding_for_value,
replace_input_with / resize_outputs / resize_inputs, Graph.remove(safe=True),
Model.add_/remove_device_configuration(cascade), Value.name, Model.clone (+ _remap_device_configurations),
to_proto/from_proto of the multi-device fields (IR >= 11) and _check_device_configurations,
tied to /repo on every run by a correspondence check (this file): seeded op histories are executed on the
real onnx_ir objects; after EVERY op the canonical observation (result / per-node inputs, outputs and
device configurations by value and configuration handle / registered configurations / current names /
classified output of _check_device_configurations / serialize_node_device_configuration of every node
configuration) is embedded into a Coq case file and compared inside Coq (vm_compute) with the model run
on the same history.  A property oracle (public API only) runs on the implementation after every op.

Log of decisions
----------------
Theorems (Property.v; all closed under the global context):
  C19_inv_reachable      DevInv h0 -> ops_ok h0 ops -> DevInv (run h0 ops)   (induction over histories)
  C19_inv_initial        a state without annotations satisfies DevInv
  C19_clone_same_configurations  the clone registers the same configuration objects for every parameter
                         combination of clone (deep_copy, allow_outer_scope_values)
  C19_check_empty        DevInv h -> names_nonempty h -> check h = []
  C19_drop_replace_input / C19_drop_resize_outputs / C19_drop_resize_inputs
                         specs of a value that left the node are gone, all other specs and nodes untouched
  C19_reject_frame       exec h op = (h', Raise e) -> h' = h            (every op, every exception)
  C19_invalid_shard_rejected / C19_invalid_stage_rejected   invalid requests do raise
  C19_ser_current_names  serialize_node_device_configuration uses the current names (characterisation)
  C19_roundtrip_identity DevInv h -> rt_domain h -> ir >= 11 -> ser_ok h -> roundtrip h = (h, Ok tt)
  C19_resolve_through_scopes  a successful lookup returns the value declared under that name in the innermost
                         enclosing scope declaring it (captured values found in enclosing scopes, locals shadow)
  C19_roundtrip_old_ir   ir < 11: every annotation (at every nesting depth) and configuration is dropped, DevInv
                         kept.  (History: the first nested model reproduced "nodes inside bodies keep their
                         annotations below IR 11" — the gate was not passed down to serialize_graph_into for graph
                         attributes; repaired in /repo by 5e4600e, model and theorem changed in the same step;
                         the probe below now expects nothing to survive.)
  C19_noncascade_breaks  (documented behaviour, not a finding) remove without cascade leaves a dangling ref
Second deepening round (2026-09-26): the model is the source.
  Gen/C19Gen.v is regenerated on every run by harness/props/_c19_gen.py: 25 methods are statement-pinned (digest of
  the docstring-free AST: Node.shard / sharding_of / _drop_sharding_for_value / set_pipeline_stage /
  replace_input_with / resize_inputs / resize_outputs, Model.add_/remove_device_configuration / clone,
  Cloner._remap_device_configurations, serde's 12 (de)serializers of the multi-device messages, the checker), and
  the 20 decision sites of shard / set_pipeline_stage / sharding_of / _drop_sharding_for_value /
  remove_device_configuration (+ cascade _is_target) are translated expression by expression (`is` -> identity,
  ==/!=/in on ModelConfiguration -> field equality c_equal, on Value -> identity).  C19/GenEquiv.v proves the hand
  model's ops equal to the methods re-assembled from the generated sites (C19_model_is_translation,
  C19_drop_is_translation) and C19_configurations_by_identity (an unregistered object is rejected even when an
  equal one is registered).  After a deliberate change of /repo to a pinned method: re-pin with
  `python -m harness.props._c19_gen --pin` once the model has been compared with the new text.
  Cross-root uses (a function node reading a main-graph value and vice versa) are now in the model: Model.clone
  clones the main graph and the function with separate value maps.
Deepening round (2026-09-26):
  C19_deser_ser_id       serialization is now an explicit proto (Model.ser_model: ModelProto.configuration +
                         device_configurations of every NodeProto at every depth, by name) and an explicit
                         deserializer (Model.deser: names -> objects through the scope stack / the deserialized
                         configurations); deser h (ser_model h) = h on DevInv states in the domain, IR >= 11;
                         roundtrip := deser . ser_model.  New correspondence stream "to_proto_compared": the real
                         ir.to_proto(model) output is compared with ser_model after every step where the model is
                         in the round-trip domain (only when it differs from the previous one).
  Shape edits            Value.shape = ... is an op (OSetRank: the record of the value is replaced everywhere).
                         The invariant is proved once for a "rank view" (Proofs.Gen): identity view = DevInv,
                         unknown view = DevInvW (everything except "axes inside the current rank / distinct after
                         normalisation"; recorded axes pairwise distinct as written).
    C19_invW_reachable     DevInvW along every history that edits shapes freely
    C19_shape_edit_keeps_inv  DevInv survives a shape edit iff the new rank keeps the recorded axes valid
                           (setrank_ok; now a clause of ops_ok, so C19_inv_reachable covers such edits)
    C19_check_weak         on DevInvW states the library's check reports at most axis messages (kinds 7, 8)
    C19_shape_edit_unspecified  witness that it does report them (rank 2 -> 1: axes -1 and 0 coincide)
                         Histories with i % 4 == 2 interleave set_rank ops (oracle: axes clause replaced by "recorded
                         axes distinct as written" after the first shape edit).  Function inputs are not edited
                         (FunctionProto does not carry their shapes).
  Case files: "nodes unchanged" and unchanged names are abbreviated (Model.obs_agree compares with the state before
  the op), which halved their size.
Reading of the English (weaker reading where ambiguous):
  * "registered on its model": the node configuration's ModelConfiguration object `is` an element of
    model.device_configurations.
  * op alphabet of the invariant theorem (ops_ok): shard/set_pipeline_stage use a configuration that is
    registered at that moment and device indices inside range(num_devices); remove_device_configuration
    is used with cascade=True; a shape edit of a sharded value keeps its recorded axes valid (setrank_ok) — for
    arbitrary shape edits see DevInvW above.  Outside that alphabet the model is still faithful (the correspondence exercises it in
    the "malformed" histories) but DevInv's configuration/device clauses are not claimed.
  * "library's check reports nothing": for states whose sharded values have non-empty names
    (names_nonempty); with an empty name the check reports exactly the empty-name message and
    serialization raises.
  * "rejected without effect": any exception type, canonical state (by handles) unchanged.
Tie: see above; histories interleave all twelve ops on a model with a main graph and a function whose nodes
  carry nested subgraph bodies (depth <= 2; body nodes are annotated on values captured from enclosing graphs,
  on local values and on locals shadowing unused outer names — generator op "shadow") so the
  all_nodes()+functions traversals of cascade / check / resolve, the scope stack of the deserializer and the
  order in which the cloner fills its value map (outputs of a node after its bodies) are exercised; strict
  histories stay in
  the alphabet, malformed ones add non-cascade removal, unregistered configurations and out-of-range devices.
Modelled, not verified: protobuf field presence, Graph/Function containers and usage tracking (C01), name
  authority, shape/type (de)serialization (only the rank is observed), SimpleShardedDim.dim,
  index_to_device_group_map (never produced by the API), device_names, graph inputs of subgraph bodies
  (bodies are If-style, without inputs of their own), None references (tensor_name / configuration_id absent).
  Round trips are modelled on the domain rt_domain = "the wiring itself survives": in every scope the declared
  values (graph inputs, node outputs) have non-empty names that identify them, and every input/output of every
  node resolves through the scope stack of its graph to itself; outside it the model answers Raise OtherError
  and the harness (World.rt_offenders mirrors the definition) does not call the implementation.
  Nodes that own bodies are never removed.
Observations on the three reading decisions (probed on every run, evidence key probes_outside_alphabet;
  none is a violation of the statement, which lists none of them):
  * Node.shard accepts device indices outside range(num_devices); the library's check then reports
    "device index ... out of range" (kind 10).
  * Node.shard / set_pipeline_stage accept a ModelConfiguration that is not registered on the model (never
    registered, or removed); the check reports "not declared" (kind 3) — or "not the one registered"
    (kind 4) when a same-named configuration was registered later; after a round trip such a reference is a
    placeholder configuration with num_devices=0.
  * editing the shape of a sharded value afterwards (rank 2 -> 1) leaves the recorded axis out of range;
    the check reports kind 7.
  Also observed: FunctionProto does not carry the shapes of function inputs, so their rank is unknown after
  a round trip (world uses rank-unknown function inputs); outputs created by resize_outputs have name None
  and are renamed by the name authority on clone (the generator names them with ordinary rename ops).
Mutants of /repo tried (scratch worktree, VERIF_REPO; quick tier, seed 0) — all reported VIOLATION:
  M1  resize_outputs no longer calls _drop_sharding_for_value      correspondence + oracle, concrete replay
  M2  _drop_sharding_for_value rewrites only the first configuration  correspondence + oracle (needed the "burst"
      generator: one value sharded under several configurations, then leaving)
  M3  shard(): repeated-axis test without normalisation (-1 vs r-1)   correspondence + oracle (request accepted)
  M4  cloner remaps device configurations before the outputs are in the value map   correspondence + oracle
  M5  remove_device_configuration(cascade) skips functions           correspondence + oracle
  M6  node-level IR gate `<=` instead of `<` (IR 11 dropped)           correspondence + oracle (round trip)
  M7  shard(): axis range `-rank <= axis <= rank`                      correspondence only (no-failing-input-found):
      not property-breaking, `shape[axis]` still rejects the request, with IndexError instead of ValueError
  M8  replace_input_with drops only when the new value is not None     correspondence + oracle
  M9  _resolve_node_device_configurations skips functions             correspondence + oracle (round trip)
  M10 conflicting stage not checked when the configuration has specs  correspondence + oracle (request accepted)
  The shrunk witnesses of M1-M6, M8-M10 are kept in corpus/C19 (run first on every run).
  Seeded C19-r5m1 (remove_device_configuration(by object) matches by equality, the cascade by identity): missed
  while every configuration handle came from the model; the op stream now also passes equal-but-distinct
  ModelConfiguration objects (handles >= FOREIGN, created on first use) to remove_device_configuration (cascade
  True/False) and, in malformed histories, to shard / set_pipeline_stage.  Model unchanged: identity, so rejection
  + frame (C19_reject_frame) resp. an unregistered reference (check kind 4).
  Seeded C19-r3m1 (Model.clone(deep_copy=True) re-creates the configuration records while the cloned nodes keep
  the original objects): missed while the clone op only used clone(); the op now carries deep_copy and
  allow_outer_scope_values (the latter through Graph.clone + re-assembly, main graph and its bodies only, since
  Function.clone has no such parameter), nodes/values carry meta entries so deep_copy copies something.
  Since /repo 82dd72c the allow path passes through only values that no node of the cloned graphs defines; a
  use before definition raises (at once or in the cloner's post-check) — Model.clone_inputs `own`.
  Seeded C19-m3 (deserializer resolves sharding names against the innermost scope only): missed by the first
  version (no subgraph bodies in the world); caught since the model/generator have nested scopes — correspondence
  + oracle with a concrete replay (body node sharding a captured value, then a round trip).
"""

from __future__ import annotations

import json
import os
import re

from harness import common
from harness.common import REPO, clist, copt

# --------------------------------------------------------------------------- translation (Gen/C19Gen.v)

def generate(ck) -> bool:
    """Regenerate Gen/C19Gen.v from /repo (statement pins + translated decision sites, harness/props/_c19_gen.py).
    Fail closed: a pinned method that changed or a site outside the translatable fragment is a broken obligation."""
    from translate import Unsupported

    from harness.props import _c19_gen
    try:
        text = _c19_gen.translate(os.path.join(REPO, "src", "onnx_ir"))
    except (Unsupported, SyntaxError, OSError, IndexError) as e:
        ck.gen_failed("C19Gen", e)
        return False
    ck.gen("C19Gen", text)
    return True


# --------------------------------------------------------------------------- Coq printers (Z scope)


def z(n: int) -> str:
    return f"({n})" if n < 0 else str(n)


def zstr(s) -> str:
    return clist(str(ord(c)) for c in (s or ""))


def c_val(v) -> str:
    return f"(V {v[0]} {copt(v[1], z)})"


def c_cfg(c) -> str:
    return f"(C {c[0]} {zstr(c[1])} {z(c[2])})"


def c_spec(sp) -> str:
    return f"(S {c_val(sp[0])} {clist(z(d) for d in sp[1])} {clist(f'(D {z(a)} {z(k)})' for a, k in sp[2])})"


def c_dc(dc) -> str:
    return f"(DC {c_cfg(dc[0])} {copt(dc[1], z)} {clist(c_spec(s) for s in dc[2])})"


def c_node(nd) -> str:
    ins = clist("None" if v is None else f"(Some {c_val(v)})" for v in nd["in"])
    return f"(N {ins} {clist(c_val(v) for v in nd['out'])} {clist(c_dc(d) for d in nd['dc'])})"


def c_nodes(nodes) -> str:
    return clist(f"({nid}, {c_node(nd)})" for nid, nd in nodes)


def c_res(r) -> str:
    return "(Ok tt)" if r == "ok" else f"(Raise {r})"


def c_pdc_raw(p) -> str:
    name, stage, specs = p
    sp = clist(f"({zstr(n)}, {clist(z(d) for d in devs)}, {clist(f'({z(a)}, {z(k)})' for a, k in dims)})"
               for n, devs, dims in specs)
    return f"({zstr(name)}, {copt(stage, z)}, {sp})"


def c_pdc(p) -> str:
    if isinstance(p, str):
        return f"(Raise {p})"
    return f"(Ok {c_pdc_raw(p)})"


def c_proto(pr) -> str:
    """None | exception name | {"cfgs": [(name, ndev)], "nodes": [(nid, [pdc])]}"""
    if pr is None:
        return "None"
    if isinstance(pr, str):
        return f"(Some (Raise {pr}))"
    cfgs = clist(f"({zstr(n)}, {z(d)})" for n, d in pr["cfgs"])
    nodes = clist(f"({nid}, {clist(c_pdc_raw(x) for x in ps)})" for nid, ps in pr["nodes"])
    return f"(Some (Ok (mkMP {cfgs} {nodes})))"


def c_op(o) -> str:
    k = o["op"]
    if k == "shard":
        return (f"(OShard {o['n']} {c_val(o['v'])} {c_cfg(o['c'])} {z(o['axis'])} {z(o['shards'])} "
                f"{clist(z(d) for d in o['devs'])} {copt(o['stage'], z)})")
    if k == "stage":
        return f"(OStage {o['n']} {c_cfg(o['c'])} {z(o['stage'])})"
    if k == "addcfg":
        return f"(OAddCfg {zstr(o['name'])} {z(o['ndev'])})"
    if k == "remcfg_obj":
        return f"(ORemCfgObj {c_cfg(o['c'])} {common.cbool(o['cascade'])})"
    if k == "remcfg_name":
        return f"(ORemCfgName {zstr(o['name'])} {common.cbool(o['cascade'])})"
    if k == "rename":
        return f"(ORename {c_val(o['v'])} {zstr(o['name'])})"
    if k == "replace_input":
        return f"(OReplaceInput {o['n']} {z(o['i'])} {'None' if o['v'] is None else '(Some ' + c_val(o['v']) + ')'})"
    if k == "resize_out":
        return f"(OResizeOut {o['n']} {z(o['k'])})"
    if k == "resize_in":
        return f"(OResizeIn {o['n']} {z(o['k'])})"
    if k == "remove_node":
        return f"(ORemoveNode {o['n']})"
    if k == "clone":
        return f"(OClone {common.cbool(o.get('deep', False))} {common.cbool(o.get('allow', False))})"
    if k == "roundtrip":
        return "ORoundTrip"
    if k == "set_rank":
        return f"(OSetRank {c_val(o['v'])} {copt(o['r'], z)})"
    raise AssertionError(k)


def c_obs(ob) -> str:
    errs = clist(f"({k}, {n}, {z(a)})" for k, n, a in ob["check"])
    ser = clist(f"({nid}, {clist(c_pdc(p) for p in ps)})" for nid, ps in ob["ser"])
    names = clist(f"({c_val(v)}, {zstr(nm)})" for v, nm in ob["names"])
    nodes = "None" if ob.get("nodes_same") else f"(Some {c_nodes(ob['nodes'])})"
    return (f"(mkObs {c_res(ob['res'])} {nodes} {clist(c_val(v) for v in ob['gin'])} "
            f"{clist(c_cfg(c) for c in ob['cfgs'])} {names} {errs} {ser} {c_proto(ob.get('proto'))})")


def c_state(st) -> str:
    names = clist(f"({vid}, {zstr(nm)})" for vid, nm in st["names"])
    sc = (f"(mkSc {st['nmain']}%nat {clist(f'({a}, {b})' for a, b in st['nscope'])} "
          f"{clist(f'({a}, {b})' for a, b in st['parent'])})")
    return (f"(mkSt {names} {c_nodes(st['nodes'])} {clist(c_val(v) for v in st['gin'])} [] "
            f"{st['nextv']} 0 {st['ir']} {sc})")


CASE_HEADER = """From Coq Require Import ZArith List Bool.
From IRV Require Import Base.Exn C19.Model.
Import ListNotations.
Open Scope Z_scope.
Notation V := mkV. Notation C := mkC. Notation D := mkD. Notation S := mkS. Notation DC := mkDC. Notation N := mkN.
"""


# --------------------------------------------------------------------------- the implementation world

_MSG = [
    (2, re.compile(r"references a configuration with an empty name")),
    (3, re.compile(r"which is not declared in")),
    (4, re.compile(r"that is not the one registered under name")),
    (5, re.compile(r"shards a value with an empty name")),
    (6, re.compile(r"which is not an input or output of the node")),
    (7, re.compile(r"sharded axis (-?\d+) of value .* is out of range", re.S)),
    (8, re.compile(r"is sharded along axis (-?\d+) more than once", re.S)),
    (9, re.compile(r"num_shards=(-?\d+) for value")),
    (10, re.compile(r"device index (-?\d+) for value")),
]


def classify(msg: str) -> tuple[int, int, int]:
    m = re.match(r"Node '(?:n(\d+))?", msg)
    nid = int(m.group(1)) if m and m.group(1) is not None else -1
    for kind, rx in _MSG:
        mm = rx.search(msg)
        if mm:
            return (kind, nid, int(mm.group(1)) if mm.groups() else 0)
    return (99, nid, 0)


FOREIGN = 100000


class HarnessError(Exception):
    """The world left the part of the library the model describes (reported as a broken correspondence)."""


class World:
    """A real onnx_ir.Model (main graph + one function) with handle tables for values/configurations/nodes."""

    def __init__(self, init: dict):
        import onnx_ir as ir
        self.ir = ir
        self.vals: list = []          # vid -> Value
        self.vid_of: dict[int, int] = {}
        self.vregion: list = []       # vid -> region index (None for placeholders)
        self.cfgs: list = []          # cid -> ModelConfiguration
        self.cid_of: dict[int, int] = {}
        self.nid_of: dict[int, int] = {}
        self.nregion: dict[int, int] = {}
        self.keep: list = []          # keeps replaced objects alive so id() is never reused
        self.foreign: dict = {}       # handle >= FOREIGN -> configuration object not obtained from the model
        self.nscope: dict[int, int] = {}     # node handle -> scope (0 main graph, 1 function, >= 2 subgraph body)
        self.parent: dict[int, int] = {}     # body scope -> enclosing scope
        self._tmp_scope: dict[int, int] = {}
        graphs = []
        for ri, reg in enumerate(init["regions"]):
            pool = []
            ins = []
            for rank, name in reg["inputs"]:
                v = self._mk_value(name, rank)
                self._reg_value(v, ri)
                ins.append(v)
                pool.append(v)
            nodes = self._build_nodes(reg["nodes"], pool, ri)
            graphs.append(ir.Graph(ins, [], nodes=nodes, opset_imports={"": 20}, name=f"g{ri}"))
        func = ir.Function("dom", "F", graph=graphs[1], attributes=[])
        self.model = ir.Model(graphs[0], ir_version=init["ir"], functions=[func])
        # node handles follow all_nodes() order (a node before the nodes of its bodies)
        for nid, n in enumerate(self.node_objs()):
            self.nid_of[id(n)] = nid
            self.nscope[nid] = self._tmp_scope[id(n)]
            n.name = f"n{nid}"
            n.meta["tag"] = {"nid": nid, "path": [self.nscope[nid]]}     # something for deep_copy=True to copy
            for v in n.outputs:
                v.meta["tag"] = [nid]
            self.nregion[nid] = self._root(self.nscope[nid])
        self.n_init_vals = len(self.vals)

    # ---- tables
    def _mk_value(self, name, rank):
        ir = self.ir
        if rank is None:
            return ir.Value(name=name)
        return ir.Value(name=name, shape=ir.Shape([2] * rank), type=ir.TensorType(ir.DataType.FLOAT))

    def _reg_value(self, v, region) -> int:
        vid = len(self.vals)
        self.vals.append(v)
        self.vregion.append(region)
        self.vid_of[id(v)] = vid
        return vid

    def _reg_cfg(self, c) -> int:
        cid = len(self.cfgs)
        self.cfgs.append(c)
        self.cid_of[id(c)] = cid
        return cid

    def vrec(self, v):
        """(vid, rank) of a Value object; unknown objects (placeholders) get the next fresh handle."""
        vid = self.vid_of.get(id(v))
        if vid is None:
            vid = self._reg_value(v, None)
        return (vid, len(v.shape) if v.shape is not None else None)

    def cfg_obj(self, c):
        """The configuration object of a handle record (cid, name, num_devices).  Handles >= FOREIGN name objects
        that were NOT obtained from this model: a distinct ModelConfiguration built with the given fields (equal
        to, but not, a registered one when the fields coincide); created on first use."""
        cid = c[0]
        if cid < FOREIGN:
            return self.cfgs[cid]
        if cid not in self.foreign:
            from onnx_ir import _multi_device as md
            obj = md.ModelConfiguration(name=c[1], num_devices=c[2])
            self.foreign[cid] = obj
            self.cid_of[id(obj)] = cid
        return self.foreign[cid]

    def crec(self, c):
        cid = self.cid_of.get(id(c))
        if cid is None:
            cid = self._reg_cfg(c)
        return (cid, c.name, c.num_devices)

    def _build_nodes(self, specs, pool, scope):
        """Nodes of one graph; a node may carry subgraph bodies (graph attributes, If/Loop style, no graph inputs)
        whose nodes see the values declared so far in the enclosing graphs (captured values) and their own."""
        ir = self.ir
        nodes = []
        for nd in specs:
            attrs = []
            for bi, body in enumerate(nd.get("bodies", [])):
                sid = 2 + len(self.parent)
                self.parent[sid] = scope
                bnodes = self._build_nodes(body["nodes"], list(pool), sid)
                attrs.append(ir.AttrGraph(f"body{bi}", ir.Graph([], [], nodes=bnodes, name=f"g{sid}")))
            node = ir.Node("", "Op", [None if r is None else pool[r] for r in nd["ins"]], attrs,
                           num_outputs=len(nd["outs"]))
            self._tmp_scope[id(node)] = scope
            for o, (rank, name) in zip(node.outputs, nd["outs"]):
                o.name = name
                if rank is not None:
                    o.shape = ir.Shape([2] * rank)
                    o.type = ir.TensorType(ir.DataType.FLOAT)
                self._reg_value(o, None)
                pool.append(o)
            nodes.append(node)
        return nodes

    def _root(self, scope):
        while scope in self.parent:
            scope = self.parent[scope]
        return scope

    def chain(self, scope) -> list:
        out = [scope]
        while out[-1] in self.parent and len(out) <= len(self.parent):
            out.append(self.parent[out[-1]])
        return out

    def decl(self, scope, objs=None) -> list:
        """Values declared in a scope: its graph inputs and the outputs of its own nodes."""
        vals = []
        if scope == 0:
            vals += list(self.model.graph.inputs)
        elif scope == 1:
            vals += list(self.function().inputs)
        for n in (objs if objs is not None else self.node_objs()):
            if self.nscope[self.nid_of[id(n)]] == scope:
                vals += list(n.outputs)
        return vals

    def resolve(self, scope, name, names=None):
        nm = (lambda v: v.name) if names is None else (lambda v: names.get(id(v), v.name))
        for s in self.chain(scope):
            for v in self.decl(s):
                if (nm(v) or "") == (name or ""):
                    return v
        return None

    def visible(self, nid) -> list:
        return [v for s in self.chain(self.nscope[nid]) for v in self.decl(s)]

    def has_bodies(self, node) -> bool:
        return any(a.type in (self.ir.AttributeType.GRAPH, self.ir.AttributeType.GRAPHS)
                   for a in node.attributes.values())

    def function(self):
        return next(iter(self.model.functions.values()))

    def regions(self):
        return [self.model.graph, self.function()]

    def node_objs(self) -> list:
        out = list(self.model.graph.all_nodes())
        for f in self.model.functions.values():
            out.extend(f.all_nodes())
        return out

    def node_by_id(self, nid):
        for n in self.node_objs():
            if self.nid_of.get(id(n)) == nid:
                return n
        raise HarnessError(f"no node with handle {nid}")

    def gin_objs(self) -> list:
        return list(self.model.graph.inputs) + list(self.function().inputs)

    # ---- canonical observation
    def canon_dc(self, dc):
        if dc.configuration is None:
            raise HarnessError("NodeDeviceConfiguration without configuration (outside the model)")
        cfg = self.crec(dc.configuration)
        specs = []
        for sp in dc.sharding_specs:
            if sp.value is None:
                raise HarnessError("ShardingSpec without value (outside the model)")
            if sp.index_to_device_group_map:
                raise HarnessError("index_to_device_group_map present (outside the model)")
            dims = []
            for sd in sp.sharded_dims:
                if len(sd.simple_shardings) != 1:
                    raise HarnessError("sharded dim without exactly one simple sharding (outside the model)")
                dims.append((sd.axis, sd.simple_shardings[0].num_shards))
            specs.append((self.vrec(sp.value), list(sp.device), dims))
        return (cfg, dc.pipeline_stage, specs)

    def canon_nodes(self):
        out = []
        for n in self.node_objs():
            nid = self.nid_of.get(id(n))
            if nid is None:
                raise HarnessError("node without handle in the model")
            out.append((nid, {"in": [None if v is None else self.vrec(v) for v in n.inputs],
                              "out": [self.vrec(v) for v in n.outputs],
                              "dc": [self.canon_dc(dc) for dc in n.device_configurations]}))
        return out

    def live_objs(self) -> list:
        seen, out = set(), []
        for v in self.gin_objs() + [v for n in self.node_objs() for v in list(n.inputs) + list(n.outputs)]:
            if v is not None and id(v) not in seen:
                seen.add(id(v))
                out.append(v)
        return out

    def observe(self, res: str) -> dict:
        from onnx_ir import _multi_device as md
        from onnx_ir import serde
        nodes = self.canon_nodes()
        ser = []
        for n in self.node_objs():
            ps = []
            for dc in n.device_configurations:
                try:
                    p = serde.serialize_node_device_configuration(dc)
                    ps.append((p.configuration_id, p.pipeline_stage if p.HasField("pipeline_stage") else None,
                               [(s.tensor_name, list(s.device),
                                 [(d.axis, d.simple_sharding[0].num_shards) for d in s.sharded_dim])
                                for s in p.sharding_spec]))
                except Exception as e:  # noqa: BLE001
                    ps.append(common.exn_name(e))
            ser.append((self.nid_of[id(n)], ps))
        names = []
        seen = set()
        for nid, nd in nodes:
            for v in nd["in"] + nd["out"] + [sp[0] for dc in nd["dc"] for sp in dc[2]]:
                if v is not None and v[0] not in seen:
                    seen.add(v[0])
                    names.append((v, self.vals[v[0]].name or ""))
        return {"res": res, "nodes": nodes, "gin": [self.vrec(v) for v in self.gin_objs()],
                "proto": self.proto_content(),
                "cfgs": [self.crec(c) for c in self.model.device_configurations],
                "names": names, "check": [classify(m) for m in md._check_device_configurations(self.model)],
                "ser": ser}

    def proto_content(self):
        """Multi-device content of ir.to_proto(model) (ModelProto.configuration and the device_configurations of
        every NodeProto at every depth, in all_nodes order), taken whenever the model is in the round-trip domain."""
        import onnx
        if not self.rt_domain():
            return None
        try:
            p = self.ir.to_proto(self.model)
        except Exception as e:  # noqa: BLE001
            return common.exn_name(e)
        pnodes = []

        def walk(ns):
            for n in ns:
                pnodes.append(n)
                for a in n.attribute:
                    if a.type == onnx.AttributeProto.GRAPH:
                        walk(a.g.node)
                    elif a.type == onnx.AttributeProto.GRAPHS:
                        for g in a.graphs:
                            walk(g.node)
        walk(p.graph.node)
        for f in p.functions:
            walk(f.node)
        objs = self.node_objs()
        if len(objs) != len(pnodes) or any(a.name != b.name for a, b in zip(objs, pnodes)):
            raise HarnessError("NodeProtos of to_proto do not line up with all_nodes()")
        nodes = []
        for n, pn in zip(objs, pnodes):
            nodes.append((self.nid_of[id(n)], [
                (dc.configuration_id, dc.pipeline_stage if dc.HasField("pipeline_stage") else None,
                 [(sp.tensor_name, list(sp.device), [(d.axis, d.simple_sharding[0].num_shards) for d in sp.sharded_dim])
                  for sp in dc.sharding_spec]) for dc in pn.device_configurations]))
        return {"cfgs": [(c.name, c.num_devices) for c in p.configuration], "nodes": nodes}

    def init_state(self) -> dict:
        return {"names": [(i, v.name or "") for i, v in enumerate(self.vals)], "nodes": self.canon_nodes(),
                "gin": [self.vrec(v) for v in self.gin_objs()], "nextv": len(self.vals),
                "ir": self.model.ir_version, "nmain": len(self.model.graph.inputs),
                "nscope": sorted(self.nscope.items()), "parent": sorted(self.parent.items())}

    def rt_offenders(self, names=None) -> list:
        """Values violating Model.rt_domain: within a scope names are non-empty and identify the declared values;
        every input/output of every node resolves through the scope stack of its graph to itself."""
        nm = (lambda v: v.name) if names is None else (lambda v: names.get(id(v), v.name))
        bad = []
        objs = self.node_objs()
        cache = {s: self.decl(s, objs) for s in [0, 1] + sorted(self.parent)}
        for s in [0, 1] + sorted(self.parent):
            seen = {}
            for v in cache[s]:
                if not nm(v) or (nm(v) in seen and seen[nm(v)] is not v):
                    bad.append(v)
                else:
                    seen[nm(v)] = v
        def res(sc, name):
            for s in self.chain(sc):
                for v in cache[s]:
                    if (nm(v) or "") == (name or ""):
                        return v
            return None
        for n in objs:
            sc = self.nscope[self.nid_of[id(n)]]
            for v in _io(n):
                if res(sc, nm(v)) is not v:
                    bad.append(v)
        return bad

    def rt_domain(self) -> bool:
        return not self.rt_offenders()

    # ---- executing one op on the real objects
    def apply(self, o: dict) -> str:
        """Execute the op on the implementation; returns 'ok' or the exception class name."""
        k = o["op"]
        # resolve the handles first: a history that names a handle that does not exist is not a history
        node = self.node_by_id(o["n"]) if "n" in o else None
        if isinstance(o.get("v"), (tuple, list)) and not 0 <= o["v"][0] < len(self.vals):
            raise HarnessError(f"no value with handle {o['v'][0]}")
        if "c" in o and o["c"][0] < FOREIGN and not 0 <= o["c"][0] < len(self.cfgs):
            raise HarnessError(f"no configuration with handle {o['c'][0]}")
        try:
            if k == "shard":
                node.shard(self.vals[o["v"][0]], configuration=self.cfg_obj(o["c"]),
                           axis=o["axis"], num_shards=o["shards"],
                           device_indices=list(o["devs"]), pipeline_stage=o["stage"])
            elif k == "stage":
                node.set_pipeline_stage(self.cfg_obj(o["c"]), o["stage"])
            elif k == "addcfg":
                c = self.model.add_device_configuration(o["name"], num_devices=o["ndev"])
                self._reg_cfg(c)
            elif k == "remcfg_obj":
                self.model.remove_device_configuration(self.cfg_obj(o["c"]), cascade=o["cascade"])
            elif k == "remcfg_name":
                self.model.remove_device_configuration(o["name"], cascade=o["cascade"])
            elif k == "rename":
                self.vals[o["v"][0]].name = o["name"]
            elif k == "set_rank":
                val = self.vals[o["v"][0]]
                if o["r"] is None:
                    val.shape = None
                else:
                    val.shape = self.ir.Shape([2] * o["r"])
                    if val.type is None:
                        val.type = self.ir.TensorType(self.ir.DataType.FLOAT)
            elif k == "replace_input":
                self.node_by_id(o["n"]).replace_input_with(o["i"], None if o["v"] is None else self.vals[o["v"][0]])
            elif k == "resize_out":
                node = self.node_by_id(o["n"])
                before = len(node.outputs)
                node.resize_outputs(o["k"])
                for v in node.outputs[before:]:
                    self._reg_value(v, None)
            elif k == "resize_in":
                self.node_by_id(o["n"]).resize_inputs(o["k"])
            elif k == "remove_node":
                node.graph.remove(node, safe=True)
            elif k == "clone":
                deep, allow = o.get("deep", False), o.get("allow", False)
                if not allow:
                    new_model = self.model.clone(deep_copy=deep)
                else:
                    # Model.clone has no allow_outer_scope_values: re-assemble the model the way Model.clone does,
                    # from Graph.clone(allow_outer_scope_values=True) and Function.clone
                    ir = self.ir
                    g = self.model.graph.clone(allow_outer_scope_values=True, deep_copy=deep)
                    fs = [f.clone(deep_copy=deep) for f in self.model.functions.values()]
                    new_model = ir.Model(g, ir_version=self.model.ir_version, functions=fs,
                                         device_configurations=self.model.device_configurations)
                self._rebind_clone(new_model)
            elif k == "roundtrip":
                if not self.rt_domain():
                    return "OtherError"
                ir = self.ir
                self._rebind_roundtrip(ir.from_proto(ir.to_proto(self.model)))
            else:
                raise HarnessError(k)
        except HarnessError:
            raise
        except Exception as e:  # noqa: BLE001
            return common.exn_name(e)
        return "ok"

    def _rebind_nodes(self, new_model):
        old = self.node_objs()
        self.keep.append((self.model, old))
        new = list(new_model.graph.all_nodes())
        for f in new_model.functions.values():
            new.extend(f.all_nodes())
        if len(old) != len(new) or len(new_model.functions) != 1:
            raise HarnessError("clone/round trip changed the number of nodes or functions")
        for a, b in zip(old, new):
            self.nid_of[id(b)] = self.nid_of[id(a)]
        return old, new

    def _rebind_clone(self, new_model):
        old_gin = self.gin_objs()
        old, new = self._rebind_nodes(new_model)
        self.model = new_model
        new_gin = self.gin_objs()
        if len(new_gin) != len(old_gin):
            raise HarnessError("clone changed the number of graph inputs")
        for a, b in zip(old_gin, new_gin):
            self._reg_value(b, None)
        for a, b in zip(old, new):
            if len(a.outputs) != len(b.outputs):
                raise HarnessError("clone changed the number of outputs")
            for va, vb in zip(a.outputs, b.outputs):
                self._reg_value(vb, None)

    def _rebind_roundtrip(self, new_model):
        old_gin = self.gin_objs()
        old_cfgs = list(self.model.device_configurations)
        old, new = self._rebind_nodes(new_model)
        self.model = new_model
        pairs = list(zip(old_gin, self.gin_objs()))
        if len(self.gin_objs()) != len(old_gin):
            raise HarnessError("round trip changed the number of graph inputs")
        for a, b in zip(old, new):
            if len(a.outputs) != len(b.outputs) or len(a.inputs) != len(b.inputs):
                raise HarnessError("round trip changed the arity of a node")
            pairs += list(zip(a.inputs, b.inputs)) + list(zip(a.outputs, b.outputs))
        for a, b in pairs:
            if (a is None) != (b is None):
                raise HarnessError("round trip changed an absent input")
            if a is None:
                continue
            vid = self.vid_of[id(a)]
            if self.vid_of.get(id(b), vid) != vid:
                raise HarnessError("round trip merged two values (names not unique?)")
            self.vid_of[id(b)] = vid
            self.vals[vid] = b
        if self.model.ir_version >= 11:
            new_cfgs = list(new_model.device_configurations)
            if len(new_cfgs) != len(old_cfgs):
                raise HarnessError("round trip changed the number of model configurations")
            for a, b in zip(old_cfgs, new_cfgs):
                cid = self.cid_of[id(a)]
                self.cid_of[id(b)] = cid
                self.cfgs[cid] = b


# --------------------------------------------------------------------------- generator

NAME_POOL = ["x", "y", "w", "a_b", "t0", "t1", "", "x"]


def _gen_nodes(rng, cnt: list, pool: int, n_nodes: int, depth: int) -> list:
    """Node specs of one graph; `pool` = number of values visible so far (enclosing graphs + this one)."""
    nodes = []
    for _ in range(n_nodes):
        ins = [rng.choice([None] + list(range(pool)) * 3) for _ in range(rng.randrange(0, 4))]
        nd = {"ins": ins}
        if depth < 2 and rng.random() < (0.45 if depth == 0 else 0.3):
            nd["bodies"] = [{"nodes": _gen_nodes(rng, cnt, pool, rng.randrange(1, 3), depth + 1)}
                            for _ in range(rng.choice([1, 1, 2]))]
        outs = []
        for _ in range(rng.randrange(1, 4)):
            outs.append((rng.choice([None, 1, 2, 2, 3]), f"v{cnt[0]}"))
            cnt[0] += 1
        nd["outs"] = outs
        nodes.append(nd)
        pool += len(outs)
    return nodes


def gen_init(rng) -> dict:
    regions = []
    cnt = [0]
    for ri in range(2):
        n_in = rng.randrange(1, 4) if ri == 0 else rng.randrange(1, 3)
        inputs = []
        for _ in range(n_in):
            # function inputs: rank unknown (their shape is not carried by FunctionProto; observed, C03's area)
            inputs.append((rng.choice([None, 0, 1, 2, 2, 3]) if ri == 0 else None, f"v{cnt[0]}"))
            cnt[0] += 1
        n_nodes = rng.randrange(1, 4) if ri == 0 else rng.randrange(1, 3)
        regions.append({"inputs": inputs, "nodes": _gen_nodes(rng, cnt, n_in, n_nodes, 0 if ri == 0 else 1)})
    return {"ir": rng.choice([11, 11, 11, 11, 11, 12, 13, 10]), "regions": regions}


class Gen:
    """Generates the next op by looking at the world (so that most ops are meaningful); the produced history
    is a plain list of concrete ops that replays deterministically on a fresh World."""

    def __init__(self, rng, strict: bool, shapes: bool = False):
        self.rng = rng
        self.strict = strict
        self.shapes = shapes          # also edit the shapes of (sharded) values
        self.fresh = 0
        self.nforeign = 0
        self.pending: list[dict] = []

    def _registered(self, w):
        return [w.crec(c) for c in w.model.device_configurations]

    def _foreign_equal(self, w):
        """Handle record of a distinct object equal to a registered configuration (preferably one in use)."""
        reg = self._registered(w)
        if not reg:
            return None
        used = [dc[0] for _, nd in w.canon_nodes() for dc in nd["dc"] if dc[0] in reg]
        c = self.rng.choice(used or reg)
        self.nforeign += 1
        return (FOREIGN + self.nforeign, c[1], c[2])

    def _pick_cfg(self, w):
        reg = self._registered(w)
        allc = [w.crec(c) for c in w.cfgs]
        if not self.strict and reg and self.rng.random() < 0.06:
            return self._foreign_equal(w)
        if not self.strict and allc and self.rng.random() < 0.15:
            return self.rng.choice(allc)
        return self.rng.choice(reg) if reg else None

    def _axis(self, rank):
        r = self.rng
        if rank is None:
            return r.randrange(-3, 4)
        if rank == 0 or r.random() < 0.12:
            return r.choice([rank, -rank - 1, rank + 1])
        return r.randrange(-rank, rank)

    def next(self, w: World) -> dict:
        if self.pending:
            return self.pending.pop(0)
        r = self.rng
        nodes = w.canon_nodes()
        kinds = (["shard"] * 30 + ["stage"] * 7 + ["addcfg"] * 8 + ["remcfg"] * 5 + ["rename"] * 7
                 + ["replace_input"] * 12 + ["resize_out"] * 8 + ["resize_in"] * 5 + ["remove_node"] * 2
                 + ["clone"] * 5 + ["roundtrip"] * 8 + ["shadow"] * 3)
        if not self._registered(w):
            kinds += ["addcfg"] * 40
        if self.shapes:
            kinds += ["set_rank"] * 8
        reg_now = self._registered(w)
        if nodes and len(reg_now) >= 2 and r.random() < 0.06:
            nid, nd = r.choice(nodes)
            cand = [("i", i, v) for i, v in enumerate(nd["in"]) if v is not None]
            if nd["out"]:
                cand.append(("o", len(nd["out"]) - 1, nd["out"][-1]))
            if cand:
                kind, pos, v = r.choice(cand)
                for c in reg_now[:3]:
                    self.pending.append({"op": "shard", "n": nid, "v": v, "c": c, "axis": self._axis(v[1]),
                                         "shards": r.choice([1, 2, 4]), "devs": [], "stage": None})
                if kind == "i":
                    self.pending.append(r.choice([{"op": "replace_input", "n": nid, "i": pos, "v": None},
                                                  {"op": "resize_in", "n": nid, "k": pos}]))
                else:
                    self.pending.append({"op": "resize_out", "n": nid, "k": pos})
                return self.pending.pop(0)
        for _ in range(20):
            k = r.choice(kinds)
            if k in ("shard", "stage", "replace_input", "resize_out", "resize_in", "remove_node") and not nodes:
                continue
            if k == "shard":
                c = self._pick_cfg(w)
                if c is None:
                    continue
                nid, nd = r.choice(nodes)
                io = [v for v in nd["in"] if v is not None] + nd["out"]
                sharded = [sp[0] for dc in nd["dc"] for sp in dc[2]]
                if io and r.random() < 0.93:
                    v = r.choice([s for s in sharded if s in io] or io) if r.random() < 0.45 else r.choice(io)
                else:
                    v = w.vrec(r.choice(w.vals))
                shards = r.choice([1, 2, 2, 3, 4, 8]) if r.random() < 0.92 else r.choice([0, -1])
                ndev = c[2]
                if self.strict or r.random() < 0.85:
                    devs = [d for d in range(max(ndev, 0)) if r.random() < 0.5]
                    if r.random() < 0.2 and devs:
                        devs.append(devs[0])
                else:
                    devs = [r.choice([ndev, -1, ndev + 2, 0])]
                stage = None if r.random() < 0.75 else r.choice([0, 1, 2, -1] if r.random() < 0.2 else [0, 1, 2])
                return {"op": "shard", "n": nid, "v": v, "c": c, "axis": self._axis(v[1]), "shards": shards,
                        "devs": devs, "stage": stage}
            if k == "stage":
                c = self._pick_cfg(w)
                if c is None:
                    continue
                return {"op": "stage", "n": r.choice(nodes)[0], "c": c,
                        "stage": r.choice([0, 1, 2, 3]) if r.random() < 0.9 else -1}
            if k == "addcfg":
                reg = self._registered(w)
                u = r.random()
                gone = [c for c in (w.crec(x) for x in w.cfgs) if c not in reg]
                if u < 0.1 and reg:
                    name = r.choice(reg)[1]
                elif not self.strict and gone and u < 0.4:
                    name = r.choice(gone)[1]      # same name as a removed configuration: "imposter" branch
                elif u < 0.15:
                    name = ""
                else:
                    self.fresh += 1
                    name = f"cfg{self.fresh}" if r.random() < 0.8 else r.choice(["cfgA", "cfgB"])
                return {"op": "addcfg", "name": name, "ndev": r.choice([1, 2, 3, 4]) if r.random() < 0.93 else 0}
            if k == "remcfg":
                reg = self._registered(w)
                allc = [w.crec(c) for c in w.cfgs]
                cascade = True if self.strict else r.random() < 0.6
                if r.random() < 0.5:
                    if r.random() < 0.3 and reg:
                        # an equal-but-distinct object: references are by identity, the request is rejected
                        c = self._foreign_equal(w)
                        cascade = True if self.strict else r.random() < 0.7
                    elif r.random() < 0.1 and allc:
                        c = r.choice(allc)
                    elif reg:
                        c = r.choice(reg)
                    else:
                        continue
                    return {"op": "remcfg_obj", "c": c, "cascade": cascade}
                name = r.choice(reg)[1] if reg and r.random() < 0.9 else "nosuch"
                return {"op": "remcfg_name", "name": name, "cascade": cascade}
            if k == "rename":
                live = [w.vrec(v) for v in w.live_objs()]
                v = r.choice(live) if live and r.random() < 0.9 else w.vrec(r.choice(w.vals))
                if r.random() < 0.6:
                    self.fresh += 1
                    name = f"r{self.fresh}"
                else:
                    name = r.choice(NAME_POOL)
                return {"op": "rename", "v": v, "name": name}
            if k == "replace_input":
                cands = [(nid, nd) for nid, nd in nodes if nd["in"]]
                if not cands or r.random() < 0.05:
                    nid, nd = r.choice(nodes)
                    return {"op": "replace_input", "n": nid, "i": r.choice([-1, len(nd["in"]), len(nd["in"]) + 1]),
                            "v": None}
                nid, nd = r.choice(cands)
                sharded_pos = [i for i, v in enumerate(nd["in"]) if v is not None
                               and any(sp[0] == v for dc in nd["dc"] for sp in dc[2])]
                i = r.choice(sharded_pos) if sharded_pos and r.random() < 0.6 else r.randrange(len(nd["in"]))
                pool = [w.vrec(v) for v in w.visible(nid)]
                if r.random() < 0.06:
                    # any declared value, visible or not: forward references, values local to a sibling body, the
                    # owner's own outputs, and values of the OTHER root (function <-> main graph)
                    pool = [w.vrec(v) for sc in [0, 1] + sorted(w.parent) for v in w.decl(sc)]
                u = r.random()
                if u < 0.25 or not pool:
                    v = None
                elif u < 0.35:
                    v = nd["in"][i]
                else:
                    v = r.choice(pool)
                return {"op": "replace_input", "n": nid, "i": i, "v": v}
            if k == "resize_out":
                nid, nd = r.choice(nodes)
                k2 = max(0, len(nd["out"]) + r.choice([-2, -1, -1, 0, 1, 1, 2]))
                # new outputs are born with name None, which Graph's name authority would replace on clone
                # (outside the model): name them right away with ordinary rename ops
                for j in range(k2 - len(nd["out"])):
                    self.fresh += 1
                    self.pending.append({"op": "rename", "v": (len(w.vals) + j, None), "name": f"o{self.fresh}"})
                return {"op": "resize_out", "n": nid, "k": k2}
            if k == "resize_in":
                nid, nd = r.choice(nodes)
                return {"op": "resize_in", "n": nid, "k": max(0, len(nd["in"]) + r.choice([-2, -1, -1, 0, 1, 2]))}
            if k == "set_rank":
                fin = {id(x) for x in w.function().inputs}      # FunctionProto does not carry their shapes
                sharded = [sp[0] for _, nd in nodes for dc in nd["dc"] for sp in dc[2]]
                live = [w.vrec(x) for x in w.live_objs() if id(x) not in fin]
                cand = [x for x in sharded if id(w.vals[x[0]]) not in fin] if r.random() < 0.7 else live
                if not cand:
                    continue
                v = r.choice(cand)
                rk = r.choice([None, 0, 1, 2, 3, 4]) if v[1] is None or r.random() < 0.4 else \
                    max(0, v[1] + r.choice([-1, 1, 1]))
                return {"op": "set_rank", "v": v, "r": rk}
            if k == "remove_node":
                cand = [nid for nid, _ in nodes if not w.has_bodies(w.node_by_id(nid))]
                if not cand:
                    continue
                return {"op": "remove_node", "n": r.choice(cand)}
            if k == "shadow":
                # give a body-local value the name of a value declared in an enclosing graph
                loc = [(nid, v) for nid, nd in nodes if w.nscope[nid] >= 2 for v in nd["out"]]
                if not loc:
                    continue
                nid, v = r.choice(loc)
                outer = [x for sc in w.chain(w.nscope[nid])[1:] for x in w.decl(sc) if x.name]
                if not outer:
                    continue
                return {"op": "rename", "v": v, "name": r.choice(outer).name}
            if k == "clone":
                return {"op": "clone", "deep": r.random() < 0.5, "allow": r.random() < 0.3}
            if k == "roundtrip":
                if not w.rt_domain() and r.random() < 0.85:
                    # repair the names first (renames are ordinary ops of the history)
                    # rename only what breaks the wiring (shadowing of unused outer names is kept)
                    names = {}
                    for _ in range(12):
                        bad = w.rt_offenders(names)
                        if not bad:
                            break
                        v = bad[0]
                        self.fresh += 1
                        names[id(v)] = f"u{self.fresh}"
                        self.pending.append({"op": "rename", "v": w.vrec(v), "name": names[id(v)]})
                    self.pending.append({"op": "roundtrip"})
                    return self.pending.pop(0)
                return {"op": "roundtrip"}
        return {"op": "clone", "deep": True, "allow": False}


# --------------------------------------------------------------------------- property oracle (public API)

def _norm(rank, a):
    return a + rank if (rank is not None and a < 0) else a


def _io(node):
    return [v for v in node.inputs if v is not None] + list(node.outputs)


def _is_in(v, objs) -> bool:
    return any(v is x for x in objs)


def oracle_state(w: World, strict: bool, axes: bool = True) -> list[str]:
    """The property on the current implementation state."""
    from onnx_ir import _multi_device as md
    from onnx_ir import serde
    bad = []
    registered = list(w.model.device_configurations)
    empty_names = False
    for node in w.node_objs():
        io = _io(node)
        for dc in node.device_configurations:
            if strict and (dc.configuration is None or not _is_in(dc.configuration, registered)):
                bad.append(f"{node.name}: node configuration not registered on the model")
            for sp in dc.sharding_specs:
                if sp.value is None or not _is_in(sp.value, io):
                    bad.append(f"{node.name}: sharding spec targets a value that is not an input/output of the node")
                    continue
                if not sp.value.name:
                    empty_names = True
                rank = len(sp.value.shape) if sp.value.shape is not None else None
                seen = set()
                for sd in sp.sharded_dims:
                    if not axes:
                        # after shape edits only "recorded axes pairwise distinct as written" is claimed (DevInvW)
                        if sd.axis in seen:
                            bad.append(f"{node.name}: axis {sd.axis} recorded twice")
                        seen.add(sd.axis)
                    elif rank is not None and not -rank <= sd.axis < rank:
                        bad.append(f"{node.name}: axis {sd.axis} out of range for rank {rank}")
                    elif _norm(rank, sd.axis) in seen:
                        bad.append(f"{node.name}: axis {sd.axis} repeated")
                    else:
                        seen.add(_norm(rank, sd.axis))
                    if any(s.num_shards < 1 for s in sd.simple_shardings):
                        bad.append(f"{node.name}: num_shards < 1")
                if strict and dc.configuration is not None and any(
                        not 0 <= d < dc.configuration.num_devices for d in sp.device):
                    bad.append(f"{node.name}: device index out of range although every request was in range")
            # serialized references use the current names
            try:
                p = serde.serialize_node_device_configuration(dc)
            except Exception:  # noqa: BLE001
                if dc.configuration is not None and dc.configuration.name and all(
                        sp.value is not None and sp.value.name for sp in dc.sharding_specs):
                    bad.append(f"{node.name}: node configuration with non-empty names does not serialize")
                continue
            if p.configuration_id != dc.configuration.name:
                bad.append(f"{node.name}: serialized configuration_id is not the configuration's current name")
            if [s.tensor_name for s in p.sharding_spec] != [sp.value.name for sp in dc.sharding_specs]:
                bad.append(f"{node.name}: serialized tensor_name is not the value's current name")
            if any(not s.tensor_name for s in p.sharding_spec) or not p.configuration_id:
                bad.append(f"{node.name}: serialized an empty reference")
    msgs = [classify(m) for m in md._check_device_configurations(w.model)]
    for kind, nid, arg in msgs:
        if kind == 5 and empty_names:
            continue
        if kind in (7, 8) and not axes:
            continue
        if kind in (6, 7, 8, 9, 99) or strict:
            bad.append(f"_check_device_configurations reports kind {kind} on node n{nid} (arg {arg})")
    return bad


def _ann_shape(w: World, node, cfg_pos) -> list:
    """Annotations of a node up to renaming of identities: values by io positions, configurations by position
    in model.device_configurations (or by identity when cfg_pos is None)."""
    io = [("i", i, v) for i, v in enumerate(node.inputs) if v is not None] + \
         [("o", i, v) for i, v in enumerate(node.outputs)]
    out = []
    for dc in node.device_configurations:
        if cfg_pos is None:
            c = id(dc.configuration)
        else:
            c = next((i for i, x in enumerate(cfg_pos) if x is dc.configuration), ("unregistered", dc.configuration.name))
        out.append((c, dc.pipeline_stage,
                    [(sorted((k, i) for k, i, v in io if v is sp.value), tuple(sp.device),
                      [(sd.axis, tuple(s.num_shards for s in sd.simple_shardings)) for sd in sp.sharded_dims])
                     for sp in dc.sharding_specs]))
    return out


def _snapshot(w: World) -> dict:
    snap = {"nodes": {}, "model": w.model}
    for node in w.node_objs():
        nid = w.nid_of[id(node)]
        snap["nodes"][nid] = {
            "node": node, "io": _io(node), "dcs": node.device_configurations,
            "sharding": [(v, node.sharding_of(v)) for v in _io(node)],
            "shape_id": _ann_shape(w, node, None),
            "shape_pos": _ann_shape(w, node, list(w.model.device_configurations)),
        }
    snap["cfgs"] = list(w.model.device_configurations)
    snap["canon"] = None
    return snap


def shard_invalid(node, o, w: World) -> str | None:
    """Why the property requires this shard request to be rejected (None: not required)."""
    v, c = w.vals[o["v"][0]], w.cfg_obj(o["c"])
    if not _is_in(v, _io(node)):
        return "value is not an input/output of the node"
    if o["shards"] < 1:
        return "fewer than one shard"
    if o["stage"] is not None and o["stage"] < 0:
        return "negative stage"
    rank = len(v.shape) if v.shape is not None else None
    if rank is not None and not -rank <= o["axis"] < rank:
        return "axis out of range"
    for dc in node.device_configurations:
        if dc.configuration is c:
            if o["stage"] is not None and dc.pipeline_stage is not None and dc.pipeline_stage != o["stage"]:
                return "conflicting stage"
            for sp in dc.sharding_specs:
                if sp.value is v and any(_norm(rank, sd.axis) == _norm(rank, o["axis"]) for sd in sp.sharded_dims):
                    return "axis repeated"
            break
    return None


def oracle_step(w: World, o: dict, res: str, before: dict, canon_before, canon_after, strict: bool,
                invalid: str | None) -> list[str]:
    bad = []
    k = o["op"]
    if res != "ok":
        if canon_before != canon_after:
            bad.append(f"{k} raised {res} but changed the observable state")
        return bad
    if invalid is not None:
        bad.append(f"invalid request accepted: {invalid}")
    if k == "stage" and o["stage"] < 0:
        bad.append("negative pipeline stage accepted")
    if k in ("replace_input", "resize_out", "resize_in"):
        for nid, b in before["nodes"].items():
            node = b["node"]
            if nid != o["n"]:
                if node.device_configurations != b["dcs"]:
                    bad.append(f"annotations of another node (n{nid}) changed")
                continue
            io_after = _io(node)
            for v, specs in b["sharding"]:
                now = node.sharding_of(v)
                if not _is_in(v, io_after):
                    if now:
                        bad.append(f"value {v.name!r} left node n{nid} but its sharding specs are still there")
                elif now != specs:
                    bad.append(f"sharding of {v.name!r}, still an input/output of n{nid}, changed")
    if k == "clone" or (k == "roundtrip" and w.model.ir_version >= 11):
        cfg_pos = list(w.model.device_configurations)
        if k == "roundtrip":
            if [(c.name, c.num_devices) for c in cfg_pos] != [(c.name, c.num_devices) for c in before["cfgs"]]:
                bad.append("round trip changed the model's device configurations")
        for node in w.node_objs():
            b = before["nodes"][w.nid_of[id(node)]]
            if k == "clone" and o.get("allow"):
                # an input that was not in the cloner's map is passed through (the original's object): a value that
                # occupied several input/output positions may occupy only some of them in the clone
                new, old = _ann_shape(w, node, None), b["shape_id"]
                ok = len(new) == len(old) and all(
                    (c1, st1, len(sp1)) == (c2, st2, len(sp2)) and all(
                        p1 and set(map(tuple, p1)) <= set(map(tuple, p2)) and (d1, x1) == (d2, x2)
                        for (p1, d1, x1), (p2, d2, x2) in zip(sp1, sp2))
                    for (c1, st1, sp1), (c2, st2, sp2) in zip(new, old))
            elif k == "clone":
                ok = _ann_shape(w, node, None) == b["shape_id"]
            else:
                ok = _ann_shape(w, node, cfg_pos) == b["shape_pos"]
            if not ok and (strict or k == "clone"):
                bad.append(f"{k}: annotations of {node.name} do not refer to the corresponding objects of the result")
    return bad


# --------------------------------------------------------------------------- running a history

def run_history(init: dict, ops, strict: bool, gen: Gen | None = None, nops: int = 0) -> dict:
    """Run (or generate and run) a history on a fresh World.  Returns the recorded ops, observations,
    and oracle failures (with the index of the op)."""
    w = World(init)
    st0 = w.init_state()
    steps, failures = [], []
    last_proto = None
    axes = True
    canon_before = w.observe("ok")
    bad0 = oracle_state(w, strict)
    if bad0:
        failures.append((-1, bad0))
    i = 0
    ops = list(ops) if ops is not None else None
    while True:
        if ops is not None:
            if i >= len(ops):
                break
            o = ops[i]
        else:
            if i >= nops and not gen.pending:
                break
            o = gen.next(w)
        before = _snapshot(w)
        invalid = None
        if o["op"] == "shard":
            try:
                invalid = shard_invalid(w.node_by_id(o["n"]), o, w)
            except (HarnessError, IndexError):
                invalid = None
        try:
            res = w.apply(o)
            ob = w.observe(res)
        except (HarnessError, IndexError, KeyError) as e:
            failures.append((i, [f"harness: {type(e).__name__}: {e}"]))
            steps.append((o, None))
            break
        skip = ("res", "why", "proto", "nodes_same", "all_names", "names")
        cb = {k: v for k, v in canon_before.items() if k not in skip}
        ca = {k: v for k, v in ob.items() if k not in skip}
        cb["names"], ca["names"] = canon_before.get("all_names", canon_before["names"]), ob["names"]
        if o["op"] == "set_rank":
            axes = False      # from here on only DevInvW is claimed about the recorded axes
        bad = oracle_step(w, o, res, before, cb, ca, strict, invalid) + oracle_state(w, strict, axes)
        if bad:
            failures.append((i, bad))
        ob["why"] = invalid
        # abbreviations that keep the case files small: "nodes exactly as before the op"; names only of the values
        # whose name differs from the previous observation (all names were checked against the initial state)
        ob["nodes_same"] = ob["nodes"] == canon_before["nodes"]
        prev_names = dict((v, n) for v, n in canon_before.get("all_names", canon_before["names"]))
        ob["all_names"] = ob["names"]
        ob["names"] = [(v, n) for v, n in ob["names"] if prev_names.get(v) != n]
        # the to_proto stream is compared only when it carries something new (keeps the case files small)
        pr = ob.get("proto")
        if pr is not None and (pr == last_proto or (not isinstance(pr, str) and not pr["cfgs"]
                                                    and not any(ps for _, ps in pr["nodes"]))):
            ob["proto"] = None
        else:
            last_proto = pr if pr is not None else last_proto
        steps.append((o, ob))
        canon_before = ob
        i += 1
    return {"init": init, "state0": st0, "strict": strict, "steps": steps, "failures": failures}


def case_term(h: dict) -> str:
    steps = clist(f"({c_op(o)}, {c_obs(ob)})" for o, ob in h["steps"] if ob is not None)
    return f"({c_state(h['state0'])},\n   {steps})"


def case_file(hs: list[dict]) -> str:
    return (CASE_HEADER + "Definition cases : list (state * list (op * obs)) :=\n  "
            + clist(case_term(h) for h in hs).replace("; ((mkSt", ";\n  ((mkSt") + ".\n"
            "Eval vm_compute in (failing case_agree cases).\n")


def first_diff_file(h: dict) -> str:
    return (CASE_HEADER + "Definition c : state * list (op * obs) :=\n  " + case_term(h) + ".\n"
            "Eval vm_compute in [first_diff (fst c) (snd c) 0].\n")


def correspondence(ck, hs: list[dict], tag: str) -> list[int]:
    """Indices of histories whose observations disagree with the model (compared inside Coq)."""
    import concurrent.futures as cf
    chunk = 40 if len(hs) > 400 else max(20, -(-len(hs) // 4))     # quick: exactly one wave of four files
    parts = [(f"{tag}_{i // chunk}", hs[i:i + chunk], i) for i in range(0, len(hs), chunk)]
    out = []
    with cf.ThreadPoolExecutor(max_workers=4) as ex:
        futs = [(base, ex.submit(ck.coq_eval, case_file(part), name, 900)) for name, part, base in parts]
        for base, f in futs:
            rc, txt = f.result()
            if rc != 0:
                raise RuntimeError(f"case file did not compile:\n{txt[-3000:]}")
            out += [base + j for j in common.parse_nat_list(txt)]
    return out


def first_diff(ck, h: dict) -> int:
    rc, txt = ck.coq_eval(first_diff_file(h), "first_diff", 300)
    if rc != 0:
        raise RuntimeError(f"case file did not compile:\n{txt[-3000:]}")
    return common.parse_nat_list(txt)[0]


# --------------------------------------------------------------------------- shrinking / replay

def _fails(init, ops, strict) -> list:
    try:
        f = run_history(init, ops, strict)["failures"]
    except Exception:  # noqa: BLE001
        return []
    if any(b.startswith("harness:") for _, bb in f for b in bb):
        return []
    return f


def shrink(init: dict, ops: list[dict], strict: bool) -> list[dict]:
    """Greedy removal of ops while the property oracle still fails."""
    cur = list(ops)
    f = _fails(init, cur, strict)
    if f and f[0][0] >= 0:
        cur = cur[:f[0][0] + 1]
    changed = True
    while changed:
        changed = False
        for i in range(len(cur) - 1, -1, -1):
            cand = cur[:i] + cur[i + 1:]
            if _fails(init, cand, strict):
                cur, changed = cand, True
    return cur


def replay(rp: dict) -> int:
    import logging
    logging.disable(logging.WARNING)
    if "ops" not in rp:
        print("replay names a broken obligation/correspondence, no concrete input:",
              json.dumps(rp.get("broken"), indent=1)[:3000])
        return 1
    ops = json.loads(json.dumps(rp["ops"]), object_hook=_tuples)
    h = run_history(rp["init"], ops, rp.get("strict", True))
    print(json.dumps({"failures": h["failures"], "n_ops": len(ops)}, indent=1, default=str))
    return 1 if h["failures"] else 0


def _tuples(d):
    """JSON turns the (vid, rank) / (cid, name, ndev) tuples into lists; restore them."""
    for k in ("v", "c"):
        if isinstance(d.get(k), list):
            d[k] = tuple(d[k])
    return d


def _jsonable_ops(ops):
    return json.loads(json.dumps(ops))


# --------------------------------------------------------------------------- three probes outside the alphabet

def probes(ck) -> None:
    """DESIGN §6 C19 reading decisions, probed separately and reported as observations (not violations)."""
    import onnx_ir as ir
    from onnx_ir import _multi_device as md

    def fresh():
        x = ir.Value(name="x", shape=ir.Shape([2, 3]), type=ir.TensorType(ir.DataType.FLOAT))
        n = ir.Node("", "Relu", [x], name="n0")
        n.outputs[0].name = "y"
        m = ir.Model(ir.Graph([x], [], nodes=[n], opset_imports={"": 20}, name="g"), ir_version=11)
        return m, n, x
    obs = {}
    m, n, x = fresh()
    c = m.add_device_configuration("c", num_devices=2)
    n.shard(x, configuration=c, axis=0, num_shards=2, device_indices=[5])
    obs["device index outside range(num_devices) accepted by shard; check reports"] = \
        [classify(s)[0] for s in md._check_device_configurations(m)]
    m, n, x = fresh()
    foreign = md.ModelConfiguration(name="f", num_devices=2)
    n.shard(x, configuration=foreign, axis=0, num_shards=2)
    obs["configuration not obtained from add_device_configuration accepted by shard; check reports"] = \
        [classify(s)[0] for s in md._check_device_configurations(m)]
    m, n, x = fresh()
    c = m.add_device_configuration("c", num_devices=2)
    n.shard(x, configuration=c, axis=1, num_shards=3)
    x.shape = ir.Shape([2])
    obs["shape of a sharded value edited afterwards (rank 2 -> 1); check reports"] = \
        [classify(s)[0] for s in md._check_device_configurations(m)]
    # below IR 11: the gate applies at every nesting depth (since 5e4600e)
    x = ir.Value(name="x", shape=ir.Shape([2, 3]), type=ir.TensorType(ir.DataType.FLOAT))
    inner = ir.Node("", "Relu", [x], name="n1")
    inner.outputs[0].name = "y"
    top = ir.Node("", "Op", [], [ir.AttrGraph("body", ir.Graph([], [], nodes=[inner], name="b"))], name="n0")
    top.outputs[0].name = "z"
    m = ir.Model(ir.Graph([x], [], nodes=[top], opset_imports={"": 20}, name="g"), ir_version=10)
    c = m.add_device_configuration("c", num_devices=2)
    inner.shard(x, configuration=c, axis=0, num_shards=2)
    top.set_pipeline_stage(c, 0)
    m2 = ir.from_proto(ir.to_proto(m))
    obs["round trip at IR 10: (configurations, annotated top-level nodes, annotated nested nodes, check kinds)"] = \
        [len(m2.device_configurations), sum(1 for n in m2.graph if n.device_configurations),
         sum(1 for n in m2.graph.all_nodes() if n.device_configurations) - sum(1 for n in m2.graph if n.device_configurations),
         [classify(s)[0] for s in md._check_device_configurations(m2)]]
    ck.coverage["probes_outside_alphabet"] = {k: v for k, v in obs.items()}


# --------------------------------------------------------------------------- main

def _cover(ck, h: dict) -> None:
    for o, ob in h["steps"]:
        if ob is None:
            continue
        ck.hist("ops", o["op"] + (":ok" if ob["res"] == "ok" else ":" + ob["res"]))
        if o["op"] == "shard" and ob["res"] != "ok":
            ck.hist("shard_rejections", ob.get("why") or "?")
        for kind, _, _ in ob["check"]:
            ck.hist("check_messages", str(kind))
        pr = ob.get("proto")
        if pr is not None:
            ck.hist("to_proto_compared", "raised" if isinstance(pr, str) else
                    ("annotated" if any(ps for _, ps in pr["nodes"]) else "no annotations"))
    kinds = {o["op"] for o, ob in h["steps"] if ob and ob["res"] == "ok"}
    annotated = any(nd["dc"] for o, ob in h["steps"] if ob for _, nd in ob["nodes"])
    if annotated and kinds & {"replace_input", "resize_out", "resize_in", "clone", "roundtrip", "rename",
                              "remcfg_obj", "remcfg_name"}:
        ck.nontriv([(o, ob["res"]) for o, ob in h["steps"] if ob])


def load_corpus() -> list[dict]:
    d = os.path.join(common.CORPUS, "C19")
    out = []
    if os.path.isdir(d):
        for fn in sorted(os.listdir(d)):
            if fn.endswith(".json"):
                with open(os.path.join(d, fn)) as f:
                    c = json.load(f)
                c["ops"] = json.loads(json.dumps(c["ops"]), object_hook=_tuples)
                out.append(c)
    return out


def report_failure(ck, h: dict, reported: set, kind: str) -> None:
    idx, bad = h["failures"][0]
    sig = re.sub(r"n\d+|'[^']*'|-?\d+", "#", bad[0])
    if sig in reported:
        return
    reported.add(sig)
    ops = [o for o, _ in h["steps"]]
    small = shrink(h["init"], ops, h["strict"])
    f = _fails(h["init"], small, h["strict"])
    ck.violation({"kind": kind, "init": h["init"], "strict": h["strict"], "ops": _jsonable_ops(small),
                  "failures": f, "broken": ck.broken_items})


def run(ck) -> None:
    import logging
    logging.disable(logging.WARNING)
    ck.trust("Coq 8.16.1 kernel (coqc; vm_compute in case files; no native_compute)",
             "harness/props/c19.py (generator, handle tables, canonical observation of the real objects, "
             "classification of the checker's messages, Coq literal printer)",
             "modelled not verified: protobuf, graph containers / usage tracking (C01), name authority, "
             "shape/type serialization (rank only), SimpleShardedDim.dim, index_to_device_group_map, subgraph scopes")
    ck.assumptions += ["onnx 1.22 protos expose NodeProto.device_configurations / ModelProto.configuration",
                       "histories stay in the op alphabet of DESIGN §6 C19 for the configuration/device clauses "
                       "(registered configurations, in-range device indices, cascade removal, no shape edits)",
                       "values are used only inside their own graph/function; round trips only when live names are "
                       "non-empty and distinct"]
    ck.coverage["rule"] = ("history with at least one annotation followed by a successful graph edit / rename / "
                           "clone / round trip / configuration removal")
    generate(ck)
    ck.prove()
    probes(ck)

    n_hist = 112 if not ck.thorough else 2400
    n_ops = 28 if not ck.thorough else 40
    hs: list[dict] = []
    for c in load_corpus():
        hs.append(run_history(c["init"], c["ops"], c.get("strict", True)))
    for i in range(n_hist):
        strict = (i % 4 != 3)
        init = gen_init(ck.rng)
        hs.append(run_history(init, None, strict, Gen(ck.rng, strict, shapes=(i % 4 == 2)), n_ops))
    for h in hs:
        ck.count(len(h["steps"]))
        _cover(ck, h)
    for h in hs[:40]:
        if len(ck.coverage["samples"]) < 4 and any(ob and ob["check"] == [] and any(nd["dc"] for _, nd in ob["nodes"])
                                                   for _, ob in h["steps"]):
            ck.sample({"init": h["init"], "strict": h["strict"],
                       "ops": _jsonable_ops([o for o, _ in h["steps"]][:12])})
    ck.coverage["traces_validated_against_impl"] = len(hs)
    ck.coverage["strict_histories"] = sum(1 for h in hs if h["strict"])

    # correspondence inside Coq
    try:
        mism = correspondence(ck, hs, "cases")
    except RuntimeError as e:
        mism = []
        ck.broken("correspondence:case-file", str(e))
    for j in mism[:3]:
        h = hs[j]
        try:
            k = first_diff(ck, h)
        except RuntimeError:
            k = 0
        o, ob = h["steps"][k - 1] if k else (None, None)
        ck.broken("correspondence:exec", json.dumps(
            {"history": j, "first_disagreeing_step": k, "op": o, "impl_observation": ob,
             "init": h["init"], "ops": [x for x, _ in h["steps"]][:k]}, default=str))

    # oracle failures on the implementation
    reported: set = set()
    for h in hs:
        if h["failures"]:
            if any(b.startswith("harness:") for _, bb in h["failures"] for b in bb):
                ck.broken("correspondence:outside-model", json.dumps(h["failures"][:2], default=str))
                continue
            report_failure(ck, h, reported, "oracle")
    for k in ck._known:
        if k.get("status") == "known":
            f = _fails(k["witness"]["init"], json.loads(json.dumps(k["witness"]["ops"]), object_hook=_tuples), True)
            if f:
                ck.known_finding(k["key"], k["what"])
            else:
                ck.broken(f"known-finding-stale:{k['key']}", "the recorded witness no longer fails")
    if ck.broken_items and not ck.violations:
        search(ck, reported)


def search(ck, reported: set) -> None:
    """A proof obligation or the correspondence broke without an oracle failure so far: search harder, biased
    to the histories that disagree (replayed in both modes and with extended suffixes) and fresh ones."""
    budget = 600 if not ck.thorough else 6000
    for i in range(budget):
        strict = (i % 5 != 4)
        init = gen_init(ck.rng)
        h = run_history(init, None, strict, Gen(ck.rng, strict, shapes=(i % 5 == 3)), 40)
        ck.count(len(h["steps"]))
        if h["failures"] and not any(b.startswith("harness:") for _, bb in h["failures"] for b in bb):
            report_failure(ck, h, reported, "oracle-after-broken-obligation")
            return

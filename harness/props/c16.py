"""C16 — symbolic dimensions compute, print and re-parse with integer semantics.

Decided by: Coq theorems (coq/theories/C16/Property.v, all closed under the global context) about the
executable model C16/Model.v, tied to /repo on every run by (a) Gen/C16Gen.v — the _ALLOWED_FUNCTIONS table,
the operator sets of every precedence level, the `op ==` chains, which _parse_* method calls which, the
tokenizer's character tests and the assumptions put on symbols, re-read from _symbolic_shapes.py (fail closed)
— and (b) three correspondence checks run inside Coq through case files.

MODEL (C16/Model.v)
  expr  := ESym name | EInt Z | ENeg | EUn (floor|ceiling|Abs|sign|sqrt) | EBin (+ - * / Mod ** Max Min)
           `a // b` is EFloorDiv = floor(a / b) and trunc is ETrunc = sign(x) * floor(Abs(x)): the constructor
           trees ir-py asks SymPy to build (parser and SymbolicDim overloads alike).
  eval  : env -> expr -> option Q, exact (QArith, Qred); None = outside the evaluated fragment (division or
          modulo by zero, 0 ** negative, non-integer exponent, sqrt of anything but a perfect square integer).
  subst : partial binding.   lex: get_token as a character state machine (ASCII classes).
  parsers_at n: one level of the recursive descent per unit of fuel; level n+1 calls level n only after
          consuming a token; parse_tokens gives fuel = number of tokens + 1.
  prt / render / pr: model printer (fully parenthesised, SymPy's function names, one blank after every token).

THEOREMS (all proved, no _partial)
  C16_tables_current            generated operator sets / descent shape / tokenizer tests = the model's
  C16_function_table_covers     floor, ceiling, Abs, sign, sqrt, Mod, Max, Min are in the generated table with the
                                right meaning; every table entry is a model constructor
  C16_parser_sound_complete     forall ts e, parse_tokens ts = Some e <-> derives_ref ts e   (reference grammar as
                                inductive relations: left-assoc + - and * / // %, right-assoc **, unary minus
                                looser than **, signed exponent, function calls from the table)
  C16_reference_unambiguous     one tree per token string
  C16_reference_is_left_recursive   the `x (op x)*` tail relation folded to the left = textbook left recursion
  C16_parser_total              fuel `length ts + 1` is never exhausted (None of parse_tokens means "raises")
  C16_partial_consistent        eval s2 (subst s1 e) = eval (s1 ++ s2) e
  C16_eval_integer              on integer operands: + - * neg max min, floor/ceil identity, // = Z.div, % = Z.modulo,
                                ceil(a/b) = -((-a)/b), trunc(a/b) = Z.quot a b
  C16_eval_rounding             floor = Qfloor, ceil x = -floor(-x), trunc = sgn * floor|x| on any exact value
  C16_print_parse               forall e with valid identifiers: parse_dim (pr e) = Some e' and eval s e' = eval s e
                                for EVERY binding s (tokenizer included: decimal digits, identifiers, ** and //)

DEEPENING ROUND (theorems added, all closed):
  C16_parser_structure_current   classes / methods / assigned self.* / raise counts AND the normalised-AST digest of
                                 every tokenizer and parser method are the ones Model.v was written against (fail closed)
  C16_eval_integer_pow           x ** y = Z.pow for y >= 0; exact reciprocal for negative exponents
  C16_residual_symbols, C16_eval_depends_on_free_symbols   residual = exactly the unbound symbols; eval only needs them
  C16_print_parse_exact          parse_dim (pr e) = Some (norm e); = Some e without negative literals
  C16_print_min_parse            the MINIMAL-parenthesis printer prmin (floor(a/b) written a // b) over the whole operator
                                 set is read back exactly: parse_dim (prmin e) = Some (norm e) (= Some e without negative
                                 literals); corner cases a-(b-c), -(a**b), (-a)**b, a**-b, a//b//c vs a//(b//c) as Example
  C16_partial_consistent was and is FULL (no hypothesis, Leibniz equality, every env / tree).
  New correspondence streams: check_int_semantics (x op y for every sign combination of x = N - c1, y = M - c2 through
  the real operators and through the text, compared in Coq with Z.div / Z.modulo / -((-x)/y) / Z.quot / Z.pow directly);
  check_print_min (random model trees over the whole operator set: Coq checks Python mirror = Model.pm, the real parser
  through the stub reads the text back to norm e, real SymPy's value = eval e).

SECOND DEEPENING ROUND
  Gen/C16OpsGen.v: every arithmetic method of SymbolicDim (__add__ __sub__ __mul__ __floordiv__ __truediv__ __mod__,
  __radd__ __rsub__ __rmul__ __rtruediv__, __neg__ __ceil__ __floor__ __trunc__) is TRANSLATED statement by statement
  (fail closed: exact statement shape incl. the None guards and `return NotImplemented`; the set of arithmetic dunders
  itself is pinned) into op_<m>_int / op_<m>_dim / op_<m>.  C16/Ops.v: btree (what the user applies) and to_expr
  (Python's operand dispatch over the translated methods).  C16_operator_methods: each translated branch evaluates to
  Python's arithmetic (Z.div / Z.modulo / exact quotient / operand order of the reflected forms / Z.quot ...).
  The tree correspondence now sends BUILD TREES: Coq computes to_expr bt through the translated methods and compares
  with the implementation (and with the harness's own to_model reading).  C16_function_table_exact: every key of
  _ALLOWED_FUNCTIONS (both spellings) denotes the operator of its name.  Not done: a translation of the tokenizer
  (state machine over self.pos with while loops) — it stays a hand model under the per-method AST digests + parser tie.

TIE (measured every run, numbers in evidence/C16.json)
  (i)  parser: the REAL tokenizer/parser is run with the module global `sympy` (and the values of
       _ALLOWED_FUNCTIONS) rebound to a stub that records constructor calls; the recorded tree / raise is
       embedded in case files and Coq checks `parse_dim text = expected` (grammar-generated strings with random
       whitespace and dotted names, character-level mutations, ~90 hand-written edge strings; accept and reject).
  (ii) string evaluation: real parser + real SymPy evaluate(bindings) vs eval (parse_dim text) in Coq.
  (iii) trees: random build trees (depth <= 4 quick / 5 thorough) applied to real SymbolicDim objects through
       + - * / // % neg math.floor/ceil/trunc (ints on either side; reflected operators where they exist) and
       through the dimension TEXT for max/min/pow/abs/sign; observed: value text, evaluate(all), evaluate(part)
       then evaluate(rest) (directly and through the residual's text), SymbolicDim(value).evaluate, dim_param
       written by serde and read back, simplify().evaluate, SymbolicDim(simplify().value).evaluate,
       Shape.evaluate / Shape.simplify, free_symbols.  Coq evaluates the constructor tree (to_model) exactly,
       checks subst/partial, and parses + evaluates every text the implementation produced.
  ORACLE (property statement, public API): exact Fraction arithmetic on the build tree (independent of Coq);
       for grammar strings the meaning given by PYTHON'S OWN parser (ast) over exact numbers.

  Deterministic grid on every run (neutral_grid): every binary operator with 0, 1, -1 on either side of a
       rational-valued operand (n/2 at n=3, (n-m)/3, n/2+m/3) and every unary operator on it — added after the
       seeded change C16-r2m2 (`x // 1` returning x unchanged for x = n/2) went undetected: the random trees
       almost never put an identity-looking constant next to a non-integer subtree; the random stream now does
       so in ~14% of inner nodes as well.

  chain_grid (after seeded C16-r3m1: simplify() rewriting floor(c*floor(x)) to floor(c*x)): nested rounding chains
       outer((inner(x, a) * b), c) with inner/outer in // % ceil trunc, at a binding where the inner rounding matters.
  usym_grid + "usym" leaves in the random stream (after seeded C16-r3m3: substitution map built by iterating the
       bindings, so two distinct SymPy symbols of one name collapse): dimensions built from CALLER-SUPPLIED SymPy
       expressions k*Symbol(name, <no / other assumptions>) + c mixed with text-built dimensions of the same names;
       the model evaluates by NAME (lookup), which is what evaluate() documents.

  flat_string_items / flat_tree_cases (after seeded C16-r4m3: a "nesting" counter in _parse_primary that is never
       decremented, so any text with >= 49 groups is rejected whatever its depth): products of sums, sums of quotients /
       products of sums, sums of calls with 48-200 groups side by side, and single groups nested 10-80 deep, through
       the parser tie, the string-evaluation tie and Python's-own-parser oracle; the same shapes built with the real
       operators (SymPy's printed text -> SymbolicDim(text), serde, model parser).  C16_parser_structure_current
       (ProofsStructure.v) pins classes / methods / assigned self.* / raise counts of the parser source, fail closed.

  zero_grid / collision_* (after seeded C16-r6m2: `if not value` in SymbolicDim.__init__ turns every result SymPy reduces
       to exactly 0 into the unknown dimension; C16-r6m1: an identifier spelling a function name is parsed as a call even
       without "("): sub-expressions that are 0 at construction time, alone and inside larger trees; dimension names
       that spell a key of _ALLOWED_FUNCTIONS (both spellings) in grammar strings, in trees and through print -> parse.
       The same families open the search that runs after a broken obligation.

READINGS
  * expressions whose exact value does not exist under the binding are outside the statement;
  * a non-integer exact value must come back as the dimension whose text is that rational ("7/2"), or as a
    closed dimension whose text reads back to it (SymPy sometimes leaves "Max(2, 7)/3" unevaluated);
  * `3 // N` and `3 % N` raise TypeError (SymbolicDim has no __rfloordiv__/__rmod__): the expression cannot be
    built, so nothing is claimed about it (noted as a gap, not a violation); the generator writes such ints as
    SymbolicDim("3");
  * any exception type counts as "rejects"; a simplify() that does not return in 6 s is not judged.

OUTSIDE THE PROPERTY (observed, not judged): a constant raised to a symbolic non-integer exponent, e.g.
  SymbolicDim("(-1)**(N/2)").simplify() has the text "I**N", whose "I" reads back as a symbol named I.

MODELLED, NOT VERIFIED
  SymPy's algebra, automatic evaluation, simplify and printer (oracle / trusted base); non-ASCII characters;
  Max()/Min() without arguments (SymPy -oo/oo: stub and model reject; the real parser accepts `max()`, which the
  documented grammar does not contain); int() on > 4300 digits; str.isidentifier fast path (= one-token case).

FINDINGS (known_findings.d/C16.json)
  fixed 70fa588  -N**2 parsed as (-N)**2                      fixed b337019  ceiling/Abs/sign not parseable
  fixed 417b84b  simplify() returned Piecewise (text not parseable; ZeroDivisionError from the unused branch)
  fixed 6138197  simplify() propagated exceptions of sympy.simplify (ValueError "nan is not comparable",
       PrecisionExhausted) on floor(Min(N, sign(3 - N))/batch) and similar; now best effort (unsimplified dim).
  fixed 2c0e87b  SymbolicDim.__floordiv__ applied Python's // to the SymPy objects (for two SymPy NUMBERS that is
       Number.__floordiv__, wrong in SymPy 1.14 for an exact quotient by a negative rational: 1 // (-1/2) == -3);
       it now builds floor(a / b) like the parser, which is the model's reading of // (to_model unchanged).
  known sympy-mod-recursion: SymPy 1.14 alone raises RecursionError constructing Mod(N - 2, M + 1) (positive integer
       symbols); (N - 2) % (M + 1) through SymbolicDim raises it too.  Attributed only when SymPy alone raises it.
  known sympy-autoeval-min/-max/-mod: SymPy 1.14 itself evaluates Min(3, floor(3/(batch*x1))) to 3,
       Max(K, K/Max(D, K)) at K=1,D=2 to 1/2, Mod(-_d*Mod(_d, a), a) to (a-1)*Mod(_d**2, a).  Attribution rule: a
       failure is one of these only if every minimal failing subtree is rooted at that operator AND SymPy alone
       (same constructor calls, no ir-py code) gives the same wrong value; such cases are left out of the Coq
       tie (the model assumes SymPy's value is the exact one).  Anything else is reported.

MUTANTS of /repo tried in a scratch worktree (all reported VIOLATION with a concrete replay, seed 0, quick):
  M1 exponent parsed by _parse_power (no signed exponent)   proof tables_current + parser tie; replay "4*2**-1"
  M2 identifier continuation without '.'                     tables_current + parser tie; replay "a.b"
  M3 "ceiling" removed from _ALLOWED_FUNCTIONS               lookup_fn1/print_parse proof + tree tie; replay ceil(N/2)
  M4 __rsub__ computes expr - other                          tree oracle; replay 3 - N
  M6 evaluate returns int for any rational                   oracle + tie; replay N/2 at N=1
  M7 __trunc__ = floor                                       oracle; replay trunc(-N/2) at N=1
  M8 unary operand parsed by _parse_power                    tables_current + parser tie; replay "( ( - - 1 ) )"
  M9 evaluate(partial) drops the partial substitution        oracle; replay (N - M) with M bound first
  and, before it was committed, the simplify fix applied in the worktree made the then-known finding stale
  (reported as broken obligation known-finding-stale).
"""

from __future__ import annotations

import ast
import json
import math
import os
from fractions import Fraction

import translate as T
from harness import common
from harness.common import REPO, cN, cZ, clist, copt, cpair, cstr

SRC = os.path.join(REPO, "src", "onnx_ir", "_symbolic_shapes.py")

# --------------------------------------------------------------------------- translation (fail closed)

# sympy callables the hand model knows how to interpret (C16/Model.v: sympy_fn)
_KNOWN_SYMPY = {"Max", "Min", "floor", "ceiling", "Abs", "sign", "sqrt", "Mod"}


def _need(cond: bool, what: str):
    if not cond:
        raise T.Unsupported("source shape changed: " + what)


def _is_cur_tok(n: ast.expr, idx: int) -> bool:
    """self.current_token[idx]"""
    return (isinstance(n, ast.Subscript) and isinstance(n.value, ast.Attribute) and n.value.attr == "current_token"
            and isinstance(n.value.value, ast.Name) and n.value.value.id == "self"
            and isinstance(n.slice, ast.Constant) and n.slice.value == idx)


def _strs(e: ast.expr, what: str) -> list[str]:
    if isinstance(e, ast.Constant) and isinstance(e.value, str):
        return [e.value]
    _need(isinstance(e, (ast.Tuple, ast.Set, ast.List)), what + ": tuple/set of string constants")
    out = []
    for x in e.elts:
        _need(isinstance(x, ast.Constant) and isinstance(x.value, str), what + ": string constant")
        out.append(x.value)
    return out


def _op_tests(fn: ast.FunctionDef, what: str) -> list[list[str]]:
    """All tests `self.current_token[1] in (...)` / `== "..."` of a parser method, in source order."""
    found = []
    for n in ast.walk(fn):
        if isinstance(n, ast.Compare) and len(n.ops) == 1 and _is_cur_tok(n.left, 1):
            _need(isinstance(n.ops[0], (ast.In, ast.Eq)), what + ": operator test is `in`/`==`")
            found.append((n.lineno, n.col_offset, sorted(_strs(n.comparators[0], what))))
    return [f[2] for f in sorted(found)]


def _branch_ops(fn: ast.FunctionDef, what: str) -> list[str]:
    """`op == "x"` tests of the if/elif chain inside the loop, in source order."""
    found = []
    for n in ast.walk(fn):
        if isinstance(n, ast.Compare) and len(n.ops) == 1 and isinstance(n.left, ast.Name) and n.left.id == "op":
            _need(isinstance(n.ops[0], ast.Eq), what + ": `op == ...`")
            found.append((n.lineno, n.col_offset, _strs(n.comparators[0], what)[0]))
    return [f[2] for f in sorted(found)]


def _char_tests(fn: ast.FunctionDef) -> dict:
    """Character class tests of the tokenizer: `two_char in (...)`, `char in "+-*/%"`, `char == "("`, `in "_."`."""
    out = {"two": None, "one": None, "singles": [], "ident_extra": None, "ident_start_extra": []}
    for n in ast.walk(fn):
        if not (isinstance(n, ast.Compare) and len(n.ops) == 1):
            continue
        c = n.comparators[0]
        if isinstance(n.left, ast.Name) and n.left.id == "two_char" and isinstance(n.ops[0], ast.In):
            _need(out["two"] is None, "one two_char test")
            out["two"] = sorted(_strs(c, "two_char"))
        elif isinstance(n.left, ast.Name) and n.left.id == "char" and isinstance(n.ops[0], ast.In):
            _need(out["one"] is None and isinstance(c, ast.Constant) and isinstance(c.value, str), "char in <str>")
            out["one"] = c.value
        elif isinstance(n.left, ast.Name) and n.left.id == "char" and isinstance(n.ops[0], ast.Eq):
            _need(isinstance(c, ast.Constant) and isinstance(c.value, str) and len(c.value) == 1, "char == <c>")
            out["singles"].append((n.lineno, c.value))
        elif isinstance(n.ops[0], ast.In) and isinstance(c, ast.Constant) and isinstance(c.value, str) \
                and isinstance(n.left, ast.Subscript):
            _need(out["ident_extra"] is None, "one identifier-continuation test")
            out["ident_extra"] = c.value
    _need(out["two"] is not None and out["one"] is not None and out["ident_extra"] is not None,
          "tokenizer character tests present")
    out["singles"] = [c for _, c in sorted(out["singles"])]
    return out


def _method_calls(fn: ast.FunctionDef) -> list[str]:
    """Names of self._parse_* methods called, in source order (the shape of the grammar)."""
    found = []
    for n in ast.walk(fn):
        if isinstance(n, ast.Call) and isinstance(n.func, ast.Attribute) and isinstance(n.func.value, ast.Name) \
                and n.func.value.id == "self" and n.func.attr.startswith("_parse_"):
            found.append((n.lineno, n.col_offset, n.func.attr))
    return [f[2] for f in sorted(found)]


def read_tables() -> dict:
    """Everything the Coq model takes from the source text (fail closed)."""
    mod = T._src(SRC)
    table = T.read_literal(SRC, "_ALLOWED_FUNCTIONS")
    funcs = []
    for k, v in table:
        _need(isinstance(k, str), "function table key is a string")
        _need(isinstance(v, tuple) and v[0] == "enum" and v[1].startswith("sympy."), f"value of {k!r} is sympy.<name>")
        attr = v[1][len("sympy."):]
        if attr not in _KNOWN_SYMPY:
            raise T.Unsupported(f"_ALLOWED_FUNCTIONS[{k!r}] = sympy.{attr}: not interpreted by C16/Model.v")
        funcs.append((k, attr))
    _need(len({k for k, _ in funcs}) == len(funcs), "duplicate key in _ALLOWED_FUNCTIONS")
    P = "_ExpressionParser."
    pe, pt = T.find_function(mod, P + "_parse_expr"), T.find_function(mod, P + "_parse_term")
    pp, pu = T.find_function(mod, P + "_parse_power"), T.find_function(mod, P + "_parse_unary")
    ppr, pf = T.find_function(mod, P + "_parse_primary"), T.find_function(mod, P + "_parse_function_call")
    e_ops, t_ops, p_ops, u_ops = (_op_tests(pe, "_parse_expr"), _op_tests(pt, "_parse_term"),
                                  _op_tests(pp, "_parse_power"), _op_tests(pu, "_parse_unary"))
    _need(len(e_ops) == 1 and len(t_ops) == 1 and len(p_ops) == 1 and len(u_ops) == 1,
          "exactly one operator test per precedence level")
    calls = {
        "expr": _method_calls(pe), "term": _method_calls(pt), "power": _method_calls(pp),
        "unary": _method_calls(pu), "primary": _method_calls(ppr), "call": _method_calls(pf),
    }
    tk = _char_tests(T.find_function(mod, "_ExpressionTokenizer.get_token"))
    # keyword arguments of sympy.Symbol(...) in the parser (assumptions on symbols)
    sym_kw = set()
    for n in ast.walk(ppr):
        if isinstance(n, ast.Call) and isinstance(n.func, ast.Attribute) and n.func.attr == "Symbol":
            for kw in n.keywords:
                _need(isinstance(kw.value, ast.Constant), "Symbol keyword is a constant")
                sym_kw.add((kw.arg, kw.value.value))
    return {"funcs": funcs, "expr_ops": e_ops[0], "term_ops": t_ops[0], "power_ops": p_ops[0], "unary_ops": u_ops[0],
            "expr_branch": _branch_ops(pe, "_parse_expr"), "term_branch": _branch_ops(pt, "_parse_term"),
            "calls": calls, "tok": tk, "symbol_kw": sorted(sym_kw)}


def read_structure() -> dict:
    """Structural digest of the parser source (fail-closed pin, checked by Coq: C16_parser_structure_current):
    module-level names, the methods of both classes, every `self.<attr>` that is assigned (state variables) and the
    number of `raise` statements per method.  A new state variable or rejection path in the parser is a change
    of the accepted language the grammar-level tables cannot see."""
    mod = T._src(SRC)
    top = []
    for n in mod.body:
        if isinstance(n, ast.Assign):
            top += [t.id for t in n.targets if isinstance(t, ast.Name)]
        elif isinstance(n, ast.AnnAssign) and isinstance(n.target, ast.Name):
            top.append(n.target.id)
        elif isinstance(n, (ast.FunctionDef, ast.ClassDef)):
            top.append(n.name)
    out = {"top": top, "classes": []}
    for cls in mod.body:
        if not isinstance(cls, ast.ClassDef):
            continue
        methods, state, raises = [], set(), []
        for fn in cls.body:
            if not isinstance(fn, ast.FunctionDef):
                continue
            methods.append(fn.name)
            nr = 0
            for n in ast.walk(fn):
                if isinstance(n, ast.Raise):
                    nr += 1
                tgts = []
                if isinstance(n, ast.Assign):
                    tgts = n.targets
                elif isinstance(n, (ast.AugAssign, ast.AnnAssign)):
                    tgts = [n.target]
                for t in tgts:
                    for x in ast.walk(t):
                        if isinstance(x, ast.Attribute) and isinstance(x.value, ast.Name) and x.value.id == "self":
                            state.add(x.attr)
            raises.append((fn.name, nr))
            out.setdefault("digests", []).append((cls.name + "." + fn.name, T.ast_digest(fn)))
        out["classes"].append({"name": cls.name, "methods": methods, "state": sorted(state), "raises": raises})
    pse = T.find_function(mod, "parse_symbolic_expression")
    out["digests"].append(("parse_symbolic_expression", T.ast_digest(pse)))
    return out


# ---- statement-by-statement translation of the SymbolicDim operator methods (_core.py) into Gen/C16OpsGen.v

CORE = os.path.join(REPO, "src", "onnx_ir", "_core.py")
_SYMPY_UN = {"floor": "FFloor", "ceiling": "FCeil", "Abs": "FAbs", "sign": "FSign"}
_PY_BIN = {ast.Add: "EBin BAdd", ast.Sub: "EBin BSub", ast.Mult: "EBin BMul", ast.Div: "EBin BDiv", ast.Mod: "EBin BMod",
           ast.FloorDiv: "EFloorDiv", ast.Pow: "EBin BPow"}


def _strip_doc(body):
    if body and isinstance(body[0], ast.Expr) and isinstance(body[0].value, ast.Constant) \
            and isinstance(body[0].value.value, str):
        return body[1:]
    return body


def _is_attr(n, base: str, attr: str) -> bool:
    return isinstance(n, ast.Attribute) and n.attr == attr and isinstance(n.value, ast.Name) and n.value.id == base


def _dunder_expr(e: ast.expr, other_kind: str) -> str:
    """A SymPy-building Python expression over self._expr / other / other._expr  ->  a Model.expr term over `self`
    and `other` (other : Z when other_kind == 'int', other : expr when 'dim').  Fail closed."""
    if _is_attr(e, "self", "_expr"):
        return "self"
    if _is_attr(e, "other", "_expr"):
        _need(other_kind == "dim", "other._expr used in the int branch")
        return "other"
    if isinstance(e, ast.Name) and e.id == "other":
        _need(other_kind == "int", "bare `other` used in the SymbolicDim branch")
        return "(EInt other)"
    if isinstance(e, ast.Constant) and isinstance(e.value, int) and not isinstance(e.value, bool):
        return f"(EInt {cZ(e.value)})"
    if isinstance(e, ast.UnaryOp) and isinstance(e.op, ast.USub):
        return f"(ENeg {_dunder_expr(e.operand, other_kind)})"
    if isinstance(e, ast.BinOp):
        for k, v in _PY_BIN.items():
            if isinstance(e.op, k):
                return f"({v} {_dunder_expr(e.left, other_kind)} {_dunder_expr(e.right, other_kind)})"
        raise T.Unsupported("operator " + ast.dump(e.op))
    if isinstance(e, ast.Call) and isinstance(e.func, ast.Attribute) and isinstance(e.func.value, ast.Name) \
            and e.func.value.id == "sympy" and not e.keywords:
        f, a = e.func.attr, e.args
        if f in ("sympify", "Integer") and len(a) == 1:
            return _dunder_expr(a[0], other_kind)
        if f in _SYMPY_UN and len(a) == 1:
            return f"(EUn {_SYMPY_UN[f]} {_dunder_expr(a[0], other_kind)})"
        if f == "Rational" and len(a) == 2:
            return f"(EBin BDiv {_dunder_expr(a[0], other_kind)} {_dunder_expr(a[1], other_kind)})"
        if f in ("Max", "Min", "Mod") and len(a) == 2:
            return f"(EBin B{f} {_dunder_expr(a[0], other_kind)} {_dunder_expr(a[1], other_kind)})"
    raise T.Unsupported("expression outside the translatable subset: " + ast.unparse(e))


def _ret_dim(st: ast.stmt, what: str) -> ast.expr:
    """`return SymbolicDim(<E>)` -> <E>"""
    _need(isinstance(st, ast.Return) and isinstance(st.value, ast.Call) and isinstance(st.value.func, ast.Name)
          and st.value.func.id == "SymbolicDim" and len(st.value.args) == 1 and not st.value.keywords, what + ": return SymbolicDim(...)")
    return st.value.args[0]


def _is_none_ret(st: ast.stmt) -> bool:
    return isinstance(st, ast.Return) and isinstance(st.value, ast.Call) and isinstance(st.value.func, ast.Name) \
        and st.value.func.id == "SymbolicDim" and len(st.value.args) == 1 \
        and isinstance(st.value.args[0], ast.Constant) and st.value.args[0].value is None


def _guard_self_none(st: ast.stmt, what: str):
    _need(isinstance(st, ast.If) and not st.orelse and isinstance(st.test, ast.Compare) and len(st.test.ops) == 1
          and isinstance(st.test.ops[0], ast.Is) and _is_attr(st.test.left, "self", "_expr")
          and isinstance(st.test.comparators[0], ast.Constant) and st.test.comparators[0].value is None
          and len(st.body) == 1 and _is_none_ret(st.body[0]), what + ": `if self._expr is None: return SymbolicDim(None)`")


def _isinstance_other(st: ast.stmt, cls: str) -> bool:
    t = st.test if isinstance(st, ast.If) else None
    return isinstance(t, ast.Call) and isinstance(t.func, ast.Name) and t.func.id == "isinstance" and len(t.args) == 2 \
        and isinstance(t.args[0], ast.Name) and t.args[0].id == "other" and isinstance(t.args[1], ast.Name) \
        and t.args[1].id == cls and not st.orelse


def _not_implemented(st: ast.stmt) -> bool:
    return isinstance(st, ast.Return) and isinstance(st.value, ast.Name) and st.value.id == "NotImplemented"


BIN_DUNDERS = ("add", "sub", "mul", "floordiv", "truediv", "mod")
REFL_DUNDERS = ("radd", "rsub", "rmul", "rtruediv")
UN_DUNDERS = ("neg", "ceil", "floor", "trunc")


def translate_dunders() -> str:
    mod = T._src(CORE)
    cls = next((n for n in mod.body if isinstance(n, ast.ClassDef) and n.name == "SymbolicDim"), None)
    _need(cls is not None, "class SymbolicDim")
    meths = {n.name: n for n in cls.body if isinstance(n, ast.FunctionDef)}
    arith = sorted(m for m in meths if m.startswith("__") and m.endswith("__") and m[2:-2] in
                   {"add", "radd", "sub", "rsub", "mul", "rmul", "floordiv", "rfloordiv", "truediv", "rtruediv", "mod", "rmod",
                    "pow", "rpow", "neg", "pos", "abs", "ceil", "floor", "trunc", "round", "divmod", "rdivmod", "matmul"})
    expected = sorted(f"__{m}__" for m in BIN_DUNDERS + REFL_DUNDERS + UN_DUNDERS)
    _need(arith == expected, f"arithmetic methods of SymbolicDim are {arith}, the model knows {expected}")
    out = ("(* GENERATED by harness/props/c16.py (translate_dunders) from /repo/src/onnx_ir/_core.py, class SymbolicDim,\n"
           "   on every run - do not edit.  One definition per branch of every arithmetic method: the SymPy expression the\n"
           "   method asks for, as a Model.expr over `self` (= self._expr) and `other` (an int or other._expr).  Every method\n"
           "   starts with `if self._expr is None: return SymbolicDim(None)`; binary methods end with `return NotImplemented`. *)\n"
           "From Coq Require Import ZArith List.\nFrom IRV Require Import C16.Model.\n\n")

    def body_of(fn):
        return _strip_doc(fn.body)

    for m in BIN_DUNDERS:
        fn = meths[f"__{m}__"]
        b = body_of(fn)
        what = f"SymbolicDim.__{m}__"
        _need(len(b) == 4, what + ": four statements")
        _guard_self_none(b[0], what)
        _need(_isinstance_other(b[1], "int") and len(b[1].body) == 1, what + ": `if isinstance(other, int): return ...`")
        e_int = _ret_dim(b[1].body[0], what)
        _need(_isinstance_other(b[2], "SymbolicDim") and len(b[2].body) == 2, what + ": SymbolicDim branch")
        g = b[2].body[0]
        _need(isinstance(g, ast.If) and not g.orelse and isinstance(g.test, ast.Compare) and _is_attr(g.test.left, "other", "_value")
              and isinstance(g.test.ops[0], ast.Is) and len(g.body) == 1 and _is_none_ret(g.body[0]),
              what + ": `if other._value is None: return SymbolicDim(None)`")
        e_dim = _ret_dim(b[2].body[1], what)
        _need(_not_implemented(b[3]), what + ": return NotImplemented")
        out += f"(* {what}: int branch `{ast.unparse(e_int)}` ; SymbolicDim branch `{ast.unparse(e_dim)}` *)\n"
        out += f"Definition op_{m}_int (self : expr) (other : Z) : expr := {_dunder_expr(e_int, 'int')}.\n"
        out += f"Definition op_{m}_dim (self other : expr) : expr := {_dunder_expr(e_dim, 'dim')}.\n"
    for m in REFL_DUNDERS:
        fn = meths[f"__{m}__"]
        b = body_of(fn)
        what = f"SymbolicDim.__{m}__"
        if len(b) == 2:            # delegating form: if isinstance(other, int): return self.__x__(other)
            _need(_isinstance_other(b[0], "int") and len(b[0].body) == 1 and _not_implemented(b[1]), what + ": delegating form")
            r = b[0].body[0]
            _need(isinstance(r, ast.Return) and isinstance(r.value, ast.Call) and _is_attr(r.value.func, "self", f"__{m[1:]}__")
                  and len(r.value.args) == 1 and isinstance(r.value.args[0], ast.Name) and r.value.args[0].id == "other",
                  what + f": return self.__{m[1:]}__(other)")
            out += f"(* {what}: `{ast.unparse(r)}` *)\n"
            out += f"Definition op_{m}_int (self : expr) (other : Z) : expr := op_{m[1:]}_int self other.\n"
        else:
            _need(len(b) == 3, what + ": three statements")
            _guard_self_none(b[0], what)
            _need(_isinstance_other(b[1], "int") and len(b[1].body) == 1 and _not_implemented(b[2]), what + ": int branch")
            e_int = _ret_dim(b[1].body[0], what)
            out += f"(* {what}: `{ast.unparse(e_int)}` *)\n"
            out += f"Definition op_{m}_int (self : expr) (other : Z) : expr := {_dunder_expr(e_int, 'int')}.\n"
    for m in UN_DUNDERS:
        fn = meths[f"__{m}__"]
        b = body_of(fn)
        what = f"SymbolicDim.__{m}__"
        _need(len(b) == 2, what + ": two statements")
        _guard_self_none(b[0], what)
        e = _ret_dim(b[1], what)
        out += f"(* {what}: `{ast.unparse(e)}` *)\n"
        out += f"Definition op_{m} (self : expr) : expr := {_dunder_expr(e, 'none')}.\n"
    return out


def generate(ck) -> bool:
    try:
        ck.gen("C16OpsGen", translate_dunders())
    except (T.Unsupported, SyntaxError, OSError) as e:
        ck.gen_failed("C16OpsGen", e)
    try:
        t = read_tables()
        sl = lambda l: clist(cstr(s) for s in l)  # noqa: E731
        text = ("(* GENERATED by harness/props/c16.py (tools/translate.py read_literal + ast walks) from\n"
                "   /repo/src/onnx_ir/_symbolic_shapes.py on every run — do not edit. *)\n"
                "From Coq Require Import NArith List.\nImport ListNotations.\n\n")
        text += "(* _ALLOWED_FUNCTIONS: (name accepted in a dimension string, sympy callable) in source order *)\n"
        text += "Definition allowed_functions : list (list N * list N) :=\n  " + \
            clist("\n   " + cpair(cstr(k), cstr(v)) + f" (* {k} -> sympy.{v} *)" for k, v in t["funcs"]) + ".\n\n"
        for nm, key, doc in [("expr_ops", "expr_ops", "_parse_expr loop test"),
                             ("term_ops", "term_ops", "_parse_term loop test"),
                             ("power_ops", "power_ops", "_parse_power test"),
                             ("unary_ops", "unary_ops", "_parse_unary test"),
                             ("expr_branch_ops", "expr_branch", "`op ==` chain in _parse_expr (else = last of expr_ops)"),
                             ("term_branch_ops", "term_branch", "`op ==` chain in _parse_term (else = `%`)")]:
            text += f"(* {doc}: {t[key]} *)\nDefinition {nm} : list (list N) := {sl(t[key])}.\n"
        for nm, lst in t["calls"].items():
            text += f"(* self._parse_* calls inside _parse_{nm if nm != 'call' else 'function_call'}, source order *)\n"
            text += f"Definition calls_{nm} : list (list N) := {sl(lst)}.\n"
        tk = t["tok"]
        text += f"(* tokenizer: two-character operators, single-character operators, single tokens, identifier extras *)\n"
        text += f"Definition tok_two_char_ops : list (list N) := {sl(tk['two'])}.\n"
        text += f"Definition tok_one_char_ops : list N := {cstr(tk['one'])}.\n"
        text += f"Definition tok_single_chars : list N := {cstr(''.join(tk['singles']))}.\n"
        text += f"Definition tok_ident_extra : list N := {cstr(tk['ident_extra'])}.\n"
        text += "(* sympy.Symbol(name, " + ", ".join(f"{k}={v}" for k, v in t["symbol_kw"]) + ") *)\n"
        text += "Definition symbol_integer_positive : bool := " + \
            ("true" if t["symbol_kw"] == [("integer", True), ("positive", True)] else "false") + ".\n"
        st = read_structure()
        text += f"(* structure of the module: top-level names {st['top']} *)\n"
        text += f"Definition src_top_level : list (list N) := {sl(st['top'])}.\n"
        rows = []
        for c in st["classes"]:
            text += f"(* class {c['name']}: methods {c['methods']}, assigned self.* {c['state']}, raises {c['raises']} *)\n"
            rows.append("(" + ", ".join([cstr(c["name"]), sl(c["methods"]), sl(c["state"]),
                                         clist(cpair(cstr(m), cN(k)) for m, k in c["raises"] if k)]) + ")")
        text += "(* statement-level pin: digest of the normalised AST (no positions, no docstring) of every method *)\n"
        text += "Definition src_method_digests : list (list N * list N) :=\n  " + \
            clist("\n   " + cpair(cstr(k), cstr(v)) + f" (* {k} {v} *)" for k, v in st["digests"]) + ".\n"
        text += ("Definition src_classes : list (list N * list (list N) * list (list N) * list (list N * N)) :=\n  "
                 + clist(rows) + ".\n")
    except (T.Unsupported, SyntaxError, OSError) as e:
        ck.gen_failed("C16Gen", e)
        return False
    ck.gen("C16Gen", text)
    return True


# --------------------------------------------------------------------------- exact arithmetic (independent oracle)

class Undefined(Exception):
    """The exact value does not exist (division by zero, non-integer exponent, sqrt of a non-square)."""


def _isqrt_exact(q: Fraction) -> Fraction:
    if q.denominator != 1 or q < 0:
        raise Undefined("sqrt")
    r = math.isqrt(q.numerator)
    if r * r != q.numerator:
        raise Undefined("sqrt")
    return Fraction(r)


def _pow(a: Fraction, b: Fraction) -> Fraction:
    if b.denominator != 1:
        raise Undefined("pow")
    if a == 0 and b < 0:
        raise Undefined("pow")
    if abs(b) > 64:
        raise Undefined("pow-size")
    return a ** int(b)


def _div(a, b):
    if b == 0:
        raise Undefined("div0")
    return a / b


def _mod(a, b):
    if b == 0:
        raise Undefined("mod0")
    return a - b * math.floor(a / b)


def _sign(a):
    return Fraction((a > 0) - (a < 0))


# build trees: what the USER applies to SymbolicDim objects.  JSON-able nested lists.
#   ["sym", name] ["int", k] ["neg", a] ["floor"|"ceil"|"trunc"|"abs"|"sign"|"sqrt", a]
#   ["add"|"sub"|"mul"|"div"|"floordiv"|"mod"|"max"|"min"|"pow", a, b]
#   ["usym", name, tag, k, c]  a dimension built from a CALLER-SUPPLIED SymPy expression k*Symbol(name, **USYM[tag]) + c
LEAVES = ("sym", "int", "usym")
USYM = {"plain": {}, "integer": {"integer": True}, "positive": {"positive": True},
        "nonneg": {"integer": True, "nonnegative": True}, "real": {"real": True}}
UN = ("neg", "floor", "ceil", "trunc", "abs", "sign", "sqrt")
BIN = ("add", "sub", "mul", "div", "floordiv", "mod", "max", "min", "pow")


def exact(t, b: dict) -> Fraction:
    """Substitute the integers and compute exactly (the property's meaning of an expression)."""
    k = t[0]
    if k == "sym":
        return Fraction(b[t[1]])
    if k == "usym":
        return Fraction(t[3] * b[t[1]] + t[4])
    if k == "int":
        return Fraction(t[1])
    if k in UN:
        a = exact(t[1], b)
        if k == "neg":
            return -a
        if k == "floor":
            return Fraction(math.floor(a))
        if k == "ceil":
            return Fraction(math.ceil(a))
        if k == "trunc":
            return Fraction(math.trunc(a))
        if k == "abs":
            return abs(a)
        if k == "sign":
            return _sign(a)
        return _isqrt_exact(a)
    a, c = exact(t[1], b), exact(t[2], b)
    if k == "add":
        return a + c
    if k == "sub":
        return a - c
    if k == "mul":
        return a * c
    if k == "div":
        return _div(a, c)
    if k == "floordiv":
        return Fraction(math.floor(_div(a, c)))
    if k == "mod":
        return _mod(a, c)
    if k == "max":
        return max(a, c)
    if k == "min":
        return min(a, c)
    if k == "pow":
        return _pow(a, c)
    raise AssertionError(k)


def syms_of(t) -> list[str]:
    if t[0] in ("sym", "usym"):
        return [t[1]]
    if t[0] == "int":
        return []
    out = []
    for s in t[1:]:
        for x in syms_of(s):
            if x not in out:
                out.append(x)
    return out


def has_sym(t) -> bool:
    return bool(syms_of(t))


def depth(t) -> int:
    return 0 if t[0] in LEAVES else 1 + max(depth(s) for s in t[1:])


def ops_of(t, acc=None) -> set:
    acc = set() if acc is None else acc
    if t[0] not in LEAVES:
        acc.add(t[0])
        for s in t[1:]:
            ops_of(s, acc)
    return acc


# --------------------------------------------------------------------------- model terms (Coq text)

def m_sym(n): return ("ESym", n)
def m_int(z): return ("EInt", z)
def m_neg(a): return ("ENeg", a)
def m_un(f, a): return ("EUn", f, a)
def m_bin(o, a, b): return ("EBin", o, a, b)


def to_model(t):
    """The SymPy constructor tree ir-py builds for a build tree (C16/Model.v expr), mirroring
    the operator overloads of SymbolicDim (dim/int = Rational(1, k) * dim, a // b = floor(a / b), ...)."""
    k = t[0]
    if k == "sym":
        return m_sym(t[1])
    if k == "usym":      # evaluation is by symbol NAME: whatever assumptions the caller's symbol carries
        return m_bin("BAdd", m_bin("BMul", m_int(t[3]), m_sym(t[1])), m_int(t[4]))
    if k == "int":
        return m_int(t[1])
    if k == "neg":
        return m_neg(to_model(t[1]))
    if k in ("floor", "ceil", "abs", "sign", "sqrt"):
        return m_un({"floor": "FFloor", "ceil": "FCeil", "abs": "FAbs", "sign": "FSign", "sqrt": "FSqrt"}[k],
                    to_model(t[1]))
    if k == "trunc":
        a = to_model(t[1])
        return m_bin("BMul", m_un("FSign", a), m_un("FFloor", m_un("FAbs", a)))
    a, b = to_model(t[1]), to_model(t[2])
    if k == "floordiv":
        return m_un("FFloor", m_bin("BDiv", a, b))
    if k == "div" and t[2][0] == "int" and has_sym(t[1]):
        return m_bin("BMul", m_bin("BDiv", m_int(1), b), a)       # __truediv__(int): Rational(1, k) * expr
    return m_bin({"add": "BAdd", "sub": "BSub", "mul": "BMul", "div": "BDiv", "mod": "BMod", "max": "BMax",
                  "min": "BMin", "pow": "BPow"}[k], a, b)


def cexpr(m) -> str:
    k = m[0]
    if k == "ESym":
        return f"(ESym {cstr(m[1])})"
    if k == "EInt":
        return f"(EInt {cZ(m[1])})"
    if k == "ENeg":
        return f"(ENeg {cexpr(m[1])})"
    if k == "EUn":
        return f"(EUn {m[1]} {cexpr(m[2])})"
    return f"(EBin {m[1]} {cexpr(m[2])} {cexpr(m[3])})"


_BUN = {"neg": "BuNeg", "floor": "BuFloor", "ceil": "BuCeil", "trunc": "BuTrunc", "abs": "BuAbs", "sign": "BuSign",
        "sqrt": "BuSqrt"}
_BBIN = {"add": "BbAdd", "sub": "BbSub", "mul": "BbMul", "div": "BbDiv", "floordiv": "BbFloorDiv", "mod": "BbMod",
         "max": "BbMax", "min": "BbMin", "pow": "BbPow"}


def cbtree(t) -> str:
    """A build tree as a C16/Ops.v btree: Coq maps it to the expression through the operator methods translated
    from _core.py (Gen/C16OpsGen.v), not through this module's to_model."""
    k = t[0]
    if k == "sym":
        return f"(KSym {cstr(t[1])})"
    if k == "usym":
        return f"(KUsym {cstr(t[1])} {cZ(t[3])} {cZ(t[4])})"
    if k == "int":
        return f"(KInt {cZ(t[1])})"
    if k in _BUN:
        return f"(KUn {_BUN[k]} {cbtree(t[1])})"
    return f"(KBin {_BBIN[k]} {cbtree(t[1])} {cbtree(t[2])})"


def cq(q: Fraction) -> str:
    return f"({cZ(q.numerator)} # {q.denominator})%Q"


def cenv(b: dict) -> str:
    return clist(cpair(cstr(k), cZ(v)) for k, v in b.items())


# --------------------------------------------------------------------------- implementation side: the SymPy stub

class _StubNode:
    __slots__ = ("t",)

    def __init__(self, t):
        self.t = t

    def _b(self, o, other, swap=False):
        if not isinstance(other, _StubNode):
            if isinstance(other, int):
                other = _StubNode(m_int(other))
            else:
                return NotImplemented
        a, b = (other, self) if swap else (self, other)
        return _StubNode(m_bin(o, a.t, b.t))

    def __add__(self, o): return self._b("BAdd", o)
    def __radd__(self, o): return self._b("BAdd", o, True)
    def __sub__(self, o): return self._b("BSub", o)
    def __rsub__(self, o): return self._b("BSub", o, True)
    def __mul__(self, o): return self._b("BMul", o)
    def __rmul__(self, o): return self._b("BMul", o, True)
    def __truediv__(self, o): return self._b("BDiv", o)
    def __rtruediv__(self, o): return self._b("BDiv", o, True)
    def __pow__(self, o): return self._b("BPow", o)
    def __rpow__(self, o): return self._b("BPow", o, True)
    def __neg__(self): return _StubNode(m_neg(self.t))
    # the parser must not use these: a model/code divergence if it starts to
    def __floordiv__(self, o): return _StubNode(("PY_FLOORDIV",))
    def __mod__(self, o): return _StubNode(("PY_MOD",))


class _ZeroArgMinMax(TypeError):
    """Max()/Min() without arguments: SymPy returns -oo/oo; outside the model (model and stub reject)."""


class _StubSympy:
    """Stands for the `sympy` module inside onnx_ir._symbolic_shapes: records constructor calls."""
    Expr = _StubNode

    def __init__(self):
        self.calls: dict[str, int] = {}

    def _c(self, n):
        self.calls[n] = self.calls.get(n, 0) + 1

    def Integer(self, v):
        self._c("Integer")
        return _StubNode(m_int(int(v)))

    def Symbol(self, name, **kw):
        self._c("Symbol")
        if kw != {"integer": True, "positive": True}:
            return _StubNode(("ESym?", name, sorted(kw.items())))
        return _StubNode(m_sym(name))

    def _un(self, f, args, nm):
        self._c(nm)
        if len(args) != 1:
            raise TypeError(f"{nm} takes exactly 1 argument ({len(args)} given)")
        return _StubNode(m_un(f, args[0].t))

    def floor(self, *a): return self._un("FFloor", a, "floor")
    def ceiling(self, *a): return self._un("FCeil", a, "ceiling")
    def Abs(self, *a): return self._un("FAbs", a, "Abs")
    def sign(self, *a): return self._un("FSign", a, "sign")
    def sqrt(self, *a): return self._un("FSqrt", a, "sqrt")

    def Mod(self, *a):
        self._c("Mod")
        if len(a) != 2:
            raise TypeError(f"Mod takes exactly 2 arguments ({len(a)} given)")
        return _StubNode(m_bin("BMod", a[0].t, a[1].t))

    def _fold(self, o, a, nm):
        self._c(nm)
        if not a:
            # SymPy: Max() = -oo, Min() = oo; outside the model (documented), rejected by stub and model alike
            raise _ZeroArgMinMax(f"{nm}() without arguments")
        t = a[-1].t
        for x in reversed(a[:-1]):
            t = m_bin(o, x.t, t)
        return _StubNode(t)

    def Max(self, *a): return self._fold("BMax", a, "Max")
    def Min(self, *a): return self._fold("BMin", a, "Min")


def stub_parse(text: str):
    """Run the REAL tokenizer/parser of onnx_ir._symbolic_shapes with sympy replaced by the stub.
    Returns ('ok', model_tree) | ('raise', exception name)."""
    from onnx_ir import _symbolic_shapes as S
    stub = _StubSympy()
    real_sympy, real_tab = S.sympy, S._ALLOWED_FUNCTIONS
    try:
        S._ALLOWED_FUNCTIONS = {k: getattr(stub, v.__name__) for k, v in real_tab.items()}
        S.sympy = stub
        try:
            r = S.parse_symbolic_expression(text)
        except RecursionError:
            raise
        except Exception as e:  # noqa: BLE001
            return ("raise", type(e).__name__), stub.calls
        if not isinstance(r, _StubNode):
            return ("raise", "NotAStubNode:" + type(r).__name__), stub.calls
        return ("ok", r.t), stub.calls
    finally:
        S.sympy, S._ALLOWED_FUNCTIONS = real_sympy, real_tab


def _tree_ok(m) -> bool:
    """Only constructors the model has (a parser that starts using Python // or % on SymPy objects, or
    symbols without the integer/positive assumptions, is a divergence)."""
    if m[0] in ("ESym", "EInt"):
        return True
    if m[0] == "ENeg":
        return _tree_ok(m[1])
    if m[0] == "EUn":
        return _tree_ok(m[2])
    if m[0] == "EBin":
        return _tree_ok(m[2]) and _tree_ok(m[3])
    return False


# --------------------------------------------------------------------------- generators: strings of the grammar

NAMES = ["N", "M", "K", "batch", "seq_len", "_d", "x1", "a.b", "decoder_input_ids.45_dim_1", "H", "W"]
# dimension NAMES that spell a key of _ALLOWED_FUNCTIONS (either spelling): `max + 1` is a sum of the symbol max
COLLIDE = ["max", "Max", "min", "Min", "floor", "ceiling", "Abs", "sign", "sqrt", "mod", "Mod"]
FN1 = ["floor", "ceiling", "Abs", "sign"]
FN2 = ["mod", "Mod"]
FNN = ["max", "Max", "min", "Min"]


class X:
    """Exact number for evaluating the Python rendering of a grammar string with Python's own parser."""
    __slots__ = ("q",)

    def __init__(self, q):
        self.q = Fraction(q)

    def __add__(self, o): return X(self.q + o.q)
    def __sub__(self, o): return X(self.q - o.q)
    def __mul__(self, o): return X(self.q * o.q)
    def __truediv__(self, o): return X(_div(self.q, o.q))
    def __floordiv__(self, o): return X(math.floor(_div(self.q, o.q)))
    def __mod__(self, o): return X(_mod(self.q, o.q))
    def __pow__(self, o): return X(_pow(self.q, o.q))
    def __neg__(self): return X(-self.q)


_PYFN = {
    "max": lambda *a: X(max(x.q for x in a)), "min": lambda *a: X(min(x.q for x in a)),
    "floor": lambda a: X(math.floor(a.q)), "ceiling": lambda a: X(math.ceil(a.q)), "Abs": lambda a: X(abs(a.q)),
    "sign": lambda a: X(_sign(a.q)), "sqrt": lambda a: X(_isqrt_exact(a.q)), "mod": lambda a, b: X(_mod(a.q, b.q)),
}
_PYFN.update({"Max": _PYFN["max"], "Min": _PYFN["min"], "Mod": _PYFN["mod"]})


def gen_tokens(rng, d: int, names: list[str]) -> list:
    """Token list of a random derivation of the documented grammar (expr level)."""
    def small_exp():
        r = rng.random()
        if r < 0.5:
            return [("num", rng.choice([0, 1, 2, 2, 3]))]
        if r < 0.7:
            return [("op", "-"), ("num", rng.choice([1, 2]))]
        if r < 0.85:
            return [("num", rng.choice([1, 2])), ("op", "**"), ("num", rng.choice([0, 1, 2]))]
        return ["("] + [("num", rng.choice([1, 2]))] + [")"]

    def primary(d):
        r = rng.random()
        if d <= 0 or r < 0.3:
            if rng.random() < 0.55:
                return [("id", rng.choice(names))]
            return [("num", rng.choice([0, 1, 1, 2, 2, 3, 4, 5, 7, 8, 10, 16, 64, 100, 1024]))]
        if r < 0.55:
            return ["("] + expr(d - 1) + [")"]
        if r < 0.75:
            return [("fn", rng.choice(FN1)), "("] + expr(d - 1) + [")"]
        if r < 0.85:
            return [("fn", rng.choice(FN2)), "("] + expr(d - 1) + [","] + expr(d - 1) + [")"]
        if r < 0.97:
            n = rng.choice([1, 2, 2, 3])
            out = [("fn", rng.choice(FNN)), "("]
            for i in range(n):
                out += ([","] if i else []) + expr(d - 1)
            return out + [")"]
        return [("fn", "sqrt"), "("] + rng.choice([[("num", 16)], [("num", 9)], [("id", names[0]), ("op", "*"), ("id", names[0])]]) + [")"]

    def power(d):
        b = primary(d)
        if rng.random() < 0.15:
            return b + [("op", "**")] + small_exp()
        return b

    def unary(d):
        if rng.random() < 0.18:
            return [("op", "-")] + unary(d)
        return power(d)

    def term(d):
        out = unary(d)
        while rng.random() < 0.35:
            out += [("op", rng.choice(["*", "/", "//", "%", "*", "//"]))] + unary(d)
        return out

    def expr(d):
        out = term(d)
        while rng.random() < 0.4:
            out += [("op", rng.choice(["+", "-"]))] + term(d)
        return out
    return expr(d)


def render_ir(rng, toks) -> str:
    out = []
    mode = rng.choice(["none", "one", "rand"])
    for t in toks:
        s = t if isinstance(t, str) else str(t[1])
        if out:
            if mode == "one":
                out.append(" ")
            elif mode == "rand":
                out.append(rng.choice(["", " ", "  ", "\t", " "]))
        out.append(s)
    if mode == "rand" and rng.random() < 0.3:
        out = [" "] + out + [" \n"]
    return "".join(out)


def render_py(toks, names: list[str]) -> str:
    out = []
    for t in toks:
        if isinstance(t, str):
            out.append(t)
        elif t[0] == "num":
            out.append(f"F({t[1]})")
        elif t[0] == "id":
            out.append(f"v{names.index(t[1])}" if t[1] in names else f"f_{t[1]}")
        elif t[0] == "fn":
            out.append(f"f_{t[1]}")
        else:
            out.append(t[1])
    return " ".join(out)


def py_value(toks, names, b) -> Fraction:
    """Meaning of the token string according to Python's own grammar and exact arithmetic."""
    env = {f"v{i}": X(b[n]) for i, n in enumerate(names) if n in b}
    env.update({f"f_{k}": v for k, v in _PYFN.items()})
    env["F"] = X
    return eval(compile(ast.parse(render_py(toks, names), mode="eval"), "<c16>", "eval"), {"__builtins__": {}}, env).q  # noqa: S307


ALPHABET = "NMK_.ab019 +-*/%(),  \t$x"


def mutate(rng, s: str) -> str:
    for _ in range(rng.choice([1, 1, 2, 3])):
        if not s:
            return rng.choice(ALPHABET)
        i = rng.randrange(len(s))
        k = rng.random()
        if k < 0.35:
            s = s[:i] + s[i + 1:]
        elif k < 0.7:
            s = s[:i] + rng.choice(ALPHABET) + s[i:]
        elif k < 0.85:
            s = s[:i] + rng.choice(ALPHABET) + s[i + 1:]
        elif k < 0.93:
            s = s[:i]
        else:
            j = rng.randrange(len(s))
            i, j = min(i, j), max(i, j)
            s = s[:i] + s[j:]
    return s


HAND_STRINGS = [
    "", " ", "N", " N ", "-N**2", "2**3**2", "2**-1", "-2**2", "--N", "-(-N)", "2 - -N", "N - M - K", "N / M / K",
    "N // M // K", "N % M % K", "N - M + K", "N * M // K", "N // M * K", "N + M * K", "(N + M) * K", "N * -M",
    "N ** -M", "max()", "max(N)", "max(N, M, K)", "min(N,M)", "floor(N / 2)", "floor(N, M)", "floor()", "mod(N)",
    "Mod(N, 2)", "mod(N, 2, 3)", "ceiling(N/2)", "sign(N-M)*floor(Abs(N-M)/2)", "sqrt(16)", "foo(N)", "N(", "N)",
    "(N", "()", "N M", "2 3", "1a", "a1", "a.b", "a..b", ".a", "1.5", "N.1 + 2", "N ++ M", "N +", "+N", "*N", "N ** ",
    "N *** M", "N /// M", "N // / M", "N,M", "max(N,)", "max(,N)", "max N", "$", "N $", "N + $", "floor(1,2) + $",
    "floor(1,2) )", "_", "_a_", "N\tM", "N\n+\n1", "N\x0b+1", "N\x1c+1", "N\x7f", "decoder_input_ids.45_dim_1 // 2",
    "((((N))))", "-(N)", "- - - N", "N - -M", "N--M", "2**2**-1", "(N)**(2)", "N**M", "Max(1, N)", "N/2", "N*N/M",
    "max", "floor", "if", "None",
]


# --------------------------------------------------------------------------- generators: build trees

def gen_tree(rng, d: int, names: list[str], top: bool = True):
    if d <= 0 or (not top and rng.random() < 0.2):
        r0 = rng.random()
        if r0 < 0.12:
            # same NAMES as the text-built dims, but a distinct SymPy symbol (other assumptions)
            return ["usym", rng.choice(names), rng.choice(sorted(USYM)), rng.choice([1, 1, 2, 3]), rng.choice([0, 0, 1, -1])]
        if r0 < 0.70:
            return ["sym", rng.choice(names)]
        return ["int", rng.choice([0, 1, 1, 2, 2, 2, 3, 3, 4, 5, 7, 8, 16, -1, -2, -3, -8])]
    r = rng.random()
    if r < 0.22:
        k = rng.choice(["neg", "floor", "ceil", "trunc", "trunc", "ceil", "abs", "sign"])
        sub = gen_tree(rng, d - 1, names, False)
        if k in ("floor", "ceil", "trunc") and rng.random() < 0.8:
            # rounding of a quotient is the interesting case
            sub = ["div", sub, rng.choice([["int", rng.choice([2, 3, 4, -2, -3])], gen_tree(rng, d - 2, names, False)])]
        return [k, sub]
    if r < 0.26 and not top:
        # a sub-expression SymPy reduces to exactly 0 when it is built
        x = gen_tree(rng, max(d - 2, 0), names, False)
        return rng.choice([["sub", x, x], ["mul", x, ["int", 0]], ["mod", ["mul", ["int", 2], ["sym", rng.choice(names)]], ["int", 2]],
                           ["sub", ["floordiv", ["sym", names[0]], ["sym", names[0]]], ["int", 1]]])
    if r < 0.36:
        # identity-looking constants (0, 1, -1) on either side of every operator, over a rational-valued operand
        k = rng.choice(BIN)
        sub = _rational_sub(rng, names, max(d - 2, 0))
        c = ["int", rng.choice(NEUTRAL)]
        # (no constant ** symbolic-rational: (-1)**(N/2) leaves the real numbers, outside the property)
        return [k, sub, c] if (k == "pow" or rng.random() < 0.6) else [k, c, sub]
    k = rng.choice(["add", "sub", "mul", "div", "floordiv", "mod", "add", "sub", "mul", "floordiv", "mod", "max", "min", "pow"])
    a = gen_tree(rng, d - 1, names, False)
    if k == "pow":
        return ["pow", a, ["int", rng.choice([0, 1, 2, 2, 3, -1, -2])]]
    b = gen_tree(rng, d - 1, names, False)
    return [k, a, b]


NEUTRAL = (0, 1, -1)


def _rational_sub(rng, names, d=1):
    """A subtree whose value is usually NOT an integer (a quotient)."""
    num = gen_tree(rng, d, names, False) if rng.random() < 0.5 else ["sym", rng.choice(names)]
    return ["div", num, ["int", rng.choice([2, 3, 4, -2, -3])]]


def neutral_grid() -> list[dict]:
    """Every binary operator with the identity-looking constants 0, 1, -1 on either side of a rational-valued
    operand (n/2 at odd n, (n - m)/3, ...): `(n / 2) // 1` is floor(n/2), not n/2.  Run on every check."""
    out = []
    bases = [(["div", ["sym", "n"], ["int", 2]], {"n": 3}),
             (["div", ["sub", ["sym", "n"], ["sym", "m"]], ["int", 3]], {"n": 2, "m": 9}),
             (["add", ["div", ["sym", "n"], ["int", 2]], ["div", ["sym", "m"], ["int", 3]]], {"n": 5, "m": 4})]
    for base, b in bases:
        for op in BIN:
            for c in NEUTRAL:
                for t in ((["%s" % op, base, ["int", c]],) if op == "pow" else
                          (["%s" % op, base, ["int", c]], ["%s" % op, ["int", c], base])):
                    out.append({"tree": t, "bindings": dict(b), "partial": {}})
                    if len(b) > 1:
                        out.append({"tree": t, "bindings": dict(b), "partial": {"n": b["n"]}})
        for op in UN:
            if op != "sqrt":
                out.append({"tree": [op, base], "bindings": dict(b), "partial": {}})
    return out


def _chain(kind: str, x, k: int):
    return {"floordiv": ["floordiv", x, ["int", k]], "mod": ["mod", x, ["int", k]],
            "ceil": ["ceil", ["div", x, ["int", k]]], "trunc": ["trunc", ["div", x, ["int", k]]]}[kind]


def _unround(t):
    """The tree with every rounding removed (to pick bindings where the inner rounding matters)."""
    if t[0] in LEAVES:
        return t
    if t[0] in ("floor", "ceil", "trunc"):
        return _unround(t[1])
    if t[0] == "floordiv":
        return ["div", _unround(t[1]), _unround(t[2])]
    return [t[0]] + [_unround(x) for x in t[1:]]


def chain_grid() -> list[dict]:
    """Nested rounding chains  outer((inner(x, a) * b), c)  with inner, outer in // % ceil trunc over small
    a, b, c, at a binding where the INNER rounding changes the result (floor(2*floor(N/2)/3) is 0 at N=3, but
    floor(N/3) is 1): checked through evaluate, simplify, Shape.simplify and the re-parsed texts."""
    out = []
    xs = [["sym", "N"], ["sub", ["sym", "N"], ["sym", "M"]]]
    for inner in ("floordiv", "mod", "ceil", "trunc"):
        for outer in ("floordiv", "mod", "ceil", "trunc"):
            for a in (2, 3):
                for bb in (2, 3):
                    for c in (3, 4, 5):
                        if bb == c:
                            continue
                        x = xs[(a + bb + c) % 2]
                        if "trunc" in (inner, outer):
                            # sign/Abs of a two-symbol difference, nested, costs sympy.simplify seconds per case
                            x = ["sym", "N"] if inner == outer else ["sub", ["sym", "N"], ["int", 6]]
                        mid = ["mul", _chain(inner, x, a), ["int", bb]]
                        t = _chain(outer, mid, c)
                        flat = _chain(outer, ["mul", _unround(_chain(inner, x, a)) if inner != "mod" else x, ["int", bb]], c)
                        pick = None
                        for n in (3, 5, 7, 4, 9, 11, 8, 1, 2):
                            b = {"N": n, "M": 1} if x[0] == "sub" else {"N": n}
                            try:
                                if exact(t, b) != exact(flat, b):
                                    pick = b
                                    break
                            except Undefined:
                                continue
                        out.append({"tree": t, "bindings": pick or ({"N": 3, "M": 1} if x[0] == "sub" else {"N": 3}),
                                    "partial": {}})
    return out


def usym_grid() -> list[dict]:
    """Dimensions built from caller-supplied SymPy expressions (Symbol('N') without / with other assumptions)
    combined with text-built dimensions of the SAME names: binding the name must resolve every such symbol."""
    out = []
    for tag in sorted(USYM):
        u = ["usym", "N", tag, 2, 1]
        u1 = ["usym", "N", tag, 1, 0]
        n, m = ["sym", "N"], ["sym", "M"]
        for t in (["sub", ["mul", u, m], n], ["add", ["floordiv", u1, ["int", 2]], ["mod", n, ["int", 3]]],
                  ["sub", ["mul", n, ["int", 3]], u1], ["floordiv", ["add", u, n], m], ["max", u1, ["add", n, ["int", 1]]],
                  ["mul", ["usym", "M", tag, 1, 0], ["sub", n, u1]], u):
            for b, part in (({"N": 4, "M": 3}, {}), ({"N": 7, "M": 5}, {"M": 5}), ({"N": 7, "M": 5}, {"N": 7})):
                bb = {k_: v for k_, v in b.items() if k_ in syms_of(t)}
                out.append({"tree": t, "bindings": bb, "partial": {k_: v for k_, v in part.items() if k_ in bb}})
    return out


def zero_grid() -> list[dict]:
    """Sub-expressions SymPy reduces to exactly 0 AT CONSTRUCTION TIME (N - N, N*0, (2*N) % 2, N//N - 1, ...): alone
    and inside larger expressions; the exact value (0 for the bare ones) is expected, not an unknown dimension."""
    n, m = ["sym", "N"], ["sym", "M"]
    zeros = [["sub", n, n], ["mul", n, ["int", 0]], ["mul", ["int", 0], n], ["mod", ["mul", ["int", 2], n], ["int", 2]],
             ["sub", ["floordiv", n, n], ["int", 1]], ["sub", ["add", n, m], ["add", m, n]], ["mod", n, ["int", 1]],
             ["floordiv", ["int", 0], n], ["sub", ["max", n, n], n], ["trunc", ["div", ["sub", n, n], ["int", 2]]],
             ["neg", ["sub", n, n]], ["floor", ["div", ["sub", m, m], n]], ["sub", ["div", n, n], ["int", 1]],
             ["add", ["usym", "N", "plain", 1, 0], ["neg", ["usym", "N", "plain", 1, 0]]], ["pow", ["sub", n, n], ["int", 2]]]
    out = []
    for z in zeros:
        ss = syms_of(z)
        b = {k_: v for k_, v in (("N", 5), ("M", 3)) if k_ in ss}
        out.append({"tree": z, "bindings": dict(b), "partial": {}})
        for t in (["add", z, m], ["mul", ["add", z, ["int", 3]], m], ["floordiv", m, ["add", z, ["int", 2]]],
                  ["sub", ["int", 7], z], ["max", z, m]):
            bb = dict(b, M=3)
            out.append({"tree": t, "bindings": bb, "partial": ({"M": 3} if len(out) % 2 else {})})
    return out


def collision_tree_cases() -> list[dict]:
    """Dimensions NAMED like a function-table key, inside larger expressions and through print -> parse:
    (SymbolicDim("max") * 2 + 1) // 3 prints floor(2*max/3 + 1/3)."""
    out = []
    for i, k in enumerate(COLLIDE):
        x = ["sym", k]
        out.append({"tree": ["floordiv", ["add", ["mul", x, ["int", 2]], ["int", 1]], ["int", 3]],
                    "bindings": {k: 4 + i % 3}, "partial": {}})
        out.append({"tree": ["max", ["add", x, ["int", 1]], ["mod", ["sym", "N"], x]],
                    "bindings": {k: 3, "N": 7 + i}, "partial": {"N": 7 + i}})
    return out


def collision_string_items(rng) -> list[dict]:
    """Grammar strings in which a symbol spells a function name (not followed by a parenthesis)."""
    items = []
    for k in COLLIDE:
        for toks in ([("id", k), ("op", "+"), ("num", 1)],
                     [("num", 2), ("op", "*"), ("id", k), ("op", "//"), ("num", 3)],
                     [("fn", "floor"), "(", ("num", 2), ("op", "*"), ("id", k), ("op", "/"), ("num", 3), ("op", "+"),
                      ("num", 1), ("op", "/"), ("num", 3), ")"],
                     [("fn", "Max"), "(", ("id", k), ",", ("id", "N"), ")", ("op", "-"), ("id", k)],
                     ["(", ("id", k), ")", ("op", "**"), ("num", 2), ("op", "%"), ("id", k)],
                     [("op", "-"), ("id", k), ("op", "*"), ("fn", k if k not in ("mod", "Mod", "max", "Max", "min", "Min") else "Abs"),
                      "(", ("id", k), ")"]):
            names = [k, "N"]
            b = {k: rng.choice([1, 4, 7]), "N": 3}
            items.append({"text": render_ir(rng, toks), "bindings": b, "toks": toks, "names": names})
    return items


def gen_case(rng, thorough: bool):
    names = rng.sample(NAMES, rng.choice([1, 2, 2, 3]))
    if rng.random() < 0.25:
        names[rng.randrange(len(names))] = rng.choice(COLLIDE)
    for _ in range(50):
        t = gen_tree(rng, rng.choice([1, 2, 2, 3, 3, 4] if not thorough else [1, 2, 3, 3, 4, 4, 5]), names)
        if has_sym(t):
            break
    else:
        t = ["add", ["sym", names[0]], ["int", 1]]
    ss = syms_of(t)
    b = {s: rng.choice([1, 1, 2, 3, 4, 5, 6, 7, 8, 9, 10, 12, 16, 17, 64, 100, 255]) for s in ss}
    part = {s: b[s] for s in ss if rng.random() < 0.5}
    return {"tree": t, "bindings": b, "partial": part}


# --------------------------------------------------------------------------- implementation side: real SymbolicDim

def build(t):
    """Apply the user-level operations of a build tree to real SymbolicDim objects.  int leaves stay Python
    ints when the other operand is a dimension and the reflected operator exists; otherwise they are
    written as the dimension text of the integer (SymbolicDim("3")).  max/min/pow/abs/sign have no
    operator on SymbolicDim and are composed through the dimension TEXT (public: value)."""
    import onnx_ir as ir
    k = t[0]
    if k == "sym":
        return ir.SymbolicDim(t[1])
    if k == "usym":
        import sympy
        return ir.SymbolicDim(t[3] * sympy.Symbol(t[1], **USYM[t[2]]) + t[4])
    if k == "int":
        return t[1]

    def dim(x):
        return ir.SymbolicDim(str(x)) if isinstance(x, int) else x
    if k in UN:
        a = dim(build(t[1]))
        if k == "neg":
            return -a
        if k == "floor":
            return math.floor(a)
        if k == "ceil":
            return math.ceil(a)
        if k == "trunc":
            return math.trunc(a)
        return ir.SymbolicDim({"abs": "Abs", "sign": "sign", "sqrt": "sqrt"}[k] + f"({a.value})")
    a, b = build(t[1]), build(t[2])
    if isinstance(a, int) and (isinstance(b, int) or k in ("floordiv", "mod", "max", "min", "pow")):
        a = dim(a)
    if k == "add":
        return a + b
    if k == "sub":
        return a - b
    if k == "mul":
        return a * b
    if k == "div":
        return a / b
    if k == "floordiv":
        return a // b
    if k == "mod":
        return a % b
    a, b = dim(a), dim(b)
    if k == "max":
        return ir.SymbolicDim(f"Max({a.value}, {b.value})")
    if k == "min":
        return ir.SymbolicDim(f"Min({a.value}, {b.value})")
    if k == "pow":
        return ir.SymbolicDim(f"({a.value})**({b.value})")
    raise AssertionError(k)


def val(x, _depth: int = 0):
    """Canonical observation of an evaluate() result."""
    import onnx_ir as ir
    if isinstance(x, bool):
        return ["other", repr(x)]
    if isinstance(x, int):
        return ["int", x]
    if isinstance(x, ir.SymbolicDim):
        v = x.value
        if v is None:
            return ["other", "None"]
        try:
            q = Fraction(v.replace(" ", ""))
        except (ValueError, ZeroDivisionError):
            # a closed residual that SymPy left unevaluated ("Max(2, 7)/3"): read it through its own text once
            if _depth == 0:
                try:
                    if not x.free_symbols():
                        r = val(ir.SymbolicDim(v).evaluate({}), 1)
                        if r[0] in ("int", "frac"):
                            return ["frac", r[1], r[2] if r[0] == "frac" else 1] if r[0] == "frac" else \
                                ["frac", r[1], 1]
                except Exception:  # noqa: BLE001
                    pass
            return ["other", v]
        return ["frac", q.numerator, q.denominator]
    return ["other", type(x).__name__]


class _Timeout(Exception):
    pass


def _with_alarm(sec, f):
    import signal

    def h(*_):
        raise _Timeout()
    old = signal.signal(signal.SIGALRM, h)
    signal.alarm(sec)
    try:
        return f()
    finally:
        signal.alarm(0)
        signal.signal(signal.SIGALRM, old)


def _try(f):
    try:
        return f()
    except _Timeout:
        return ["timeout"]
    except RecursionError:
        return ["raise", "RecursionError"]
    except Exception as e:  # noqa: BLE001
        return ["raise", type(e).__name__, str(e)[:120]]


def observe(case: dict, with_simplify: bool = True) -> dict:
    """Everything the property talks about, observed on the real implementation (public API only)."""
    import onnx
    import onnx_ir as ir
    from onnx_ir import serde
    t, b, part = case["tree"], case["bindings"], case["partial"]
    rest = {k: v for k, v in b.items() if k not in part}
    obs: dict = {}
    try:
        d = _with_alarm(20, lambda: build(t))
    except _Timeout:
        return {"build": ["timeout"]}
    except Exception as e:  # noqa: BLE001
        return {"build": ["raise", type(e).__name__, str(e)[:120]]}
    obs["build"] = ["ok"]
    obs["text"] = d.value
    obs["full"] = _try(lambda: val(d.evaluate(b)))

    def two_step():
        r = d.evaluate(part)
        if isinstance(r, int):
            return val(r)
        return val(r.evaluate(rest))
    obs["partial"] = _try(two_step)
    obs["residual_text"] = _try(lambda: (lambda r: ["text", r.value] if isinstance(r, ir.SymbolicDim) else ["int", r])(d.evaluate(part)))

    def two_step_text():
        # the residual goes through its TEXT (what a saved model would hold) before the second binding
        r = d.evaluate(part)
        if isinstance(r, int):
            return val(r)
        return val(ir.SymbolicDim(r.value).evaluate(rest))
    obs["partial_text"] = _try(two_step_text)
    obs["reparse"] = _try(lambda: val(ir.SymbolicDim(d.value).evaluate(b)))

    def via_serde():
        p = onnx.TensorShapeProto.Dimension()
        serde.serialize_dimension_into(p, d)
        return val(ir.SymbolicDim(p.dim_param).evaluate(b)) if p.HasField("dim_param") else ["other", "no dim_param"]
    obs["serde"] = _try(via_serde)
    obs["free"] = _try(lambda: ["set"] + sorted(d.free_symbols()))
    obs["shape"] = _try(lambda: [val(x) for x in ir.Shape([d, 5, next(iter(b))]).evaluate(b).dims])
    if with_simplify and case.get("simplify", True):
        try:
            s = _with_alarm(6, d.simplify)
            obs["simplify_text"] = s.value
            obs["simplify"] = _try(lambda: val(s.evaluate(b)))
            obs["simplify_reparse"] = _try(lambda: val(ir.SymbolicDim(s.value).evaluate(b)))
            obs["shape_simplify"] = _try(lambda: [val(x) for x in ir.Shape([d, 5]).simplify().evaluate(b).dims])
        except _Timeout:
            obs["simplify"] = ["timeout"]
        except Exception as e:  # noqa: BLE001
            obs["simplify"] = ["raise", type(e).__name__, str(e)[:120]]
    return obs


def qval(q: Fraction):
    return ["int", int(q)] if q.denominator == 1 else ["frac", q.numerator, q.denominator]


def oracle(case: dict, obs: dict) -> list[str]:
    """The property statement, on public observations.  Readings: an expression whose exact value does not
    exist under the binding (division by zero, ...) is outside the statement; a non-integer exact value must
    come back as the dimension whose text is that rational; a simplify() that does not return within the
    time limit is not judged."""
    t, b = case["tree"], case["bindings"]
    try:
        want = qval(exact(t, b))
    except Undefined:
        return []
    if abs(Fraction(want[1], want[2] if want[0] == "frac" else 1)) > 10 ** 3000:
        return []
    bad = []
    if obs["build"] != ["ok"]:
        if obs["build"] == ["timeout"]:
            return []
        return [f"build: applying the operators raised {obs['build'][1:]} although the exact value {want} exists"]
    for key, what in (("full", "evaluate(all bindings)"),
                      ("partial", "evaluate(partial) then evaluate(rest)"),
                      ("partial_text", "evaluate(partial) -> text -> SymbolicDim(text).evaluate(rest)"),
                      ("reparse", "SymbolicDim(dim.value).evaluate"),
                      ("serde", "dim_param written by serde, read back, evaluate"),
                      ("simplify", "simplify().evaluate"),
                      ("simplify_reparse", "SymbolicDim(simplify().value).evaluate")):
        if key not in obs or obs[key] == ["timeout"]:
            continue
        if obs[key] != want:
            bad.append(f"{key}: {what} gave {obs[key]}, exact arithmetic gives {want}")
    if "shape" in obs and obs["shape"] != [want, ["int", 5], ["int", b[next(iter(b))]]]:
        bad.append(f"shape: Shape.evaluate gave {obs['shape']}, expected first dim {want}")
    if "shape_simplify" in obs and obs["shape_simplify"] != [want, ["int", 5]]:
        bad.append(f"shape_simplify: Shape.simplify().evaluate gave {obs['shape_simplify']}, expected {want}")
    if obs.get("free", ["set"])[0] == "set":
        extra = set(obs["free"][1:]) - set(syms_of(t))
        if extra:
            bad.append(f"free: free_symbols() reports {sorted(extra)} which are not in the expression")
    else:
        bad.append(f"free: free_symbols() raised {obs['free']}")
    return bad


def exact_m(m, b: dict) -> Fraction:
    """Exact value of a MODEL tree (the constructor tree recorded by the stub)."""
    k = m[0]
    if k == "ESym":
        if m[1] not in b:
            raise Undefined("unbound")
        return Fraction(b[m[1]])
    if k == "EInt":
        return Fraction(m[1])
    if k == "ENeg":
        return -exact_m(m[1], b)
    if k == "EUn":
        a = exact_m(m[2], b)
        return {"FFloor": lambda: Fraction(math.floor(a)), "FCeil": lambda: Fraction(math.ceil(a)),
                "FAbs": lambda: abs(a), "FSign": lambda: _sign(a), "FSqrt": lambda: _isqrt_exact(a)}[m[1]]()
    a, c = exact_m(m[2], b), exact_m(m[3], b)
    if (m[1] == "BPow" and (abs(a) > 10 ** 80 or abs(c) > 10 ** 80)) or abs(a) > 10 ** 3000 or abs(c) > 10 ** 3000:
        raise Undefined("pow-size")
    return {"BAdd": lambda: a + c, "BSub": lambda: a - c, "BMul": lambda: a * c, "BDiv": lambda: _div(a, c),
            "BMod": lambda: _mod(a, c), "BPow": lambda: _pow(a, c), "BMax": lambda: max(a, c),
            "BMin": lambda: min(a, c)}[m[1]]()


def m_syms(m, acc=None) -> list[str]:
    acc = [] if acc is None else acc
    if m[0] == "ESym":
        if m[1] not in acc:
            acc.append(m[1])
    elif m[0] != "EInt":
        for s in m[1:]:
            if isinstance(s, tuple):
                m_syms(s, acc)
    return acc


def observe_string(text: str, b: dict) -> dict:
    """Real parser + real SymPy on a dimension string."""
    import onnx_ir as ir
    from onnx_ir import _symbolic_shapes as S
    try:
        _with_alarm(10, lambda: S.parse_symbolic_expression(text))
    except _Timeout:
        return {"parse": "timeout"}
    except Exception as e:  # noqa: BLE001
        return {"parse": "raise", "exc": type(e).__name__}
    return {"parse": "ok", "value": _try(lambda: _with_alarm(10, lambda: val(ir.SymbolicDim(text).evaluate(b))))}


# --------------------------------------------------------------------------- case files

CASE_HEADER = """From Coq Require Import ZArith NArith List Bool QArith.
From IRV Require Import Base.Exn Gen.C16Gen C16.Model Gen.C16OpsGen C16.Ops.
Import ListNotations.
"""


def _obs_q(o) -> str:
    """option (option Q): None = not observed, Some None = raised / not a number, Some (Some q)."""
    if o is None or o == ["timeout"]:
        return "None"
    if o[0] == "int":
        return f"(Some (Some {cq(Fraction(o[1]))}))"
    if o[0] == "frac":
        return f"(Some (Some {cq(Fraction(o[1], o[2]))}))"
    return "(Some None)"


def parser_case_file(rows: list[tuple[str, tuple]]) -> str:
    """rows: (text, ('ok', tree) | ('raise', name))"""
    items = []
    for text, r in rows:
        exp = f"(Some {cexpr(r[1])})" if r[0] == "ok" else "None"
        items.append(cpair(cstr(text), exp))
    return CASE_HEADER + (
        "Definition cases : list (list N * option expr) :=\n  " + clist(items).replace("; (", ";\n  (") + ".\n"
        "Definition agree (c : list N * option expr) : bool := oexpr_eqb (parse_dim (fst c)) (snd c).\n"
        "Eval vm_compute in (failing agree cases).\n")


def string_eval_case_file(rows: list[tuple[str, dict, dict]]) -> str:
    """rows: (text, bindings, observe_string result with parse in ok/raise)"""
    items = []
    for text, b, o in rows:
        ok = o["parse"] == "ok"
        items.append("(" + ", ".join([cstr(text), cenv(b), "true" if ok else "false",
                                      _obs_q(o.get("value")) if ok else "None"]) + ")")
    return CASE_HEADER + (
        "Definition cases : list (list N * env * bool * option (option Q)) :=\n  "
        + clist(items).replace("; (", ";\n  (") + ".\n"
        "Definition agree (c : list N * env * bool * option (option Q)) : bool :=\n"
        "  let '(s, b, ok, v) := c in\n"
        "  match parse_dim s with\n"
        "  | None => negb ok\n"
        "  | Some e => match eval b e with\n"
        "              | Some q => ok && match v with Some w => oq_eqb w (Some q) | None => true end\n"
        "              | None => true end\n"
        "  end.\n"
        "Eval vm_compute in (failing agree cases).\n")


TREE_KEYS = ("full", "partial", "partial_text", "reparse", "serde", "simplify", "simplify_reparse")


def tree_case_file(rows: list[tuple[dict, dict]]) -> str:
    """rows: (case, obs) with obs['build'] == ['ok'].  The model evaluates the constructor tree, the partial
    binding, and parses every TEXT the implementation produced (value, residual, simplified value)."""
    items = []
    for case, obs in rows:
        b, part = case["bindings"], case["partial"]
        rest = {k: v for k, v in b.items() if k not in part}
        texts = [cpair(cstr(obs["text"]), cenv(b))]
        rt = obs.get("residual_text")
        if rt and rt[0] == "text" and rt[1] is not None:
            texts.append(cpair(cstr(rt[1]), cenv(rest)))
        st = obs.get("simplify_text")
        if st is not None and "Piecewise" not in st:
            texts.append(cpair(cstr(st), cenv(b)))
        texts = [x for x in texts if all(ord(ch) < 128 for ch in x)]
        items.append("(" + ", ".join([cbtree(case["tree"]), cexpr(to_model(case["tree"])), cenv(b), cenv(part), cenv(rest),
                                      clist(_obs_q(obs.get(k)) for k in TREE_KEYS), clist(texts)]) + ")")
    return CASE_HEADER + (
        "Definition cases : list (btree * expr * env * env * env * list (option (option Q)) * list (list N * env)) :=\n  "
        + clist(items).replace("; ((K", ";\n  ((K") + ".\n"
        "(* e = to_expr bt: the expression through the operator methods TRANSLATED from _core.py; e0 = the harness's own\n"
        "   reading of the same build tree (to_model): both must have the implementation's value *)\n"
        "Definition agree (c : btree * expr * env * env * env * list (option (option Q)) * list (list N * env)) : bool :=\n"
        "  let '(bt, e0, b, part, rest, observed, texts) := c in\n"
        "  let e := to_expr bt in\n"
        "  match eval b e with\n"
        "  | None => match eval b e0 with None => true | Some _ => false end\n"
        "  | Some q =>\n"
        "      oq_eqb (eval b e0) (Some q) &&\n"
        "      forallb (fun o => match o with Some w => oq_eqb w (Some q) | None => true end) observed\n"
        "      && oq_eqb (eval rest (subst part e)) (Some q)\n"
        "      && forallb (fun tb => match parse_dim (fst tb) with\n"
        "                            | Some e' => oq_eqb (eval (snd tb) e') (Some q) | None => false end) texts\n"
        "  end.\n"
        "Eval vm_compute in (failing agree cases).\n")


def _chunks(l, n):
    return [l[i:i + n] for i in range(0, len(l), n)]


def run_case_files(ck, name: str, rows: list, mk, per: int = 400) -> list[int]:
    """Compile the case files of one correspondence in parallel; returns failing row indices."""
    if not rows:
        return []
    chunks = _chunks(rows, per)
    res = ck.coq_eval_many([(f"{name}_{i}", mk(ch)) for i, ch in enumerate(chunks)], timeout=900)
    bad = []
    for i, (rc, out) in enumerate(res):
        if rc != 0:
            raise RuntimeError(f"case file {name}_{i} did not compile:\n{out[-3000:]}")
        bad += [i * per + j for j in common.parse_nat_list(out)]
    return bad


# --------------------------------------------------------------------------- known findings

def _sympy_simplify_raises(case: dict, obs: dict) -> str | None:
    """Exception class raised by sympy.simplify ALONE on what ir-py asked SymPy to build (the constructor tree
    of the build tree, or the constructor tree the stub records for the dimension's text), else None."""
    import sympy
    cands = [lambda: sympy_build(to_model(case["tree"]))]
    if obs.get("text"):
        r = stub_parse(obs["text"])[0]
        if r[0] == "ok" and _tree_ok(r[1]):
            cands.append(lambda: sympy_build(r[1]))
    for mk in cands:
        try:
            _with_alarm(20, lambda: sympy.simplify(mk()))
        except _Timeout:
            continue
        except Exception as e:  # noqa: BLE001
            return type(e).__name__
    return None


def _sympy_build_raises(t) -> str | None:
    """Exception class raised by SymPy ALONE while constructing what ir-py asks it to build for `t`."""
    try:
        _with_alarm(20, lambda: sympy_build(to_model(t)))
    except _Timeout:
        return None
    except RecursionError:
        return "RecursionError"
    except Exception as e:  # noqa: BLE001
        return type(e).__name__
    return None


def _number_floordiv_site(case: dict) -> bool:
    """Every minimal failing subtree is `a // b` whose operands SymPy has already reduced to NUMBERS, and Python's
    `//` on those two SymPy numbers (what SymbolicDim.__floordiv__ applies) alone gives the same wrong value while
    floor(a / b) on them is the exact one (SymPy's Number.__floordiv__ is wrong for an exact quotient by a negative
    rational: Integer(1) // Rational(-1, 2) == -3)."""
    import sympy
    mins = minimal_failing(case, with_simplify=False)
    if not mins:
        return False
    for c, o, _bd in mins:
        t = c["tree"]
        if t[0] != "floordiv":
            return False
        try:
            A, B = sympy_build(to_model(t[1])), sympy_build(to_model(t[2]))
            if not (A.is_Number and B.is_Number):
                return False
            wrong, right = A // B, sympy.floor(A / B)
            if wrong == right or o.get("full") != ["int", int(wrong)] or qval(exact(t, c["bindings"])) != ["int", int(right)]:
                return False
        except Exception:  # noqa: BLE001
            return False
    return True


def _known_keys(ck) -> set[str]:
    return {k["key"] for k in ck._known if k.get("status") == "known"}


def _known_key(ck, case: dict, obs: dict, bad: list[str]) -> str | None:
    """Map a failing case to known finding key(s) ('+'-joined) by SITE, else None.
      simplify-returns-piecewise : the failed observations are the re-parse of simplify()'s text / a
                                ZeroDivisionError of simplify().evaluate, and that text contains Piecewise
      sympy-simplify-raises   : simplify() itself raised and sympy.simplify ALONE raises the same exception
                                class on the same constructor tree
      sympy-autoeval-<op>     : every minimal failing subtree is rooted at <op> and SymPy ALONE (same
                                constructor calls, no ir-py code) gives the same wrong value
    A failure that mixes a known site with anything else is not known."""
    known = _known_keys(ck)
    keys = []
    rest = list(bad)
    if "sympy-mod-recursion" in known and obs.get("build", [""])[:2] == ["raise", "RecursionError"] \
            and "mod" in ops_of(case["tree"]) and _sympy_build_raises(case["tree"]) == "RecursionError":
        return "sympy-mod-recursion"
    st = obs.get("simplify_text") or ""
    if "simplify-returns-piecewise" in known and "Piecewise" in st:
        # both symptoms of the one site: the text is not parseable / the unused branch divides by zero
        def sym(b_):
            k_ = b_.split(":")[0]
            return (k_ == "simplify_reparse" and obs.get("simplify_reparse", [""])[0] == "raise") or \
                   (k_ in ("simplify", "shape_simplify") and "ZeroDivisionError" in b_)
        n0 = len(rest)
        rest = [b_ for b_ in rest if not sym(b_)]
        if len(rest) < n0:
            keys.append("simplify-returns-piecewise")
    elif "simplify-returns-piecewise" in known and obs.get("simplify", [""])[:2] == ["raise", "ZeroDivisionError"] \
            and ops_of(case["tree"]) & {"trunc", "sign"}:
        # same site under other hash seeds: sympy.simplify itself trips over the branch while rewriting sign()
        n0 = len(rest)
        rest = [b_ for b_ in rest if b_.split(":")[0] not in ("simplify", "shape_simplify")]
        if len(rest) < n0:
            keys.append("simplify-returns-piecewise")
    if "sympy-simplify-raises" in known and obs.get("simplify", [""])[0] == "raise" and "simplify_text" not in obs \
            and _sympy_simplify_raises(case, obs) == obs["simplify"][1]:
        n0 = len(rest)
        rest = [b_ for b_ in rest if b_.split(":")[0] not in ("simplify", "shape_simplify")]
        if len(rest) < n0:
            keys.append("sympy-simplify-raises")
    if rest and "floordiv-on-sympy-numbers" in known and sum(1 for _ in _subtrees(case["tree"])) <= 150 \
            and _number_floordiv_site(case):
        return "+".join(keys + ["floordiv-on-sympy-numbers"])
    if rest:
        if sum(1 for _ in _subtrees(case["tree"])) > 150:
            return None        # large flat trees: never attributed to SymPy (and never silently dropped)
        attr = sympy_attribution(case, obs, rest)
        if attr is None:
            return None
        ks = ["sympy-autoeval-" + o for o in attr[len("sympy-autoeval-"):].split("+")]
        if not all(k in known for k in ks):
            return None
        keys += ks
    return "+".join(keys) if keys else None


def replay_known(ck) -> None:
    for k in ck._known:
        if k.get("status") != "known":
            continue
        case = k["witness"]
        obs = observe(case)
        bad = oracle(case, obs)
        if bad and k["key"] in (_known_key(ck, case, obs, bad) or "").split("+"):
            ck.known_finding(k["key"], k["what"])
            ck.hist("known_findings_replayed_on_implementation", k["key"])
        elif bad:
            ck.violation({"kind": "tree", "case": case, "failures": bad, "note": "known-finding witness fails differently"})
        else:
            ck.broken(f"known-finding-stale:{k['key']}",
                      "the recorded witness no longer fails on the implementation")


# --------------------------------------------------------------------------- shrinking

def _subtrees(t, path=()):
    yield path, t
    if t[0] not in LEAVES:
        for i, s in enumerate(t[1:], 1):
            yield from _subtrees(s, path + (i,))


def _replace(t, path, new):
    if not path:
        return new
    t = list(t)
    t[path[0]] = _replace(t[path[0]], path[1:], new)
    return t


def shrink_tree(ck, case: dict, fails) -> dict:
    cur = json.loads(json.dumps(case))

    def norm(c):
        ss = syms_of(c["tree"])
        c["bindings"] = {s: c["bindings"].get(s, 2) for s in ss}
        c["partial"] = {s: v for s, v in c["partial"].items() if s in ss}
        return c
    import time
    changed, rounds = True, 0
    deadline = time.time() + 60
    if "simplify" in case:
        _norm0 = norm

        def norm(c):  # keep the per-case "do not simplify" flag while shrinking
            c = _norm0(c)
            c["simplify"] = case["simplify"]
            return c
    while changed and rounds < 30 and time.time() < deadline:
        changed = False
        rounds += 1
        for path, sub in list(_subtrees(cur["tree"])):
            if time.time() > deadline:
                break
            cands = []
            if path:
                cands.append(_replace(cur["tree"], (), sub))          # hoist the subtree to the root
            if sub[0] not in LEAVES:
                cands += [_replace(cur["tree"], path, s) for s in sub[1:]]
                cands += [_replace(cur["tree"], path, ["sym", next(iter(cur["bindings"]))]),
                          _replace(cur["tree"], path, ["int", 2])]
            for c in cands:
                if not has_sym(c) or json.dumps(c) == json.dumps(cur["tree"]):
                    continue
                c2 = norm({"tree": c, "bindings": dict(cur["bindings"]), "partial": dict(cur["partial"])})
                if fails(c2):
                    cur, changed = c2, True
                    break
            if changed:
                break
        if not changed:
            for s in list(cur["bindings"]):
                for v in (1, 2, 3):
                    if v < cur["bindings"][s]:
                        c2 = json.loads(json.dumps(cur))
                        c2["bindings"][s] = v
                        if s in c2["partial"]:
                            c2["partial"][s] = v
                        if fails(c2):
                            cur, changed = c2, True
                            break
            if cur["partial"] and not changed:
                c2 = dict(cur, partial={})
                if fails(c2):
                    cur, changed = c2, True
    return cur


def string_failure(toks, names, b, text=None, rng=None) -> dict | None:
    """Grammar string: meaning according to Python's own parser + exact arithmetic vs the implementation."""
    import random
    text = text if text is not None else render_ir(rng or random.Random(0), toks)
    try:
        want = qval(py_value(toks, names, b))
    except Undefined:
        return None
    o = observe_string(text, b)
    if o["parse"] == "timeout" or o.get("value") == ["timeout"]:
        return None
    if o["parse"] != "ok":
        return {"text": text, "bindings": b, "expected": want, "observed": o,
                "what": "a string of the documented grammar is rejected"}
    if o["value"] != want:
        return {"text": text, "bindings": b, "expected": want, "observed": o,
                "what": "a string of the documented grammar does not get the standard arithmetic meaning"}
    return None


def shrink_string(toks, names, b):
    import time
    cur = list(toks)
    changed = True
    deadline = time.time() + 45
    while changed and time.time() < deadline:
        changed = False
        for ln in sorted({len(cur) // 2, len(cur) // 4, 60, 24, 12, 6, 4, 3, 2, 1} - {0}, reverse=True):
            for i in range(0, len(cur) - ln + 1, max(1, ln // 3)):
                if time.time() > deadline:
                    break
                c = cur[:i] + cur[i + ln:]
                if not c:
                    continue
                try:
                    ast.parse(render_py(c, names), mode="eval")
                except SyntaxError:
                    continue
                try:
                    if string_failure(c, names, b, text=" ".join(t if isinstance(t, str) else str(t[1]) for t in c)):
                        cur, changed = c, True
                        break
                except Exception:  # noqa: BLE001
                    continue
            if changed:
                break
    return cur


# --------------------------------------------------------------------------- main

def _load_corpus() -> list[dict]:
    d = os.path.join(common.CORPUS, "C16")
    out = []
    if os.path.isdir(d):
        for fn in sorted(os.listdir(d)):
            if fn.endswith(".json"):
                with open(os.path.join(d, fn)) as f:
                    c = json.load(f)
                c["_file"] = fn
                out.append(c)
    return out


def _small_pow(m, b) -> bool:
    """True when the constructor tree can be evaluated without astronomically large powers."""
    try:
        exact_m(m, b)
        return True
    except Undefined as e:
        return "pow-size" not in str(e)
    except (OverflowError, MemoryError):
        return False


def _string_known(ck, it: dict, fail: dict) -> str | None:
    """A wrong value of a dimension string is the known SymPy finding when SymPy alone, applied to the
    constructor tree the parser requested (stub), gives the same wrong value, and the tree contains the
    operator of a recorded sympy-autoeval finding."""
    r = it.get("_stub")
    o = fail.get("observed", {})
    if r and r[0] == "ok" and o.get("parse") == "raise" and o.get("exc") == "RecursionError" \
            and "sympy-mod-recursion" in _known_keys(ck) and "BMod" in json.dumps(r[1]):
        # SymPy alone, given the constructor calls the parser requested, raises RecursionError inside Mod
        try:
            _with_alarm(20, lambda: sympy_build(r[1]))
        except RecursionError:
            return "sympy-mod-recursion"
        except Exception:  # noqa: BLE001
            return None
        return None
    if not r or r[0] != "ok" or o.get("parse") != "ok":
        return None
    import sympy  # noqa: F401
    b = it["bindings"]

    def f():
        e = sympy_build(r[1])
        v = e.subs({s_: b[str(s_)] for s_ in e.free_symbols if str(s_) in b})
        if v.is_number and v.is_integer:
            return ["int", int(v)]
        if v.is_Rational:
            return ["frac", int(v.p), int(v.q)]
        return ["other", str(v)]
    alone = _try(lambda: _with_alarm(10, f))
    if alone != o.get("value"):
        return None
    txt = json.dumps(r[1])
    keys = [k for k, tag in (("sympy-autoeval-max", "BMax"), ("sympy-autoeval-min", "BMin"), ("sympy-autoeval-mod", "BMod"))
            if tag in txt and k in _known_keys(ck)]
    return "+".join(keys) if keys else None


def check_strings(ck, items: list[dict], report) -> None:
    """items: {'text', 'bindings', optional 'toks','names' (grammar-generated), optional 'expect'}.
    (i) parser tie through the stub, (ii) string evaluation tie, (iii) oracle for grammar strings."""
    parser_rows, eval_rows = [], []
    for it in items:
        text, b = it["text"], it["bindings"]
        if any(ord(c) >= 128 for c in text):
            ck.hist("strings", "non-ascii (outside the model, not compared)")
            continue
        (r, calls) = stub_parse(text)
        ck.count()
        ck.hist("parser_outcomes", "ok" if r[0] == "ok" else "raise:" + r[1])
        for k, n in calls.items():
            ck.hist("sympy_constructors_called_by_parser", k, n)
        if r[0] == "ok" and not _tree_ok(r[1]):
            ck.broken("correspondence:parser-constructors",
                      json.dumps({"text": text, "tree": r[1], "why": "constructor outside the model"}, default=str))
            continue
        parser_rows.append((text, r))
        it["_stub"] = r
        run_real = r[0] != "ok" or _small_pow(r[1], b)
        if r == ("raise", "_ZeroArgMinMax"):
            ck.hist("strings", "Max()/Min() without arguments (SymPy: -oo/oo; outside the model, not compared)")
            run_real = False
        if run_real:
            o = observe_string(text, b)
            if o["parse"] != "timeout":
                eval_rows.append((text, b, o))
                it["_obs"] = o
                ck.count()
            if r[0] == "ok" and o["parse"] == "ok" and len(text) > 8:
                ck.nontriv(("string", text, sorted(b.items())))
        # oracle
        fail = None
        if "toks" in it and run_real:
            fail = string_failure(it["toks"], it["names"], b, text=text)
        elif "expect" in it:
            o = it.get("_obs") or observe_string(text, b)
            want = it["expect"]
            got = o.get("value") if o["parse"] == "ok" else ["raise", o.get("exc")]
            if want == "reject":
                if o["parse"] == "ok":
                    fail = {"text": text, "bindings": b, "expected": "rejected", "observed": o,
                            "what": "a string outside the grammar is accepted"}
            elif got != want:
                fail = {"text": text, "bindings": b, "expected": want, "observed": o,
                        "what": "dimension string does not evaluate to the recorded exact value"}
        if fail is None and r[0] == "ok" and it.get("_obs", {}).get("parse") == "ok":
            # every accepted string: SymPy's value of the requested constructor tree vs exact arithmetic
            try:
                want = qval(exact_m(r[1], b))
                got = it["_obs"].get("value")
                if got != want and got != ["timeout"]:
                    fail = {"text": text, "bindings": b, "expected": want, "observed": it["_obs"],
                            "what": "the value of an accepted dimension string differs from exact arithmetic on the "
                                    "constructor tree its parse requested"}
            except (Undefined, OverflowError):
                pass
        if fail:
            key = _string_known(ck, it, fail)
            if key:
                ck.hist("known_finding_hits", key)
                eval_rows[:] = [r_ for r_ in eval_rows if r_[0] != text]
            else:
                report(it, fail)
    try:
        for i in run_case_files(ck, "parser", parser_rows, parser_case_file, per=500)[:5]:
            text, r = parser_rows[i]
            ck.broken("correspondence:parser", json.dumps({"text": text, "implementation": r,
                                                           "note": "model parse_dim disagrees (tree or accept/reject)"}, default=str))
        for i in run_case_files(ck, "streval", eval_rows, string_eval_case_file, per=400)[:5]:
            text, b, o = eval_rows[i]
            ck.broken("correspondence:string-eval", json.dumps({"text": text, "bindings": b, "implementation": o}))
    except RuntimeError as e:
        ck.broken("correspondence:case-file", str(e))
    ck.coverage["parser_cases_in_coq"] = ck.coverage.get("parser_cases_in_coq", 0) + len(parser_rows)
    ck.coverage["string_eval_cases_in_coq"] = ck.coverage.get("string_eval_cases_in_coq", 0) + len(eval_rows)


def check_trees(ck, cases: list[dict], report) -> None:
    rows = []
    for i, case in enumerate(cases):
        obs = observe(case)
        ck.count()
        for o in ops_of(case["tree"]):
            ck.hist("tree_operators", o)
        ck.hist("tree_depth", str(depth(case["tree"])))
        for _, sub_ in _subtrees(case["tree"]):
            if sub_[0] == "usym":
                ck.hist("caller_supplied_symbol_assumptions", sub_[2])
        ck.hist("binding", "partial" if case["partial"] and len(case["partial"]) < len(case["bindings"])
                else ("complete-first" if case["partial"] else "empty-first"))
        try:
            q = exact(case["tree"], case["bindings"])
            ck.hist("exact_value", "integer" if q.denominator == 1 else "non-integer rational")
        except Undefined as e:
            ck.hist("exact_value", "undefined:" + str(e))
        if obs.get("simplify") == ["timeout"]:
            ck.hist("simplify", "timeout (not judged)")
        bad = oracle(case, obs)
        key = _known_key(ck, case, obs, bad) if bad else None
        in_coq = True
        if bad and key:
            ck.hist("known_finding_hits", key)
            obs = dict(obs)
            obs.pop("simplify_reparse", None)
            if "simplify-returns-piecewise" in key or "sympy-simplify-raises" in key:
                obs.pop("simplify", None)
            if "sympy-autoeval" in key or "floordiv-on-sympy-numbers" in key:
                in_coq = False     # SymPy's value contradicts exact arithmetic here: the finding, not the model
        elif bad:
            report(case, obs, bad)
        if in_coq and obs.get("build") == ["ok"] and obs.get("text") is not None \
                and all(ord(c) < 128 for c in obs["text"]):
            rows.append((case, obs))
            if ops_of(case["tree"]) & {"floordiv", "mod", "floor", "ceil", "trunc", "max", "min", "div"} \
                    and depth(case["tree"]) >= 2:
                ck.nontriv(("tree", case["tree"], sorted(case["bindings"].items()), sorted(case["partial"].items())))
        if len(ck.coverage["samples"]) < 4 and depth(case["tree"]) >= 2:
            ck.sample({"tree": case["tree"], "bindings": case["bindings"], "partial": case["partial"],
                       "text": obs.get("text"), "evaluate": obs.get("full"), "simplify_text": obs.get("simplify_text")})
    try:
        for i in run_case_files(ck, "trees", rows, tree_case_file, per=150)[:5]:
            case, obs = rows[i]
            ck.broken("correspondence:tree-eval", json.dumps({"case": case, "implementation": obs}, default=str))
    except RuntimeError as e:
        ck.broken("correspondence:case-file", str(e))
    ck.coverage["tree_cases_in_coq"] = ck.coverage.get("tree_cases_in_coq", 0) + len(rows)


def flat_tokens(rng, kind: str, n: int, names: list[str]) -> list:
    """Large FLAT strings: n parenthesised groups side by side (nesting depth 1-2), or one group nested n deep."""
    a, b = names[0], names[-1]

    def grp(k, nm=None):
        return ["(", ("id", nm or a), ("op", rng.choice(["+", "+", "-"])), ("num", k), ")"]
    out: list = []
    if kind == "product_of_sums":
        for k in range(1, n + 1):
            out += ([("op", "*")] if out else []) + ["(", ("id", a), ("op", "+"), ("num", k % 7 + 1), ")"]
    elif kind == "sum_of_quotients":
        for k in range(1, n // 2 + 1):
            out += ([("op", rng.choice(["+", "-"]))] if out else []) + grp(k % 9 + 1) + [("op", rng.choice(["/", "//"]))] + \
                ["(", ("id", b), ("op", "+"), ("num", k % 5 + 1), ")"]
    elif kind == "sum_of_products":
        for k in range(1, n // 2 + 1):
            out += ([("op", rng.choice(["+", "-"]))] if out else []) + grp(k % 9 + 1) + [("op", rng.choice(["*", "%"]))] + \
                ["(", ("id", b), ("op", "+"), ("num", k % 5 + 2), ")"]
    elif kind == "calls":
        for k in range(1, n + 1):
            out += ([("op", "+")] if out else []) + [("fn", rng.choice(["floor", "ceiling", "Abs"])), "(",
                                                      ("id", a), ("op", "/"), ("num", k % 6 + 2), ")"]
    elif kind == "deep":
        out = [("id", a)]
        for k in range(n):
            out = ["("] + out + [("op", rng.choice(["+", "-", "*"])), ("num", k % 3 + 1), ")"]
    else:
        raise AssertionError(kind)
    return out


FLAT_KINDS = ("product_of_sums", "sum_of_quotients", "sum_of_products", "calls")


def flat_string_items(rng, thorough: bool) -> list[dict]:
    """Print->parse / grammar stream of large flat expressions (50-200 groups, depth irrelevant) and moderately deep
    ones (well within the interpreter's recursion limit: a parenthesis level costs the parser 5 frames)."""
    items = []
    sizes = [49, 50, 64, 100, 200] if not thorough else [48, 49, 50, 51, 64, 80, 100, 128, 160, 200]
    for kind in FLAT_KINDS:
        for n in (sizes if thorough else rng.sample(sizes, 3)):
            names = rng.sample(["N", "M", "K", "batch", "a.b"], 2)
            toks = flat_tokens(rng, kind, n, names)
            b = {s_: rng.choice([1, 2, 3, 5, 8, 17]) for s_ in names}
            items.append({"text": render_ir(rng, toks), "bindings": b, "toks": toks, "names": names})
    for n in ([20, 49, 60] if not thorough else [10, 20, 40, 49, 50, 60, 80]):
        names = [rng.choice(["N", "M", "seq_len"])]
        toks = flat_tokens(rng, "deep", n, names)
        items.append({"text": render_ir(rng, toks), "bindings": {names[0]: rng.choice([1, 2, 3])}, "toks": toks,
                      "names": names})
    return items


def flat_tree_cases(rng) -> list[dict]:
    """The same shapes built through the real operators, so that the TEXT SymPy prints (many groups side by side)
    goes through SymbolicDim(text), serde and the model's parser.  simplify() is not applied to these."""
    def chain(op, parts):
        t = parts[0]
        for p_ in parts[1:]:
            t = [op, t, p_]
        return t
    n1, n2 = rng.choice([52, 60, 75]), rng.choice([30, 40])
    prod = chain("mul", [["add", ["sym", "N"], ["int", k]] for k in range(1, n1 + 1)])
    quot = chain("add", [["floordiv", ["add", ["sym", "N"], ["int", k]], ["add", ["sym", "M"], ["int", k % 5 + 1]]]
                          for k in range(1, n2 + 1)])
    frac = chain("add", [["div", ["add", ["sym", "N"], ["int", k]], ["add", ["sym", "M"], ["int", k]]]
                          for k in range(1, n2 + 1)])
    return [{"tree": prod, "bindings": {"N": 3}, "partial": {}, "simplify": False},
            {"tree": quot, "bindings": {"N": 17, "M": 2}, "partial": {"M": 2}, "simplify": False},
            {"tree": frac, "bindings": {"N": 5, "M": 3}, "partial": {"N": 5}, "simplify": False}]


# ---- mirror of Model.pm / render (checked against the model inside Coq on every generated tree)
_FN1_NAME = {"FFloor": "floor", "FCeil": "ceiling", "FAbs": "Abs", "FSign": "sign", "FSqrt": "sqrt"}
_CALL = {"BMod": "Mod", "BMax": "Max", "BMin": "Min"}
_INFIX = {"BAdd": ("+", 0, 0, 1), "BSub": ("-", 0, 0, 1), "BMul": ("*", 1, 1, 2), "BDiv": ("/", 1, 1, 2),
          "BPow": ("**", 3, 4, 2)}


def m_level(m) -> int:
    k = m[0]
    if k == "ESym":
        return 4
    if k == "EInt":
        return 2 if m[1] < 0 else 4
    if k == "ENeg":
        return 2
    if k == "EUn":
        return 1 if (m[1] == "FFloor" and m[2][0] == "EBin" and m[2][1] == "BDiv") else 4
    return _INFIX[m[1]][1] if m[1] in _INFIX else 4


def m_pm(l: int, m) -> list[str]:
    k = m[0]
    if k == "ESym":
        body = [m[1]]
    elif k == "EInt":
        body = ["-", str(-m[1])] if m[1] < 0 else [str(m[1])]
    elif k == "ENeg":
        body = ["-"] + m_pm(2, m[1])
    elif k == "EUn":
        if m_level(m) == 1:
            body = m_pm(1, m[2][2]) + ["//"] + m_pm(2, m[2][3])
        else:
            body = [_FN1_NAME[m[1]], "("] + m_pm(0, m[2]) + [")"]
    elif m[1] in _INFIX:
        op, _, la, lb = _INFIX[m[1]]
        body = m_pm(la, m[2]) + [op] + m_pm(lb, m[3])
    else:
        body = [_CALL[m[1]], "("] + m_pm(0, m[2]) + [","] + m_pm(0, m[3]) + [")"]
    return ["("] + body + [")"] if m_level(m) < l else body


def m_prmin(m) -> str:
    return "".join(t + " " for t in m_pm(0, m))


def m_norm(m):
    k = m[0]
    if k == "ESym":
        return m
    if k == "EInt":
        return m_neg(m_int(-m[1])) if m[1] < 0 else m
    if k == "ENeg":
        return m_neg(m_norm(m[1]))
    if k == "EUn":
        return m_un(m[1], m_norm(m[2]))
    return m_bin(m[1], m_norm(m[2]), m_norm(m[3]))


def gen_model_tree(rng, d: int, names: list[str]):
    """Random MODEL trees over the whole operator set (nested powers, negations of powers, negative literals,
    right-nested - / // %, calls), for the print -> parse identity."""
    if d <= 0 or rng.random() < 0.15:
        return m_sym(rng.choice(names)) if rng.random() < 0.6 else m_int(rng.choice([0, 1, 2, 3, 5, 7, 12, -1, -2, -7]))
    r = rng.random()
    if r < 0.15:
        return m_neg(gen_model_tree(rng, d - 1, names))
    if r < 0.30:
        f = rng.choice(["FFloor", "FFloor", "FCeil", "FAbs", "FSign", "FSqrt"])
        sub = gen_model_tree(rng, d - 1, names)
        if f == "FFloor" and rng.random() < 0.7:
            sub = m_bin("BDiv", gen_model_tree(rng, d - 1, names), gen_model_tree(rng, d - 1, names))
        return m_un(f, sub)
    o = rng.choice(["BAdd", "BSub", "BSub", "BMul", "BDiv", "BDiv", "BMod", "BPow", "BPow", "BMax", "BMin"])
    return m_bin(o, gen_model_tree(rng, d - 1, names), gen_model_tree(rng, d - 1, names))


def check_print_min(ck, report) -> None:
    """Model function pm (minimal parentheses): Coq checks that the Python mirror writes the same text as the model
    and that the REAL parser (through the stub) reads that text back to norm e; real SymPy evaluates the text and
    Coq compares with eval e (small-power trees only)."""
    rng = ck.rng
    n = 200 if not ck.thorough else 5000
    rows = []
    for i in range(n):
        names = rng.sample(["N", "M", "K", "a.b", "seq_len", "_d"], rng.choice([1, 2, 3]))
        m = gen_model_tree(rng, rng.choice([1, 2, 3, 3, 4]), names)
        text = m_prmin(m)
        r, _ = stub_parse(text)
        b = {s_: rng.choice([1, 2, 3, 4, 5, 7, 9]) for s_ in m_syms(m)}
        o = None
        if r[0] == "ok" and _small_pow(m, b):
            try:
                exact_m(m, b)
                o = observe_string(text, b)
                if o.get("parse") != "ok" or o.get("value") == ["timeout"]:
                    o = None
                elif o["value"] != qval(exact_m(m, b)):
                    key = _string_known(ck, {"text": text, "bindings": b, "_stub": r}, {"observed": o})
                    if key:                      # SymPy's own value is wrong here (recorded finding): not the model
                        ck.hist("known_finding_hits", key)
                        o = None
            except (Undefined, OverflowError):
                o = None
        rows.append((m, text, r, b, o))
        ck.count()
        ck.hist("print_min_parenthesised_groups", str(min(text.count("("), 6)) + ("+" if text.count("(") >= 6 else ""))
        if text.count("(") and len(text) > 12:
            ck.nontriv(("prmin", text))
    items = []
    for m, text, r, b, o in rows:
        exp = f"(Some {cexpr(r[1])})" if r[0] == "ok" and _tree_ok(r[1]) else "None"
        items.append("(" + ", ".join([cexpr(m), cstr(text), exp, cenv(b), _obs_q(o["value"]) if o else "None"]) + ")")
    text_v = CASE_HEADER + (
        "Definition cases : list (expr * list N * option expr * env * option (option Q)) :=\n  "
        + clist(items).replace("; ((E", ";\n  ((E") + ".\n"
        "Definition agree (c : expr * list N * option expr * env * option (option Q)) : bool :=\n"
        "  let '(e, txt, impl, b, v) := c in\n"
        "  list_eqb N.eqb (prmin e) txt && oexpr_eqb impl (Some (norm e)) && oexpr_eqb (parse_dim txt) (Some (norm e))\n"
        "  && match v, eval b e with Some w, Some q => oq_eqb w (Some q) | _, _ => true end.\n"
        "Eval vm_compute in (failing agree cases).\n")
    try:
        bad = ck.coq_failing(text_v, "prmin")
    except RuntimeError as e:
        ck.broken("correspondence:case-file", str(e))
        return
    ck.coverage["print_min_cases_in_coq"] = len(rows)
    for i in bad[:5]:
        m, text, r, b, o = rows[i]
        ck.broken("correspondence:print-min", json.dumps({"tree": m, "text": text, "implementation_parse": r,
                                                          "bindings": b, "implementation_value": o}, default=str))
        # concrete input for the property oracle: the text is a string of the documented grammar whose standard
        # meaning is the exact value of the tree
        try:
            want = qval(exact_m(m, b))
        except (Undefined, OverflowError):
            continue
        o2 = observe_string(text, b)
        got = o2.get("value") if o2.get("parse") == "ok" else ["raise", o2.get("exc")]
        if got != want and got != ["timeout"]:
            it = {"text": text, "bindings": b, "_stub": r}
            fail = {"text": text, "bindings": b, "expected": want, "observed": o2,
                    "what": "a minimally parenthesised string of the documented grammar does not get the standard meaning"}
            if not _string_known(ck, it, fail):
                report(it, fail)


INT_OPS = ("floordiv", "mod", "ceildiv", "truncdiv", "pow")


def int_semantics_rows(rng, n_random: int) -> list[dict]:
    """x op y for integer x, y of EVERY sign combination, where x = N - c1 and y = M - c2 are symbolic
    differences (so SymPy sees symbols, the binding decides the signs).  The implementation's value is compared
    INSIDE COQ with the right-hand sides of C16_eval_integer / C16_eval_integer_pow: Z.div, Z.modulo (sign of the
    divisor), -((-x)/y), Z.quot, Z.pow — i.e. with Python's integer semantics, not with the model's eval."""
    rows = []
    pairs = [(x, y) for x in (-7, -6, -1, 0, 1, 5, 7, 12) for y in (-4, -3, -1, 1, 2, 3, 7)]
    for _ in range(n_random):
        pairs.append((rng.randrange(-60, 61), rng.choice([v for v in range(-12, 13) if v])))
    for i, (x, y) in enumerate(pairs):
        for op in INT_OPS:
            if op == "pow":
                y_ = abs(y) % 4
                n, m = rng.choice([1, 3, 9]), rng.choice([1, 2, 6])
                t = ["pow", ["sub", ["sym", "N"], ["int", n - x]], ["int", y_]]
                rows.append({"op": op, "x": x, "y": y_, "tree": t, "bindings": {"N": n}})
                continue
            n, m = rng.choice([1, 2, 5, 8]), rng.choice([1, 3, 4, 9])
            X, Y = ["sub", ["sym", "N"], ["int", n - x]], ["sub", ["sym", "M"], ["int", m - y]]
            if i % 3 == 1:
                Y = ["int", y]                       # dim op int
            t = {"floordiv": ["floordiv", X, Y], "mod": ["mod", X, Y], "ceildiv": ["ceil", ["div", X, Y]],
                 "truncdiv": ["trunc", ["div", X, Y]]}[op]
            rows.append({"op": op, "x": x, "y": y, "tree": t,
                         "bindings": {k_: v for k_, v in (("N", n), ("M", m)) if k_ in syms_of(t)}})
    return rows


def check_int_semantics(ck, report) -> None:
    rng = ck.rng
    rows = int_semantics_rows(rng, 40 if not ck.thorough else 1500)
    items = []
    for r in rows:
        case = {"tree": r["tree"], "bindings": r["bindings"], "partial": {}}
        try:
            d = build(case["tree"])
            v1 = _try(lambda: val(d.evaluate(case["bindings"])))
            v2 = _try(lambda: val(__import__("onnx_ir").SymbolicDim(d.value).evaluate(case["bindings"])))
        except Exception as e:  # noqa: BLE001
            v1 = v2 = ["raise", type(e).__name__]
        r["observed"], r["observed_text"] = v1, v2
        ck.count()
        if v1[0] == "raise":
            obs_ = {"build": ["raise", v1[1]]}
            key = _known_key(ck, case, obs_, ["build: raised"])
            if key:
                ck.hist("known_finding_hits", key)
                r["skip"] = True
        ck.hist("int_semantics_ops", r["op"] + (":x<0" if r["x"] < 0 else ":x>=0") + (":y<0" if r["y"] < 0 else ":y>=0"))
        ck.nontriv(("intsem", r["op"], r["x"], r["y"]))

        def oz(o):
            return f"(Some {cZ(o[1])})" if o[0] == "int" else "None"
        if not r.get("skip"):
            items.append("(" + ", ".join([cN(INT_OPS.index(r["op"])), cZ(r["x"]), cZ(r["y"]), oz(v1), oz(v2)]) + ")")
    text = ("From Coq Require Import ZArith NArith List Bool.\nFrom IRV Require Import Base.Exn.\nImport ListNotations.\n"
            "Open Scope Z_scope.\n"
            "Definition cases : list (N * Z * Z * option Z * option Z) :=\n  " + clist(items).replace("; (", ";\n  (") + ".\n"
            "Definition python_int (op : N) (x y : Z) : Z :=\n"
            "  match op with 0%N => x / y | 1%N => x mod y | 2%N => - ((- x) / y) | 3%N => Z.quot x y | _ => x ^ y end.\n"
            "Definition agree (c : N * Z * Z * option Z * option Z) : bool :=\n"
            "  let '(op, x, y, o1, o2) := c in\n"
            "  option_eqb Z.eqb o1 (Some (python_int op x y)) && option_eqb Z.eqb o2 (Some (python_int op x y)).\n"
            "Eval vm_compute in (failing agree cases).\n")
    try:
        bad = ck.coq_failing(text, "intsem")
    except RuntimeError as e:
        ck.broken("correspondence:case-file", str(e))
        return
    rows = [r for r in rows if not r.get("skip")]
    ck.coverage["int_semantics_cases_in_coq"] = len(rows)
    for i in bad[:5]:
        r = rows[i]
        ck.broken("correspondence:python-int-semantics", json.dumps(r, default=str))
        case = {"tree": r["tree"], "bindings": r["bindings"], "partial": {}}
        obs = observe(case)
        b_ = oracle(case, obs)
        if b_:
            report(case, obs, b_)


def gen_string_items(rng, n: int) -> list[dict]:
    items = []
    for i in range(n):
        names = rng.sample(NAMES, rng.choice([1, 2, 3]))
        if rng.random() < 0.25:
            names[rng.randrange(len(names))] = rng.choice(COLLIDE)
        toks = gen_tokens(rng, rng.choice([1, 2, 2, 3]), names)
        if len(toks) > 60:
            continue
        text = render_ir(rng, toks)
        b = {s: rng.choice([1, 2, 3, 4, 5, 6, 7, 8, 9, 10, 12, 16, 31]) for s in names}
        items.append({"text": text, "bindings": b, "toks": toks, "names": names})
        if i % 2 == 0:
            items.append({"text": mutate(rng, text), "bindings": b})
    return items


def run(ck) -> None:
    import logging
    logging.disable(logging.WARNING)
    ck.trust("Coq 8.16.1 kernel (coqc; vm_compute in case files)",
             "SymPy (algebra, automatic evaluation, simplify, str printer) — oracle: the model checks ir-py's USE of it",
             "CPython str methods isdigit/isalpha/isalnum/isspace/isidentifier on ASCII; int() of a digit string",
             "harness/props/c16.py: ast walks that regenerate Gen/C16Gen.v, the SymPy stub, generators, Coq literal printers",
             "modelled not verified: non-ASCII characters in dimension strings; Max()/Min() without arguments "
             "(SymPy: -oo/oo; model and stub reject); values outside the evaluated fragment (division by zero, "
             "non-integer exponents, sqrt of non-squares: eval = None, not compared)")
    ck.assumptions += ["bindings are positive integers (ONNX dimensions); symbols are created integer=True, positive=True",
                       "sympy as installed in /venv"]
    ck.coverage["rule"] = ("non-trivial = a build tree of depth >= 2 containing a rounding/division/modulo/min/max "
                           "operator, evaluated completely, in two steps, after simplify and after print->parse; "
                           "or a grammar string of more than 8 characters accepted by the parser and evaluated")
    generate(ck)
    ck.prove()
    rng = ck.rng
    violations: list[dict] = []

    def report_string(it, fail):
        violations.append({"kind": "string", **fail, "toks": it.get("toks"), "names": it.get("names")})

    def report_tree(case, obs, bad):
        violations.append({"kind": "tree", "case": {k: case[k] for k in ("tree", "bindings", "partial")},
                           "failures": bad, "text": obs.get("text"), "simplify_text": obs.get("simplify_text")})

    # 1. corpus + hand-written strings
    corpus = _load_corpus()
    s_items = [{"text": c["text"], "bindings": c.get("bindings", {}), **({"expect": c["expect"]} if "expect" in c else {})}
               for c in corpus if c.get("kind") == "string"]
    s_items += [{"text": s, "bindings": {"N": 7, "M": 3, "K": 2, "a.b": 5, "decoder_input_ids.45_dim_1": 9}}
                for s in HAND_STRINGS]
    t_cases = [c for c in corpus if c.get("kind") == "tree"]
    # 2. generated
    n_str = 400 if not ck.thorough else 12000
    n_tree = 220 if not ck.thorough else 6000
    fl = flat_string_items(rng, ck.thorough)
    ck.coverage["large_flat_strings"] = len(fl)
    s_items += fl
    cs = collision_string_items(rng)
    ck.coverage["function_name_collision_strings"] = len(cs)
    s_items += cs
    s_items += gen_string_items(rng, n_str)
    grid = neutral_grid()
    ck.coverage["neutral_constant_grid_cases"] = len(grid)
    t_cases += grid
    cg, ug = chain_grid(), usym_grid()
    if not ck.thorough:
        cg = [c for i, c in enumerate(cg) if i % 2 == 0 or ops_of(c["tree"]) <= {"floordiv", "mul", "sub"}]
    ck.coverage["rounding_chain_grid_cases"] = len(cg)
    ck.coverage["caller_sympy_symbol_grid_cases"] = len(ug)
    zg, ct = zero_grid(), collision_tree_cases()
    ck.coverage["zero_at_construction_grid_cases"] = len(zg)
    ck.coverage["function_name_collision_cases"] = len(ct)
    t_cases += cg + ug + flat_tree_cases(rng) + zg + ct
    t_cases += [gen_case(rng, ck.thorough) for _ in range(n_tree)]
    check_strings(ck, s_items, report_string)
    check_trees(ck, t_cases, report_tree)
    check_int_semantics(ck, report_tree)
    check_print_min(ck, report_string)
    # 3. known findings, then violations found by the oracles
    replay_known(ck)
    seen = set()
    for v in violations:
        if v["kind"] == "tree":
            sig = ("tree",) + tuple(sorted({f.split(":")[0] for f in v["failures"]}))
            if sig in seen:
                continue
            seen.add(sig)

            def fails(c):
                o = observe(c)
                b = oracle(c, o)
                return bool(b) and not _known_key(ck, c, o, b)
            small = shrink_tree(ck, v["case"], fails)
            o = observe(small)
            ck.violation({"kind": "tree", "case": small, "failures": oracle(small, o), "text": o.get("text"),
                          "simplify_text": o.get("simplify_text"), "broken": sorted({b["name"] for b in ck.broken_items})})
        else:
            sig = ("string", v["what"])
            if sig in seen:
                continue
            seen.add(sig)
            if v.get("toks"):
                small = shrink_string(v["toks"], v["names"], v["bindings"])
                text = " ".join(t if isinstance(t, str) else str(t[1]) for t in small)
                f2 = string_failure(small, v["names"], v["bindings"], text=text) or v
                v = {"kind": "string", **{k: f2[k] for k in ("text", "bindings", "expected", "observed", "what")}}
            v.pop("toks", None)
            v.pop("names", None)
            ck.violation(dict(v, broken=sorted({b["name"] for b in ck.broken_items})))
    # 4. a broken obligation / correspondence and no failing input yet: search harder
    if ck.broken_items and not ck.violations:
        search(ck)


def search(ck) -> None:
    """Violation search after a broken obligation or correspondence: the inputs named by the broken
    correspondences first, then fresh grammar strings and trees under the property oracle."""
    rng = ck.rng
    found: list[dict] = []

    def report_string(it, fail):
        found.append({"kind": "string", **{k: fail[k] for k in ("text", "bindings", "expected", "observed", "what")}})

    def report_tree(case, obs, bad):
        found.append({"kind": "tree", "case": case, "failures": bad, "text": obs.get("text")})
    budget_s = 3000 if not ck.thorough else 30000
    budget_t = 600 if not ck.thorough else 6000
    for it in collision_string_items(rng) + flat_string_items(rng, True) + gen_string_items(rng, budget_s):
        if "toks" not in it:
            continue
        try:
            f = string_failure(it["toks"], it["names"], it["bindings"], text=it["text"])
        except (OverflowError, MemoryError, RecursionError):
            continue
        ck.count()
        if f:
            it["_stub"] = stub_parse(it["text"])[0]
            if _string_known(ck, it, f):
                continue
            small = shrink_string(it["toks"], it["names"], it["bindings"])
            text = " ".join(t if isinstance(t, str) else str(t[1]) for t in small)
            f2 = string_failure(small, it["names"], it["bindings"], text=text) or f
            ck.violation({"kind": "string", **{k: f2[k] for k in ("text", "bindings", "expected", "observed", "what")},
                          "broken": sorted({b["name"] for b in ck.broken_items})})
            return
    targeted = zero_grid() + collision_tree_cases() + neutral_grid() + usym_grid() + chain_grid()
    for i_ in range(budget_t + len(targeted)):
        case = targeted[i_] if i_ < len(targeted) else gen_case(rng, True)
        obs = observe(case)
        ck.count()
        bad = oracle(case, obs)
        if bad and not _known_key(ck, case, obs, bad):
            def fails(c):
                o = observe(c)
                b = oracle(c, o)
                return bool(b) and not _known_key(ck, c, o, b)
            small = shrink_tree(ck, case, fails)
            o = observe(small)
            ck.violation({"kind": "tree", "case": small, "failures": oracle(small, o), "text": o.get("text"),
                          "broken": sorted({b["name"] for b in ck.broken_items})})
            return


def replay(rp: dict) -> int:
    kind = rp.get("kind")
    if kind == "tree":
        case = rp["case"]
        obs = observe(case)
        bad = oracle(case, obs)
        print(json.dumps({"case": case, "text": obs.get("text"), "simplify_text": obs.get("simplify_text"),
                          "failures": bad}, indent=1))
        return 1 if bad else 0
    if kind == "string":
        o = observe_string(rp["text"], rp["bindings"])
        want = rp["expected"]
        got = o.get("value") if o["parse"] == "ok" else ["raise", o.get("exc")]
        bad = (o["parse"] == "ok") if want in ("rejected", "reject") else (got != want)
        print(json.dumps({"text": rp["text"], "bindings": rp["bindings"], "expected": want, "observed": o,
                          "fails": bad}, indent=1))
        return 1 if bad else 0
    print("replay names a broken obligation/correspondence, no concrete input:",
          json.dumps(rp.get("broken"), indent=1)[:3000])
    return 1


# --------------------------------------------------------------------------- attribution of failures to SymPy itself

def sympy_build(m):
    """Apply REAL SymPy constructors to a model tree, without any ir-py code (what ir-py asks SymPy to build)."""
    import sympy
    k = m[0]
    if k == "ESym":
        return sympy.Symbol(m[1], integer=True, positive=True)
    if k == "EInt":
        return sympy.Integer(m[1])
    if k == "ENeg":
        return -sympy_build(m[1])
    if k == "EUn":
        return {"FFloor": sympy.floor, "FCeil": sympy.ceiling, "FAbs": sympy.Abs, "FSign": sympy.sign,
                "FSqrt": sympy.sqrt}[m[1]](sympy_build(m[2]))
    a, b = sympy_build(m[2]), sympy_build(m[3])
    return {"BAdd": lambda: a + b, "BSub": lambda: a - b, "BMul": lambda: a * b, "BDiv": lambda: a / b,
            "BMod": lambda: sympy.Mod(a, b), "BPow": lambda: a ** b, "BMax": lambda: sympy.Max(a, b),
            "BMin": lambda: sympy.Min(a, b)}[m[1]]()


def sympy_alone(t, b: dict):
    """Value SymPy alone gives to the constructor tree of `t` (symbolic construction, then substitution)."""
    import sympy

    def f():
        e = sympy_build(to_model(t))
        r = e.subs({s: b[str(s)] for s in e.free_symbols if str(s) in b})
        if r.is_number and r.is_integer:
            return ["int", int(r)]
        if r.is_Rational:
            return ["frac", int(r.p), int(r.q)]
        return ["other", str(r)]
    return _try(lambda: _with_alarm(10, f))


def minimal_failing(case: dict, with_simplify: bool) -> list[tuple[list, dict, list[str]]]:
    """Minimal subtrees of the case's tree that fail the oracle on their own (all their subtrees pass)."""
    out = []

    def rec(t) -> bool:
        if t[0] in LEAVES:
            return False
        sub = [rec(s) for s in t[1:]]
        if any(sub):
            return True
        if not has_sym(t):
            return False
        c = {"tree": t, "bindings": {k: case["bindings"][k] for k in syms_of(t)}, "partial": {}}
        o = observe(c, with_simplify)
        bad = oracle(c, o)
        if bad:
            out.append((c, o, bad))
            return True
        return False
    rec(case["tree"])
    return out


def sympy_attribution(case: dict, obs: dict, bad: list[str]) -> str | None:
    """'sympy-autoeval-<op>' when every minimal failing subtree is reproduced by SymPy alone: the same
    constructor calls on the same symbols, substituted the same way, give the same wrong value with no ir-py
    code involved.  Anything else is not attributed (and is reported)."""
    if all(x.split(":")[0] in ("simplify", "simplify_reparse", "shape_simplify") for x in bad):
        return None         # only simplify() fails: not an automatic-evaluation problem
    mins = minimal_failing(case, with_simplify=False)
    if not mins:
        return None
    ops = set()
    for c, o, bd in mins:
        alone = sympy_alone(c["tree"], c["bindings"])
        if o.get("full") != alone:
            return None
        try:
            if alone == qval(exact(c["tree"], c["bindings"])):
                return None
        except Undefined:
            return None
        ops.add(c["tree"][0])
    return "sympy-autoeval-" + "+".join(sorted(ops))

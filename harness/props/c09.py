"""C09 — concurrent external-data writing is schedule-independent, bounded and live.

Decided by: Coq theorems (coq/theories/C09/Property.v, proofs in C09/Proofs1-5.v) about an executable
labelled transition system (C09/Model.v) of _ExternalDataWriter._write_parallel/_write_serial,
_write_tensor_with_budget_at, _ByteBudget and the sharded two-level driver of _write_external_tensors,
whose budget arithmetic (Gen/C09Gen.v) is re-extracted from external_data.py on every run; the LTS is tied
to the code by driving the REAL unload_from_model through chosen schedules under a cooperative
threading/concurrent.futures runtime and checking inside Coq that every recorded event trace is a path of
the LTS with the same observations.  On every schedule the property oracle (below) is evaluated; it is what
produces concrete failing schedules.

THE MODEL (C09/Model.v).  State: per task Unsub|Queued|Taken|Done(raised?); per worker Idle | Run task pc with
pc in {CbIn, CbOut, Cb, CbUnOut e, CbUnIn e, TLock, Acq, Sleep, Write r, Rel r e, TUn e, Fin e} (exactly the
synchronisation points of _write_one/_write_tensor/_write_tensor_with_budget_at, in the code's order: callback
lock(s) -> callback -> unlock -> tensor-object lock -> budget.acquire -> materialise+write -> release (finally)
-> unlock -> future completes); per pool (= one _ExternalDataWriter = one data file) a driver
Not|Sub|Wait|Join e|Done e (ThreadPoolExecutor(), submit x n, as_completed, shutdown(cancel_futures=e), join)
and a cancel flag; the caller (Wait | Deliv e); the budget (in_flight, oversized_active); explicit owners of the
inner callback locks, the outer callback lock and the per-tensor-object locks; the file images; callback and
write logs.  The condition variable has an explicit wait set: a thread whose guard is false goes to Sleep and
is made runnable again only by the notify_all of a release (so a lost wake-up is a deadlock of the LTS).
FIFO queue = lowest-index Queued task of the pool.  Serial inner writers (workers_per_shard = 1 or one tensor
in the shard) are pools with one worker that stops dequeuing at the first failure.  Shard drivers start in
shard order, at most `shard_workers` at a time.  `step : cfg -> state -> thread -> option state`; a schedule is a
list of threads; `reachable` = closure of step from init.

THEOREMS (all proved for ALL configurations and ALL schedules; Print Assumptions: closed under the global context)
  C09_budget_inv        0 <= in_flight <= capacity; in_flight = sum of regular reservations held; oversized flag =
                        number (0/1) of oversized holders; materialised bytes <= capacity + largest tensor
  C09_cb_mutex          never two threads inside the callback (outer lock when sharded, else the single inner lock)
  C09_cb_once           callback log has no duplicates; it is a permutation of all tensors when the save succeeds
  C09_tensor_mutex      a tensor OBJECT is used by one thread at a time (lock .. acquire .. write .. release .. unlock)
  C09_no_lost_wakeup    every thread sitting in condition.wait() has a false guard in the current state
  C09_error_path        the caller gets the result only when all drivers joined and all workers are idle, with
                        in_flight = 0 and not oversized; it is an exception iff some task raised
  C09_terminates        a measure (lexicographic level/awake, packed) strictly decreases on every step; explicit
                        bound (nw+1)(15 nt + 4 np + 1) on the length of any schedule
  C09_deadlock_free     every reachable state where the caller has not got control back has an enabled thread
                        (hypotheses: every pool has a worker, limit >= 1, indices in range)
  C09_file_deterministic  on success every pool's file = the serial writer's file (C07 file model: write_all []
                        jobs in declaration order), given pairwise disjoint ranges within a file (what C07_offsets
                        proves for the layout)
  C09_evaluated_at_most_once   per task, the tensor is evaluated (tofile entered) at most once on every path
  C09_handle_valid      a parallel writer's worker holds an open descriptor from taking the tensor lock to giving
                        it back (every write goes through a descriptor that worker opened)
  C09_handles_closed    when the caller gets control back (return or exception, OSError from open included) every
                        worker descriptor is closed
  C09_waits_untimed     acquire's two wait_for calls carry no timeout (Gen: acquire_wait_timeouts = [None; None],
                        re-extracted on every run) and a thread in condition.wait() has no step of its own in the LTS
  C09_program_order_matches_source   the event codes of the steps a worker takes for one task, computed from `step`,
                        equal the operation list extracted on this run from _write_one (parallel writer) and from
                        the loop body of _write_serial (serial writer), callback expanded by _locked_callback's
                        outer lock when sharded (Gen: parallel_task_ops / serial_task_ops / outer_callback_ops)
  C09_lock_order        one acquisition order for all writers: inner cb lock < outer cb lock < tensor lock < budget;
                        a thread waiting for a resource owns only lower-ranked ones and no reservation
  C09_write_under_budget  every evaluation happens under the oversized slot or need(t) bytes counted in in_flight
  Nothing is partial.  Examples in Property.v replay schedules recorded from the implementation (a sleeping
  thread, an oversized grant, a shared tensor object, an error run, a failed open of a worker descriptor).

ROUND-5: r5m3 (_write_parallel submits only tensors with length > 0 -> no callback for zero-byte tensors) was missed
because unload_from_model never externalises zero-byte initializers.  hc["entry"] now selects the entry point:
"unload" (default), "convert" (public convert_tensors_to_external on the tensor list) or "write"
(_write_external_tensors, sharded); generator mode "zerolen" puts zero-element tensors (also a shared empty object)
in the list; reference, cooperative runs, soak, shrinker and replay all go through invoke_save().  Caught by the
oracle (callback exactly once per tensor) with a 2-tensor replay; the LTS has one task per tensor, so the trace
check rejects the run as well.

ROUND-6.  r6m1 (shard results collected with as_completed: tensors bound by position to another shard's file /
offset while the data files stay identical): the oracle now compares, after a successful save, every tensor's
(location, offset, length) and the bytes read back through the ExternalTensor the caller ends up with
(initializers of the model for unload_from_model, the returned list for convert / write) with the serial save's
(bindings_of).  r6m3 (one module-level non-reentrant callback lock -> self-deadlock; it used to HANG the check
because the lock was created at import time with the real threading): run_coop now replaces every real
Lock/RLock/Condition found in the module namespace by the cooperative one for the run, so the scheduler sees the
deadlock; every call into the real implementation has a watchdog (cooperative run 20 s, soak 30 s, serial
reference save 30 s -> VIOLATION kind serial-save-hangs); after a real hang the exploration stops (Collector.poisoned)
and the soak does not start another save.

SECOND DEEPENING ROUND.  (1) generate() linearises the synchronisation operations of one task from the source
(_write_one, _write_serial's loop body, _write_tensor, _write_tensor_with_budget_at, _locked_callback._wrapped; fails
closed on any other statement that may synchronise) and also pins: the parallel writer's budget is never None, one
job per tensor (range(len(self._tensors)) / every tensor in the serial loop), _write_serial passes self._budget, the
shard drivers pass the ONE shared budget and lock table and wrap the callback, convert_tensors_to_external and
_write_external_data forward the budget.  C09_program_order_matches_source then ties the hand-written pc order of
the LTS to that list by vm_compute; r5m1 (budget before tensor lock in _write_one) and r5m2 (serial writer drops
the budget for single-tensor files) break this obligation in addition to their replays.  (2) zero-length tensors
and the convert / write entry points need no hypothesis in any theorem (tasks = all tensors); Example
C09_example_zero_length replays an implementation run.  (3) aligned offsets: hc["align"], generator mode "aligned"
(files of several KiB with gaps, single file and sharded, all three entry points); for these runs Coq compares the
model's file LENGTHS with the implementation's and checks every tensor's range of the model file (the oracle still
compares the bytes with the serial save).  (4) generator mode "mixed": serial and parallel inner writers sharing a
tensor object under a one-tensor budget (the configuration r5m1 needs).  Still oracle-only: callback=None.

DEEPENING ROUND (moved from oracle-only into model + theorem + trace check): _thread_file() is now a step of the LTS
(POpen: the first time a worker gets past the callback it opens its r+b descriptor; attempt k fails with OSError
iff k is in cfg.c_openfail -> the task raises), the `finally` of _write_parallel closes all descriptors of the pool
at the join step, per-task evaluation counters (s_evals) are incremented at the write step.  The runtime makes
open(path, "r+b") a scheduling point, numbers attempts in the order they happen, hands out tracked descriptors;
traces of open-fault runs are checked in Coq like all others (events 18/19), together with the number of open
attempts, the total number of evaluations and "no descriptor left open" (run_agrees).  Still oracle-only:
callback=None paths (no callback step in the model); that an open fault makes the save raise follows from
C09_error_path (raise iff some task raised) + the definition of the POpen failure step, it has no theorem of its own.

THE TIE.  (1) generate(): guards/updates of _ByteBudget.__init__/acquire/release and _reservation_bytes are
taken expression by expression with tools/translate.py's expression translator; the control skeleton around
them (which guard on which branch, `with self._condition`, the update after the wait, release's if/else followed
by notify_all, acquire/try/finally release in _write_tensor_with_budget_at) is matched structurally and FAILS
CLOSED (ck.gen_failed).  The generated functions are also run against the real _ByteBudget on a grid inside Coq.
(2) onnx_ir.external_data.{threading, concurrent, _ByteBudget} are rebound to a cooperative runtime: real OS
threads but exactly one holds the baton; every Lock acquire/release, Condition enter/wait, submit, result,
as_completed, shutdown/join, every callback and every tensor tofile() is a scheduling point.  The chooser picks
the next thread: exhaustive DFS with (abstract state, choice) pruning for tiny configurations, random and
PCT-style priority schedules beyond; all from ck.rng; a run is a deterministic function of (config, choices,
picks) and that is what replay files contain.  Each run records (thread, event, task, in_flight, oversized) per
step, the callback order and the written files; case files make Coq check `run_agrees` (the trace is a path of
the LTS, observations equal, final outcome/callback log/files equal).  (3) a soak with real preemptive threads
(real threading / ThreadPoolExecutor, random sub-millisecond sleeps) checked by the oracle only.

ORACLE (public behaviour of unload_from_model + the observable budget counter): the save terminates under the
schedule (no deadlock, step bound), files byte-identical to the serial save (max_workers=None), no directories
left, callback exactly once per tensor on success / at most once on failure and never entered by two threads,
a tensor object never inside tofile() in two threads, in_flight <= max(cap,1), bytes inside tofile() at once
<= cap + largest tensor, an exception is delivered iff something failed and only when no worker is running, with
in_flight = 0 and not oversized.

READINGS.  "materialised bytes" = bytes of tensors between acquire's return and release (model) / oracle: whole
tensor while inside tofile() for in-memory tensors, the live buffer handed to file.write for ExternalTensor
sources (userspace copy path forced).  "exactly once per tensor" is required of successful saves; failing
saves must not repeat a callback.  Files are compared for successful saves only (a failing sharded save leaves
the completed shards behind in both the serial and the concurrent writer; C08's subject).  Zero-length tensors
never reach the writer through the public API (nbytes > threshold), the model allows them anyway.

MODELLED, NOT VERIFIED: the GIL; the contracts of threading.Lock/Condition, ThreadPoolExecutor (FIFO queue,
shutdown(cancel_futures) drains the queue, join), as_completed; several r+b descriptors writing disjoint ranges
of a preallocated file; tofile()/tobytes() (C04); the files_lock critical section (no blocking call inside) is
treated as atomic inside the open step (it IS a scheduling point of the runtime, its events are dropped from the
trace); the serial writer's single `with open(..., "wb")` descriptor and the truncate() descriptor; synthetic
driver/dequeue events are inserted for serial inner writers (the for-loop has no executor); callback=None.
The worker count per shard (workers_per_shard arithmetic) is predicted by the harness and cross-checked by the
trace (a wrong count makes the model reject the trace), it is not part of the property.

MUTANTS TRIED (scratch worktree /tmp/wt-C09, `VERIF_REPO=...`; all reported VIOLATION, unchanged tree quiet):
  m1  release: notify_all() -> notify()                    structural fail-closed check; no failing input found
      (with FIFO notify(1) every wasted wake-up still leaves a holder whose release wakes the next waiter, so the
      property is not actually violated; reported as broken obligation, as the contract requires)
  m2  acquire: drop `_oversized_active = True`             oracle: bytes materialised > cap + max (replay, 2 tensors)
  m3  release not in finally                               oracle: deadlock M@join / W@cond:wait after a failing tensor
  m4  shutdown(wait=False, cancel_futures=True)            oracle: exception delivered while a worker is running
  m5  regular guard ignores `amount`                       translator rejects + oracle: budget counter 6 > capacity 4
  m6  inner callback lock dropped                          oracle: two threads in the callback (+ trace rejected)
  m7  tensor lock looked up by another key (no lock)       oracle: shared tensor object used by two threads
  m8  shard writers get separate budgets                   oracle: 14 bytes materialised > 3 + 7 (two-level, serial inner)
  m9  regular release does not notify                      translator rejects + oracle: deadlock W@cond:wait (lost wake-up)
  m10 outer callback lock dropped (sharded)                oracle: two threads in the callback across shards

ROUND-3 SEEDED CHANGES (tools/seed_eval.py), first missed, now caught with a replay:
  r3m1 `finally: release` -> `except Exception: release; raise` (+ release on success)   generator now injects
       BaseException kinds (SaveCancelled) from failing tensors / callbacks ("exc": "base"): deadlock / budget held
  r3m2 sequential shard loop drops max_in_flight_bytes (one shard, max_workers > 1)      generator mode "oneshard"
       (max_shard_size_bytes set, everything in ONE shard, small budget): budget counter > capacity, trace rejected
  r3m3 ExternalTensor userspace copy reads the whole tensor at once                      the runtime hands
       ExternalTensor.tofile a destination without fileno() (userspace copy loop, as on a file system without
       copy_file_range), every buffer passed to write() is a scheduling point and is what "materialised" counts
       for ExternalTensor sources (generator mode "extchunk": len > budget, chunk <= budget / 2); same in the soak

ROUND-4: r4m3 (serial retry after an OSError of the parallel path) was missed, r4m2 (wait_for with a timeout whose
result is ignored) had no replay.  Now: the fault stream injects OSError kinds as well ("exc": "oserror" persistent
ENOSPC, "oserror-once" transient EIO on the first evaluation only, "short" = ExternalTensor source file one byte
short so the REAL copy loop raises, hc["open_fail"] = EMFILE on the first worker descriptor; the latter is
oracle-only, the model has no open step); the oracle counts evaluations (tofile calls) per tensor object
(<= number of initializers using it) besides callbacks at most once, and a failing save must raise.  The
cooperative Condition honours timeouts in an untimed way: a wait with a timeout may time out at any scheduling
decision (some other thread is slow), so code that relies on elapsed time for safety is exercised; the clean
tree uses no timeouts, so nothing changes there.
"""

from __future__ import annotations

import ast
import os

import translate as T
from harness import common
from harness.common import REPO

SRC = os.path.join(REPO, "src", "onnx_ir", "external_data.py")
CORE = os.path.join(REPO, "src", "onnx_ir", "_core.py")


# --------------------------------------------------------------------------- translation (fail closed)

class _Subst(ast.NodeTransformer):
    """Replace `self._x` by the plain name `x` and caller-given sub-expressions by names."""

    def __init__(self, extra=None):
        self.extra = extra or (lambda n: None)

    def visit(self, node):
        r = self.extra(node)
        if r is not None:
            return ast.Name(id=r, ctx=ast.Load())
        return super().visit(node)

    def visit_Attribute(self, node):
        if isinstance(node.value, ast.Name) and node.value.id == "self" and node.attr.startswith("_"):
            return ast.Name(id=node.attr[1:], ctx=ast.Load())
        return self.generic_visit(node)


def _expr(e: ast.expr, params: list[tuple[str, str]], name: str, rettype: str, consts=None, extra=None) -> str:
    """One Gallina definition from one Python expression over the given (name, type) parameters."""
    e = _Subst(extra).visit(e)
    tr = T._Fn(ast.FunctionDef(name=name, args=None, body=[], decorator_list=[]), consts or {})
    env = {}
    for n, ty in params:
        tr.types[n] = ty
        env[n] = n
    text, ty = tr.expr(e, env)
    if ty != rettype:
        raise T.Unsupported(f"{name}: expression has type {ty}, expected {rettype}")
    used = {n.id for n in ast.walk(e) if isinstance(n, ast.Name)}
    for n, _ in params:
        if n not in used:
            raise T.Unsupported(f"{name}: parameter {n} does not occur in the source expression {ast.unparse(e)}")
    ps = " ".join(f"({n} : {ty})" for n, ty in params)
    return f"(* from `{ast.unparse(e)}` *)\nDefinition {name} {ps} : {rettype} := {text}.\n"


def _need(cond: bool, what: str):
    if not cond:
        raise T.Unsupported("source shape changed: " + what)


def _is_self_attr(n, attr) -> bool:
    return isinstance(n, ast.Attribute) and isinstance(n.value, ast.Name) and n.value.id == "self" and n.attr == attr


def _strip_doc(body):
    if body and isinstance(body[0], ast.Expr) and isinstance(body[0].value, ast.Constant) \
            and isinstance(body[0].value.value, str):
        return body[1:]
    return body


def _wait_for_guard(stmt, what) -> ast.expr:
    """`self._condition.wait_for(lambda: <guard>)` -> <guard>"""
    _need(isinstance(stmt, ast.Expr) and isinstance(stmt.value, ast.Call), what + ": wait_for call")
    c = stmt.value
    _need(isinstance(c.func, ast.Attribute) and c.func.attr == "wait_for" and _is_self_attr(c.func.value, "_condition")
          and len(c.args) in (1, 2) and all(k.arg == "timeout" for k in c.keywords) and len(c.keywords) <= 1
          and isinstance(c.args[0], ast.Lambda) and not c.args[0].args.args,
          what + ": self._condition.wait_for(lambda: ...[, timeout])")
    # the timeout argument, if any, is recorded (Gen: acquire_wait_timeouts) — the LTS has untimed waits only
    tmo = c.args[1] if len(c.args) == 2 else (c.keywords[0].value if c.keywords else None)
    if tmo is None or (isinstance(tmo, ast.Constant) and tmo.value is None):
        _WAIT_TIMEOUTS.append("None")
    else:
        try:
            _WAIT_TIMEOUTS.append(f"(Some {T.coq_Z(T.const_int(tmo))})")
        except T.Unsupported:
            _WAIT_TIMEOUTS.append("(Some (-1)%Z)")        # a timeout that is not an integer literal
    return c.args[0].body


_WAIT_TIMEOUTS: list[str] = []


def _with_condition(stmt, what) -> list:
    _need(isinstance(stmt, ast.With) and len(stmt.items) == 1 and stmt.items[0].optional_vars is None
          and _is_self_attr(stmt.items[0].context_expr, "_condition"), what + ": `with self._condition:`")
    return stmt.body


# ---- per-run linearisation of the synchronisation operations of one task (statement order of the source)

_SOP_HEADER = """
(* Synchronisation operations of one task, in the statement order of the source (extracted on every run by
   harness/props/c09.py::_linearise from _write_one / _write_serial / _write_tensor / _write_tensor_with_budget_at /
   _locked_callback; fails closed on any other shape). *)
Inductive lockname : Type := CbInner | CbOuter | TensorLock.
Inductive sop : Type :=
| OLock (l : lockname) | OUnlock (l : lockname) | OCallback | OOpenHandle | OAcquire | OWrite | ORelease.
"""

_LOCKS = {"callback_lock": "CbInner", "self._tensor_write_locks[id(tensor)]": "TensorLock"}


def _call_name(e):
    return ast.unparse(e.func) if isinstance(e, ast.Call) else None


def _linearise(mod, stmts, where, locks=_LOCKS):
    """list of sop constructor texts for a statement list; Unsupported on anything that may synchronise
    and is not one of the known shapes"""
    out = []
    for st in _strip_doc(list(stmts)):
        if isinstance(st, ast.With):
            _need(len(st.items) == 1 and st.items[0].optional_vars is None, f"{where}: single `with` item")
            key = ast.unparse(st.items[0].context_expr)
            _need(key in locks, f"{where}: `with {key}` is not a known lock")
            out.append(f"OLock {locks[key]}")
            out += _linearise(mod, st.body, where, locks)
            out.append(f"OUnlock {locks[key]}")
            continue
        if isinstance(st, ast.Expr) and isinstance(st.value, ast.Call):
            name = _call_name(st.value)
            call = st.value
            if name in ("self._invoke_callback", "inner"):
                out.append("OCallback")
                continue
            if name == "self._write_tensor":
                _need(len(call.args) == 4 and not call.keywords, f"{where}: self._write_tensor(tensor, file, info, budget)")
                fa = ast.unparse(call.args[1])
                if fa == "_thread_file()":
                    out.append("OOpenHandle")
                else:
                    _need(fa == "data_file", f"{where}: file argument of _write_tensor is {fa}")
                out.append("BUDGETARG:" + ast.unparse(call.args[3]))
                wt = T.find_function(mod, "_ExternalDataWriter._write_tensor")
                out += _linearise(mod, wt.body, "_write_tensor", locks)
                continue
            if name == "_write_tensor_with_budget_at":
                _need(ast.unparse(call) == "_write_tensor_with_budget_at(tensor, file, info.offset, info.length, budget)",
                      "_write_tensor calls _write_tensor_with_budget_at(tensor, file, info.offset, info.length, budget)")
                wb = _strip_doc(T.find_function(mod, "_write_tensor_with_budget_at").body)
                _need(len(wb) == 3 and ast.unparse(wb[0]).replace("\n", " ").split() ==
                      "if budget is None: _write_tensor_at(tensor, file, offset) return".split(),
                      "_write_tensor_with_budget_at starts with the budget-is-None shortcut")
                _need(ast.unparse(wb[1]) == "reservation = budget.acquire(_reservation_bytes(tensor, length))", "acquire")
                _need(isinstance(wb[2], ast.Try) and not wb[2].handlers and not wb[2].orelse
                      and [ast.unparse(x) for x in wb[2].body] == ["_write_tensor_at(tensor, file, offset)"]
                      and [ast.unparse(x) for x in wb[2].finalbody] == ["budget.release(reservation)"],
                      "try: _write_tensor_at(...) finally: budget.release(reservation)")
                out += ["OAcquire", "OWrite", "ORelease"]
                continue
        # anything else must not synchronise
        txt = ast.unparse(st)
        for word in (".acquire(", ".release(", "with ", "_write_tensor", "_invoke_callback", "wait", "notify",
                     "threading.", "submit(", "shutdown("):
            _need(word not in txt, f"{where}: unexpected synchronising statement `{txt[:80]}`")
    return out


def _program_order(mod) -> str:
    wp = T.find_function(mod, "_ExternalDataWriter._write_parallel")
    one = [n for n in wp.body if isinstance(n, ast.FunctionDef) and n.name == "_write_one"]
    _need(len(one) == 1, "_write_parallel defines _write_one")
    par = _linearise(mod, one[0].body, "_write_one")
    # the budget handed to the workers is never None
    basg = [ast.unparse(n) for n in wp.body if isinstance(n, ast.Assign) and ast.unparse(n.targets[0]) == "budget"]
    _need(len(basg) == 1 and "".join(basg[0].split()) ==
          "budget=self._budgetifself._budgetisnotNoneelse_ByteBudget(self._max_in_flight_bytes)",
          "_write_parallel: budget = self._budget if self._budget is not None else _ByteBudget(self._max_in_flight_bytes)")
    sub = [n for n in ast.walk(wp) if isinstance(n, ast.Call) and _call_name(n) == "executor.submit"]
    _need(len(sub) == 1 and ast.unparse(sub[0]) == "executor.submit(_write_one, i)", "executor.submit(_write_one, i)")
    _need("for i in range(len(self._tensors))" in ast.unparse(wp), "one job per tensor: range(len(self._tensors))")
    ws = _strip_doc(T.find_function(mod, "_ExternalDataWriter._write_serial").body)
    _need(len(ws) == 1 and isinstance(ws[0], ast.With) and len(ws[0].body) == 1 and isinstance(ws[0].body[0], ast.For),
          "_write_serial: with open(...) as data_file: for ...")
    loop = ws[0].body[0]
    _need("enumerate(zip(self._tensors, self._external_data_infos, strict=True))" in ast.unparse(loop.iter)
          and not loop.orelse, "_write_serial iterates over every tensor")
    ser = _linearise(mod, [x for x in loop.body if not isinstance(x, ast.Assert)], "_write_serial")
    _need(par.count("BUDGETARG:budget") == 1 and ser.count("BUDGETARG:self._budget") == 1,
          "the writers pass `budget` / `self._budget` to _write_tensor")
    par = [x for x in par if not x.startswith("BUDGETARG")]
    ser = [x for x in ser if not x.startswith("BUDGETARG")]
    wet = T.find_function(mod, "_write_external_tensors")
    lc = [n for n in ast.walk(wet) if isinstance(n, ast.FunctionDef) and n.name == "_wrapped"]
    _need(len(lc) == 1, "_locked_callback._wrapped")
    outer = _linearise(mod, lc[0].body, "_wrapped", {"callback_lock": "CbOuter"})
    # the shard drivers hand every writer the ONE shared budget and lock table, and wrap the callback
    subm = [n for n in ast.walk(wet) if isinstance(n, ast.Call) and _call_name(n) == "executor.submit"]
    _need(len(subm) == 1, "one executor.submit in _write_external_tensors")
    kws = {k.arg: ast.unparse(k.value) for k in subm[0].keywords}
    _need(kws.get("_budget") == "shared_budget" and kws.get("_tensor_write_locks") == "tensor_write_locks"
          and "_locked_callback(job_callback)" in kws.get("callback", ""),
          "shard jobs get _budget=shared_budget, _tensor_write_locks=tensor_write_locks, callback=_locked_callback(...)")
    _need("shared_budget = _ByteBudget(max_in_flight_bytes)" in ast.unparse(wet), "shared_budget = _ByteBudget(max_in_flight_bytes)")
    for fn, needle in (("convert_tensors_to_external", "budget=_budget"), ("_write_external_data", "budget=budget")):
        _need(needle in ast.unparse(T.find_function(mod, fn)), f"{fn} forwards the budget ({needle})")
    lst = lambda xs: "[" + "; ".join(xs) + "]"  # noqa: E731
    return (_SOP_HEADER +
            f"Definition parallel_task_ops : list sop := {lst(par)}.\n"
            f"Definition serial_task_ops : list sop := {lst(ser)}.\n"
            f"Definition outer_callback_ops : list sop := {lst(outer)}.\n")


def generate(ck) -> bool:
    """Gen/C09Gen.v: the guards and updates of _ByteBudget.{__init__,acquire,release} and _reservation_bytes,
    taken expression by expression from the source.  The control skeleton around them (which guard is
    waited for on which branch, what is updated after it, what release does, that release notifies) is
    checked structurally here and fails closed; the hand model C09/Model.v assumes exactly this skeleton."""
    try:
        mod = T._src(SRC)
        del _WAIT_TIMEOUTS[:]
        Z, B = "Z", "bool"
        out = [T.HEADER if hasattr(T, "HEADER") else ""]
        # ---- __init__
        init = _strip_doc(T.find_function(mod, "_ByteBudget.__init__").body)
        _need(len(init) == 4, "_ByteBudget.__init__ has 4 assignments")
        tgt = [s.targets[0] for s in init if isinstance(s, ast.Assign) and len(s.targets) == 1]
        _need(len(tgt) == 4 and [t.attr for t in tgt if isinstance(t, ast.Attribute)] ==
              ["_capacity", "_in_flight", "_oversized_active", "_condition"], "__init__ fields")
        out.append(_expr(init[0].value, [("capacity", Z)], "budget_capacity", Z))
        _need(isinstance(init[1].value, ast.Constant) and init[1].value.value == 0, "_in_flight starts at 0")
        _need(isinstance(init[2].value, ast.Constant) and init[2].value.value is False, "_oversized_active starts False")
        _need(ast.unparse(init[3].value) == "threading.Condition()", "_condition = threading.Condition()")
        # ---- acquire
        acq = _strip_doc(T.find_function(mod, "_ByteBudget.acquire").body)
        _need(len(acq) == 3, "acquire: amount=..., with ..., return amount")
        a0 = acq[0]
        _need(isinstance(a0, ast.Assign) and isinstance(a0.targets[0], ast.Name) and a0.targets[0].id == "amount",
              "acquire: amount = ...")
        out.append(_expr(a0.value, [("nbytes", Z)], "acquire_amount", Z))
        body = _with_condition(acq[1], "acquire")
        _need(len(body) == 3 and isinstance(body[0], ast.If) and not body[0].orelse, "acquire: if oversized: ...")
        out.append(_expr(body[0].test, [("amount", Z), ("capacity", Z)], "acquire_is_oversized", B))
        ob = body[0].body
        _need(len(ob) == 3, "acquire oversized branch: wait_for, set flag, return -1")
        out.append(_expr(_wait_for_guard(ob[0], "acquire oversized"), [("oversized_active", B)],
                         "acquire_oversized_guard", B))
        _need(isinstance(ob[1], ast.Assign) and _is_self_attr(ob[1].targets[0], "_oversized_active")
              and isinstance(ob[1].value, ast.Constant) and ob[1].value.value is True,
              "acquire oversized: self._oversized_active = True")
        _need(isinstance(ob[2], ast.Return), "acquire oversized: return token")
        tok = T.const_int(ob[2].value)
        out.append(f"Definition oversized_token : Z := {T.coq_Z(tok)}.\n")
        out.append(_expr(_wait_for_guard(body[1], "acquire regular"),
                         [("in_flight", Z), ("amount", Z), ("capacity", Z)], "acquire_regular_guard", B))
        u = body[2]
        _need(isinstance(u, ast.AugAssign) and _is_self_attr(u.target, "_in_flight"), "acquire: self._in_flight += ...")
        upd = ast.BinOp(left=ast.Attribute(value=ast.Name(id="self", ctx=ast.Load()), attr="_in_flight", ctx=ast.Load()),
                        op=u.op, right=u.value)
        out.append(_expr(upd, [("in_flight", Z), ("amount", Z)], "acquire_regular_update", Z))
        _need(isinstance(acq[2], ast.Return) and isinstance(acq[2].value, ast.Name) and acq[2].value.id == "amount",
              "acquire: return amount")
        _need(len(_WAIT_TIMEOUTS) == 2, "acquire has exactly two wait_for calls")
        out.append("(* timeout argument of the oversized / regular wait_for in acquire (None = waits until notified) *)\n"
                   f"Definition acquire_wait_timeouts : list (option Z) := [{'; '.join(_WAIT_TIMEOUTS)}].\n")
        # ---- release
        rel = _strip_doc(T.find_function(mod, "_ByteBudget.release").body)
        _need(len(rel) == 1, "release: one with block")
        rb = _with_condition(rel[0], "release")
        _need(len(rb) == 2 and isinstance(rb[0], ast.If) and len(rb[0].body) == 1 and len(rb[0].orelse) == 1,
              "release: if/else then notify_all")
        out.append(_expr(rb[0].test, [("reservation", Z)], "release_is_oversized", B))
        s1 = rb[0].body[0]
        _need(isinstance(s1, ast.Assign) and _is_self_attr(s1.targets[0], "_oversized_active")
              and isinstance(s1.value, ast.Constant) and s1.value.value is False,
              "release oversized: self._oversized_active = False")
        s2 = rb[0].orelse[0]
        _need(isinstance(s2, ast.AugAssign) and _is_self_attr(s2.target, "_in_flight"), "release: self._in_flight -= ...")
        upd = ast.BinOp(left=ast.Attribute(value=ast.Name(id="self", ctx=ast.Load()), attr="_in_flight", ctx=ast.Load()),
                        op=s2.op, right=s2.value)
        out.append(_expr(upd, [("in_flight", Z), ("reservation", Z)], "release_regular_update", Z))
        _need(ast.unparse(rb[1]) == "self._condition.notify_all()", "release ends with self._condition.notify_all()")
        # ---- _reservation_bytes
        rsv = _strip_doc(T.find_function(mod, "_reservation_bytes").body)
        _need(len(rsv) == 2 and isinstance(rsv[0], ast.If) and not rsv[0].orelse and len(rsv[0].body) == 1
              and isinstance(rsv[0].body[0], ast.Return) and isinstance(rsv[1], ast.Return),
              "_reservation_bytes: if isinstance(...): return ...; return ...")
        _need(ast.unparse(rsv[0].test) == "isinstance(tensor, _core.ExternalTensor)",
              "_reservation_bytes tests isinstance(tensor, _core.ExternalTensor)")
        ctext, chunk = T.translate_int_constant(CORE, "_EXTERNAL_TENSOR_COPY_CHUNK_SIZE")
        out.append(ctext)

        def chunk_name(n):
            return "chunk" if ast.unparse(n) == "_core._EXTERNAL_TENSOR_COPY_CHUNK_SIZE" and isinstance(n, ast.Attribute) else None
        e_ext = _expr(rsv[0].body[0].value, [("tensor_length", Z), ("chunk", Z)], "reservation_bytes_external", Z,
                      extra=chunk_name)
        e_mem = _expr(rsv[1].value, [("tensor_length", Z)], "reservation_bytes_memory", Z)
        out += [e_ext, e_mem]
        out.append("Definition reservation_bytes (is_external : bool) (tensor_length : Z) (chunk : Z) : Z :=\n"
                   "  if is_external then reservation_bytes_external tensor_length chunk "
                   "else reservation_bytes_memory tensor_length.\n")
        # ---- _write_tensor_with_budget_at: acquire / try write / finally release
        wt = _strip_doc(T.find_function(mod, "_write_tensor_with_budget_at").body)
        _need(len(wt) == 3 and isinstance(wt[2], ast.Try) and len(wt[2].finalbody) == 1 and not wt[2].handlers,
              "_write_tensor_with_budget_at: if budget is None..., reservation = acquire, try/finally")
        _need(ast.unparse(wt[1]) == "reservation = budget.acquire(_reservation_bytes(tensor, length))",
              "reservation = budget.acquire(_reservation_bytes(tensor, length))")
        _need(ast.unparse(wt[2].finalbody[0]) == "budget.release(reservation)", "finally: budget.release(reservation)")
        out.append(_program_order(mod))
        digests = {q: T.ast_digest(T.find_function(mod, q)) for q in (
            "_ByteBudget.acquire", "_ByteBudget.release", "_write_tensor_with_budget_at",
            "_ExternalDataWriter._write_parallel", "_ExternalDataWriter._write_serial",
            "_ExternalDataWriter._write_tensor", "_write_external_tensors")}
        ck.coverage["modelled_function_ast_digests"] = digests
    except (T.Unsupported, SyntaxError, OSError, AttributeError, IndexError) as e:
        ck.gen_failed("C09Gen", e)
        return False
    ck.gen("C09Gen", "\n".join(out))
    return True


# --------------------------------------------------------------------------- cooperative runtime
# Real OS threads, but exactly one holds the baton at any time; every Lock/Condition/submit/result/
# as_completed/shutdown call, every callback and every tensor write is a scheduling point.  The chooser
# decides which enabled thread runs next, so a run is a deterministic function of (config, choices).

import collections
import linecache
import sys
import threading as _real_threading


class _CoThread:
    def __init__(self, sched, name, fn, role, pool=None, widx=None):
        self.sched, self.name, self.fn, self.role, self.pool, self.widx = sched, name, fn, role, pool, widx
        self.go = _real_threading.Semaphore(0)
        self.pred = None          # enabledness predicate of the pending scheduling point
        self.desc = "start"
        self.finished = False
        self.npoints = 0          # scheduling points passed since the current task started (state key)
        self.task = None          # serial pools: task currently run by this thread
        self.notified = False
        self.cond_kind = None
        self.cond_before = (0, False)
        self.exc = None
        self.thread = _real_threading.Thread(target=self._run, name=name, daemon=True)

    def _run(self):
        self.go.acquire()
        try:
            self.fn()
        except BaseException as e:  # noqa: BLE001  (recorded; the owner decides what it means)
            self.exc = e
        finally:
            self.finished = True
            self.sched._dispatch(self)


class Sched:
    """chooser(enabled: list[_CoThread], sched) -> _CoThread"""

    def __init__(self, chooser, max_steps=20000):
        self.chooser = chooser
        self.max_steps = max_steps
        self.threads: list[_CoThread] = []
        self.cur: _CoThread | None = None
        self.done = _real_threading.Event()
        self.outcome = None            # "finished" | ("deadlock", [...]) | ("step-bound",)
        self.steps: list[list] = []    # model-level events: [thread, code, task, obs]
        self.choices: list[int] = []   # index of the chosen thread among the enabled ones, per decision
        self.keys: list = []           # state key at each decision (exhaustive exploration)
        self.enabled_counts: list[int] = []
        self.nsteps = 0
        self.observe = lambda: (0, False)
        self.keyfn = None
        self.dead = False
        self.pickfn = None
        self.picks: list[int] = []

    # -- threads
    def spawn(self, name, fn, role, pool=None, widx=None, pred=None):
        t = _CoThread(self, name, fn, role, pool, widx)
        t.pred = pred
        self.threads.append(t)
        t.thread.start()
        return t

    def start(self):
        self._dispatch(None)

    def point(self, desc, pred=None):
        me = self.cur
        me.pred, me.desc = pred, desc
        me.npoints += 1
        self._dispatch(me)
        me.pred = None

    def _seal(self):
        obs = None
        for st in reversed(self.steps):
            if st[3] is not None:
                break
            if obs is None:
                obs = self.observe()
            st[3] = obs

    def _dispatch(self, me):
        self._seal()
        if self.dead:
            _real_threading.Event().wait()      # run abandoned: park forever (daemon thread)
        alive = [t for t in self.threads if not t.finished]
        if not alive:
            self.outcome = "finished"
            self.done.set()
            return
        enabled = [t for t in alive if t.pred is None or t.pred()]
        self.nsteps += 1
        if not enabled or self.nsteps > self.max_steps:
            self.outcome = (("deadlock", [f"{t.name}@{t.desc}" for t in alive]) if not enabled
                            else ("step-bound", self.max_steps))
            self.dead = True
            self.done.set()
            _real_threading.Event().wait()
        if self.keyfn is not None:
            self.keys.append(self.keyfn(self))
        self.enabled_counts.append(len(enabled))
        nxt = self.chooser(enabled, self)
        self.choices.append(enabled.index(nxt))
        self.cur = nxt
        if nxt is me:
            return
        nxt.go.release()
        if me is not None and not me.finished:
            me.go.acquire()

    def emit(self, thread, code, task=None):
        self.steps.append([thread, code, task, None])

    def pick(self, n):
        """a nondeterministic choice that is not a thread switch (which completed future as_completed yields)"""
        i = self.pickfn(n) if (n > 1 and self.pickfn is not None) else 0
        self.picks.append(i)
        return i


class _Abort(BaseException):
    pass


def _creation_site():
    """(function name, source line) of the code under test that called a fake constructor."""
    f = sys._getframe(2)
    while f is not None and os.path.basename(f.f_code.co_filename) != "external_data.py":
        f = f.f_back
    if f is None:
        return "?", ""
    return f.f_code.co_name, linecache.getline(f.f_code.co_filename, f.f_lineno)


class CoLock:
    def __init__(self, rt):
        self.rt = rt
        self.owner = None
        fn, line = _creation_site()
        if fn == "_write_parallel" and "callback_lock" in line:
            self.role = "cbin"
        elif fn == "_write_parallel" and "files_lock" in line:
            self.role = "files"
        elif fn == "_write_external_tensors" and "callback_lock" in line:
            self.role = "cbout"
        elif fn in ("_create_tensor_write_locks", "<dictcomp>"):
            self.role = "tensor"
        else:
            self.role = "other:" + fn
        self.obj = None
        rt.locks.append(self)

    def acquire(self, blocking=True, timeout=-1):
        rt, s = self.rt, self.rt.sched
        s.point(f"lock:{self.role}", pred=lambda: self.owner is None)
        me = s.cur
        self.owner = me
        rt.on_lock(me, self)
        return True

    def release(self, exc=False):
        rt, s = self.rt, self.rt.sched
        s.point(f"unlock:{self.role}")
        self.owner = None
        rt.on_unlock(s.cur, self, exc)

    def __enter__(self):
        self.acquire()
        return self

    def __exit__(self, et, ev, tb):
        self.release(exc=et is not None)
        return False

    def locked(self):
        return self.owner is not None


class CoCondition:
    """threading.Condition with an explicit wait set.  Entering the with-block is the scheduling point;
    the body up to wait()/exit runs atomically (no other thread holds the baton)."""

    def __init__(self, rt):
        self.rt = rt
        self.waiters: list[_CoThread] = []
        self.holder = None
        self.kind = None
        rt.conds.append(self)

    def __enter__(self):
        s = self.rt.sched
        kind = sys._getframe(1).f_code.co_name
        s.point(f"cond:{kind}", pred=lambda: self.holder is None)
        self.holder = s.cur
        s.cur.cond_kind = kind
        return self

    def __exit__(self, et, ev, tb):
        me = self.holder
        self.holder = None
        self.rt.on_cond_exit(me, me.cond_kind, me.cond_before, et is not None)
        return False

    def wait(self, timeout=None):
        s = self.rt.sched
        me = s.cur
        self.rt.on_cond_sleep(me)
        me.notified = False
        self.waiters.append(me)
        self.holder = None
        # untimed model of time: a wait with a timeout may time out at any moment (some other thread is slow)
        timed = timeout is not None
        s.point("cond:wait", pred=lambda: (me.notified or timed) and self.holder is None)
        self.holder = me
        if not me.notified:
            self.waiters.remove(me)
            return False
        return True

    def wait_for(self, predicate, timeout=None):
        me = self.rt.sched.cur
        me.cond_before = self.rt.observe()
        r = predicate()
        while not r:
            notified = self.wait(timeout)
            me.cond_before = self.rt.observe()
            r = predicate()
            if not notified:
                break                       # timed out: return whatever the predicate says now
        return r

    def notify(self, n=1):
        for t in self.waiters[:n]:
            t.notified = True
        del self.waiters[:n]

    def notify_all(self):
        self.notify(len(self.waiters))


class CoFuture:
    def __init__(self, rt, idx):
        self.rt = rt
        self.idx = idx
        self.state = "pending"    # pending | running | ok | raised | cancelled
        self.value = None
        self.exc = None

    def done(self):
        return self.state in ("ok", "raised", "cancelled")

    def cancelled(self):
        return self.state == "cancelled"

    def result(self, timeout=None):
        if not self.done():
            self.rt.sched.point("future:result", pred=self.done)
        return self._get()

    def exception(self, timeout=None):
        if not self.done():
            self.rt.sched.point("future:exception", pred=self.done)
        return self.exc

    def _get(self):
        if self.state == "cancelled":
            import concurrent.futures as cf
            raise cf.CancelledError()
        if self.state == "raised":
            raise self.exc
        return self.value


class CoExecutor:
    def __init__(self, rt, max_workers=None):
        self.rt = rt
        s = rt.sched
        fn, _ = _creation_site()
        self.level = "outer" if fn == "_write_external_tensors" else "inner"
        self.k = max_workers
        self.queue: collections.deque = collections.deque()
        self.futures: list[CoFuture] = []
        self.shutdown_flag = False
        self.workers: list[_CoThread] = []
        self.busy = 0
        me = s.cur
        if self.level == "inner":
            self.pool = me.pool if me.pool is not None else 0
            s.point("executor:new")
            rt.on_inner_executor(me, self)
        else:
            self.pool = None
        rt.executors.append(self)
        for i in range(max_workers):
            w = s.spawn(f"{'O' if self.level == 'outer' else 'W'}{self.pool if self.pool is not None else ''}.{i}",
                        lambda i=i: self._worker(i), role=self.level,
                        pool=self.pool, widx=None,
                        pred=lambda: bool(self.queue) or self.shutdown_flag)
            w.local_index = i
            self.workers.append(w)

    def _worker(self, i):
        rt, s = self.rt, self.rt.sched
        me = s.cur
        first = True
        while True:
            if not first:
                s.point("queue:get", pred=lambda: bool(self.queue) or self.shutdown_flag)
            first = False
            if not self.queue:
                return                      # shut down
            fut, fn, args, kwargs = self.queue.popleft()
            fut.state = "running"
            self.busy += 1
            me.npoints = 0
            me.job = fut.idx
            rt.on_dequeue(me, self, fut, args)
            try:
                v = fn(*args, **kwargs)
                exc = None
            except _Abort:
                raise
            except BaseException as e:  # noqa: BLE001
                v, exc = None, e
            s.point("future:set")
            if exc is None:
                fut.state, fut.value = "ok", v
            else:
                fut.state, fut.exc = "raised", exc
            self.busy -= 1
            me.job = None
            rt.on_task_done(me, self, fut, exc is not None)

    def submit(self, fn, *args, **kwargs):
        s = self.rt.sched
        if self.shutdown_flag:
            raise RuntimeError("cannot schedule new futures after shutdown")
        s.point("submit")
        fut = CoFuture(self.rt, len(self.futures))
        self.futures.append(fut)
        self.queue.append((fut, fn, args, kwargs))
        self.rt.on_submit(s.cur, self, fut)
        return fut

    def shutdown(self, wait=True, *, cancel_futures=False):
        s = self.rt.sched
        me = s.cur
        s.point("shutdown")
        first = not self.shutdown_flag
        self.shutdown_flag = True
        if cancel_futures:
            while self.queue:
                fut = self.queue.popleft()[0]
                fut.state = "cancelled"
        if first:
            self.rt.on_shutdown(me, self, cancel_futures)
        if wait:
            s.point("join", pred=lambda: self.busy == 0 and not self.queue)
            if first:
                self.rt.on_joined(me, self)

    def __enter__(self):
        return self

    def __exit__(self, et, ev, tb):
        self.shutdown(wait=True)
        return False


class _Futures:
    pass


class Runtime:
    """The fake `threading` and `concurrent.futures` seen by onnx_ir.external_data, plus the mapping of
    what happens to model-level events (thread, code, task)."""

    # event codes = C09.Model.ev_code
    def __init__(self, sched, plan):
        self.sched = sched
        self.plan = plan                  # predicted configuration: pools, base worker index, sizes, ...
        self.locks, self.conds, self.executors = [], [], []
        self.budgets = []
        self.obj_of_lock = {}
        self.in_cb = []                   # threads currently inside the user callback
        self.in_write = {}                # tensor object index -> threads inside tofile
        self.cb_log = []                  # (index, thread name)
        self.problems = []                # oracle observations
        self.materialised = 0
        self.max_materialised = 0
        self.max_inflight = 0
        self.serial_started = set()
        self.write_count = {}             # tensor object -> number of evaluations (tofile calls)
        self.open_failed = False
        self.nopen = 0                    # attempts to open a worker descriptor
        self.handles = []                 # worker descriptors handed out
        self.inner_workers = {}           # pool -> next local index
        self.observed_pools = {}          # pool -> ("parallel", k) | ("serial", 1)
        self.yielded = {}                 # pool -> futures already yielded by as_completed
        sched.rt = self
        sched.observe = self.observe
        rt = self

        class _Threading:
            Lock = staticmethod(lambda: CoLock(rt))
            Condition = staticmethod(lambda lock=None: CoCondition(rt))
            local = _real_threading.local
            RLock = staticmethod(lambda: CoLock(rt))
        fut = _Futures()
        fut.ThreadPoolExecutor = lambda max_workers=None, **kw: CoExecutor(rt, max_workers)
        fut.as_completed = self.as_completed
        import concurrent.futures as cf
        fut.CancelledError = cf.CancelledError
        conc = _Futures()
        conc.futures = fut
        self.threading, self.concurrent = _Threading, conc

    # -- observation of the budget (counter at every step)
    def observe(self):
        if not self.budgets:
            return (0, False)
        b = self.budgets[-1]
        inf, ov = b._in_flight, bool(b._oversized_active)
        if inf > self.max_inflight:
            self.max_inflight = inf
        return (inf, ov)

    # -- model thread ids
    def _drv(self, th):
        return ("D", th.pool if th.pool is not None else 0)

    def _wrk(self, th):
        if th.widx is None:
            p = th.pool if th.pool is not None else 0
            if th.role == "inner":
                th.widx = self.plan["base"][p] + th.local_index
            else:
                th.widx = self.plan["base"][p]         # the shard driver itself runs the serial writer
        return ("W", th.widx)

    def _serial_task_start(self, th):
        """serial writer: the for-loop picks the next tensor (a `dequeue` of the model's one-worker pool)"""
        p = th.pool
        if p not in self.serial_started:
            self.serial_started.add(p)
            self.observed_pools[p] = ("serial", 1)
            for _ in range(self.plan["pool_sizes"][p]):
                self.sched.emit(("D", p), 31)
            self.sched.emit(("D", p), 32)
            th.serial_next = 0
        th.task = self.plan["pool_first"][p] + th.serial_next
        th.serial_next += 1
        th.npoints = 0
        self.sched.emit(self._wrk(th), 1, th.task)

    def _serial_task_end(self, th, exc):
        self.sched.emit(self._wrk(th), 17 if exc else 16, th.task)
        th.task = None

    def _is_serial_thread(self, th):
        return th.role == "outer" and not any(e.level == "inner" and e.pool == th.pool for e in self.executors)

    # -- hooks
    def on_lock(self, th, lock):
        if lock.role == "files":
            th.nfiles = getattr(th, "nfiles", 0) + 1
        if lock.role == "cbin":
            self.sched.emit(self._wrk(th), 2, th.task)
        elif lock.role == "cbout":
            if self._is_serial_thread(th) and th.task is None:
                self._serial_task_start(th)
            self.sched.emit(self._wrk(th), 3, th.task)
        elif lock.role == "tensor":
            self.sched.emit(self._wrk(th), 8, th.task)

    def on_unlock(self, th, lock, exc):
        if lock.role == "cbin":
            self.sched.emit(self._wrk(th), 7, th.task)
        elif lock.role == "cbout":
            self.sched.emit(self._wrk(th), 6, th.task)
            if exc and self._is_serial_thread(th):
                self._serial_task_end(th, True)
        elif lock.role == "tensor":
            self.sched.emit(self._wrk(th), 15, th.task)
            if self._is_serial_thread(th):
                self._serial_task_end(th, exc)

    def on_cond_sleep(self, th):
        self.sched.emit(self._wrk(th), 11, th.task)

    def on_cond_exit(self, th, kind, before, exc):
        after = self.observe()
        if kind == "acquire":
            self.sched.emit(self._wrk(th), 10 if (after[1] and not before[1]) else 9, th.task)
        elif kind == "release":
            self.sched.emit(self._wrk(th), 14, th.task)

    def on_inner_executor(self, th, ex):
        self.observed_pools[ex.pool] = ("parallel", ex.k)
        if th.role == "main":
            th.pool = 0
            self.sched.emit(("D", 0), 30)

    def on_dequeue(self, th, ex, fut, args):
        if ex.level == "outer":
            th.pool = fut.idx
            th.widx = None
            th.task = None
            self.sched.emit(("D", fut.idx), 30)
        else:
            th.task = self.plan["pool_first"][ex.pool] + fut.idx
            self.sched.emit(self._wrk(th), 1, th.task)

    def on_task_done(self, th, ex, fut, raised):
        if ex.level == "outer":
            p = fut.idx
            if p in self.serial_started:
                self.sched.emit(("D", p), 33 if raised else 34)
                self.sched.emit(("D", p), 35)
        else:
            self.sched.emit(self._wrk(th), 17 if raised else 16, th.task)
            th.task = None

    def on_submit(self, th, ex, fut):
        if ex.level == "inner":
            self.sched.emit(("D", ex.pool), 31)

    def on_shutdown(self, th, ex, cancel):
        if ex.level == "inner":
            self.sched.emit(("D", ex.pool), 33 if cancel else 34)

    def on_joined(self, th, ex):
        if ex.level == "inner":
            self.sched.emit(("D", ex.pool), 35)

    def as_completed(self, fs, timeout=None):
        s = self.sched
        fs = list(fs)
        me = s.cur
        s.point("as_completed:start")
        p = me.pool if me.pool is not None else 0
        s.emit(("D", p), 32)
        pending = list(fs)
        while pending:
            s.point("as_completed:next", pred=lambda: any(f.done() for f in pending))
            ready = [f for f in pending if f.done()]
            f = ready[s.pick(len(ready))]
            pending.remove(f)
            self.yielded[p] = self.yielded.get(p, ()) + (f.idx,)
            yield f


# --------------------------------------------------------------------------- implementation side

import contextlib
import errno
import json
import random
import shutil
import time

import numpy as np

_CLASSES = {}


class SaveCancelled(BaseException):
    """an injected failure that does not derive from Exception (cancellation / Ctrl-C style)"""


def _injected(tensor_or_kind, what):
    kind = tensor_or_kind if isinstance(tensor_or_kind, str) else getattr(tensor_or_kind, "_c09_exc", "runtime")
    if kind == "base":
        return SaveCancelled(f"injected {what} cancellation")
    if kind == "oserror":
        return OSError(errno.ENOSPC, f"injected {what} failure: no space left on device")
    if kind == "oserror-once":
        return OSError(errno.EIO, f"injected transient {what} failure")
    return RuntimeError(f"injected {what} failure")


def _should_inject(tensor) -> bool:
    """Does this evaluation of a failing tensor raise an injected exception?  ("short": the real copy loop raises)"""
    if not getattr(tensor, "_c09_wfail", False):
        return False
    kind = getattr(tensor, "_c09_exc", "runtime")
    if kind == "short":
        return False
    if kind == "oserror-once":
        tensor._c09_attempts = getattr(tensor, "_c09_attempts", 0) + 1
        return tensor._c09_attempts == 1
    return True


class _RecFile:
    """Destination handed to ExternalTensor.tofile: no fileno(), so the userspace copy loop is taken (as on a
    platform / file system without copy_file_range), and every buffer passed to write() is reported."""

    def __init__(self, file, on_buffer):
        self._file, self._on_buffer = file, on_buffer

    def write(self, b):
        self._on_buffer(len(b))
        return self._file.write(b)

    def seek(self, *a):
        return self._file.seek(*a)

    def tell(self):
        return self._file.tell()

    def flush(self):
        return self._file.flush()


def _classes():
    if _CLASSES:
        return _CLASSES
    import onnx_ir as ir

    class HookTensor(ir.Tensor):
        def tofile(self, file):
            h = getattr(self, "_c09_hook", None)
            if h is None:
                if _should_inject(self):
                    raise _injected(self, "write")
                return super().tofile(file)
            return h(self, file, ir.Tensor.tofile)

    class HookExternalTensor(ir.ExternalTensor):
        def tofile(self, file):
            h = getattr(self, "_c09_hook", None)
            if h is None:
                if _should_inject(self):
                    raise _injected(self, "write")
                return super().tofile(file)
            return h(self, file, ir.ExternalTensor.tofile)

    _CLASSES.update(mem=HookTensor, ext=HookExternalTensor)
    return _CLASSES


def tensor_bytes(hc) -> list[bytes]:
    """bytes per tensor index (tensors sharing an object share bytes)"""
    rng = random.Random(hc["tseed"])
    by_obj = {}
    out = []
    for i, t in enumerate(hc["tensors"]):
        if t["obj"] not in by_obj:
            by_obj[t["obj"]] = bytes(rng.randrange(1, 256) for _ in range(t["len"]))
        out.append(by_obj[t["obj"]])
    return out


def bindings_of(hc, model, ret) -> list:
    """What the caller ends up with per tensor index after a successful save: [location, offset, length,
    bytes read back through that ExternalTensor == the tensor's bytes]  (None if not external).
    unload_from_model: the initializers w0..wn-1 of the model; convert / write: the returned list, by position."""
    import onnx_ir as ir
    data = tensor_bytes(hc)
    n = len(hc["tensors"])
    if hc.get("entry", "unload") == "unload":
        ts = [model.graph.initializers[f"w{i}"].const_value for i in range(n)]
    else:
        ts = list(ret) if ret is not None else []
    out = []
    for i, t in enumerate(ts):
        if not isinstance(t, ir.ExternalTensor):
            out.append(None)
            continue
        try:
            ok = bytes(t.tobytes()) == data[i]
        except Exception:  # noqa: BLE001
            ok = False
        out.append([str(t.location), t.offset, t.length, ok])
    return out


def invoke_save(hc, model, objs, out, callback, max_workers, cap):
    """The entry point named by hc["entry"]:
       "unload"  (default) external_data.unload_from_model on a model (zero-byte initializers are never externalised)
       "convert" external_data.convert_tensors_to_external on the tensor list (zero-length tensors included)
       "write"   external_data._write_external_tensors (what unload_from_model calls; honours max_shard)"""
    from onnx_ir import external_data as ed
    entry = hc.get("entry", "unload")
    # hc["align"] = [alignment, align_threshold]: tensors longer than the threshold start at multiples of max(4096, a)
    al, thr = hc["align"] if hc.get("align") else (None, ed._DEFAULT_ALIGN_THRESHOLD)
    if entry == "unload":
        return ed.unload_from_model(model, out, "m.data", max_shard_size_bytes=hc["max_shard"], callback=callback,
                                    max_workers=max_workers, max_in_flight_bytes=cap, alignment=al,
                                    align_threshold=thr)
    tensors = [objs[t["obj"]] for t in hc["tensors"]]
    if entry == "convert":
        return ed.convert_tensors_to_external(tensors, out, "m.data", callback=callback, max_workers=max_workers,
                                              max_in_flight_bytes=cap, alignment=al, align_threshold=thr)
    return ed._write_external_tensors(tensors, out, "m.data", max_shard_size_bytes=hc["max_shard"], callback=callback,
                                      max_workers=max_workers, max_in_flight_bytes=cap, alignment=al,
                                      align_threshold=thr)


def build_model(hc, workdir, with_failures=True):
    """A model whose initializers w0..wn-1 hold the configured tensors.  Returns (model, objects by obj id)."""
    import onnx_ir as ir
    cls = _classes()
    os.makedirs(workdir, exist_ok=True)
    data = tensor_bytes(hc)
    objs = {}
    inits = []
    for i, t in enumerate(hc["tensors"]):
        o = t["obj"]
        if o not in objs:
            arr = np.frombuffer(data[i], dtype=np.uint8).copy()
            if t["ext"]:
                fn = f"src_{o}.bin"
                pre = o % 3
                short = with_failures and t["wfail"] and t.get("exc") == "short"
                with open(os.path.join(workdir, fn), "wb") as f:
                    # "short": the source file ends one byte before the tensor does (the copy loop raises OSError)
                    f.write(b"\xee" * pre + (data[i][:-1] if short else data[i] + b"\xdd\xdd"))
                obj = cls["ext"](fn, pre, len(data[i]), ir.DataType.UINT8, shape=ir.Shape([len(data[i])]),
                                 name=f"w{i}", base_dir=workdir)
            else:
                obj = cls["mem"](arr, name=f"w{i}")
            obj._c09_obj = o
            obj._c09_wfail = bool(t["wfail"]) and with_failures
            obj._c09_exc = t.get("exc", "runtime")
            obj._c09_ext = bool(t["ext"])
            obj._c09_need = min(t["len"], hc["chunk"]) if (t["ext"] and hc.get("chunk")) else t["len"]
            objs[o] = obj
        inits.append(ir.Value(name=f"w{i}", const_value=objs[o], type=ir.TensorType(ir.DataType.UINT8),
                              shape=ir.Shape([t["len"]])))
    x = ir.Value(name="x", type=ir.TensorType(ir.DataType.FLOAT), shape=ir.Shape([1]))
    y = ir.Value(name="y", type=ir.TensorType(ir.DataType.FLOAT), shape=ir.Shape([1]))
    g = ir.Graph([x], [y], nodes=[ir.Node("", "Identity", [x], outputs=[y], name="n")], initializers=inits,
                 name="g", opset_imports={"": 20})
    return ir.Model(g, ir_version=10), objs


def _list_files(outdir) -> dict:
    out = {}
    for root, dirs, fs in os.walk(outdir):
        for fn in fs:
            p = os.path.join(root, fn)
            with open(p, "rb") as f:
                out[os.path.relpath(p, outdir)] = f.read()
        for d in dirs:
            out.setdefault("__dirs__", []).append(os.path.relpath(os.path.join(root, d), outdir))
    return out


@contextlib.contextmanager
def _chunk(hc):
    from onnx_ir import _core
    old = _core._EXTERNAL_TENSOR_COPY_CHUNK_SIZE
    if hc.get("chunk"):
        _core._EXTERNAL_TENSOR_COPY_CHUNK_SIZE = hc["chunk"]
    try:
        yield
    finally:
        _core._EXTERNAL_TENSOR_COPY_CHUNK_SIZE = old


class SaveHung(RuntimeError):
    """a call into the implementation did not return within the watchdog time"""


def _watchdog(fn, seconds, what):
    """Run fn() in a daemon thread; SaveHung if it does not return in time (liveness is part of the property)."""
    box = {}

    def target():
        try:
            box["v"] = fn()
        except BaseException as e:  # noqa: BLE001
            box["e"] = e
    th = _real_threading.Thread(target=target, daemon=True)
    th.start()
    th.join(seconds)
    if th.is_alive():
        raise SaveHung(f"{what} did not return within {seconds} s")
    if "e" in box:
        raise box["e"]
    return box.get("v")


def reference(hc, workdir) -> dict:
    """The serial save (max_workers=None, real modules, no failures): files, layout, and the plan that
    names pools / workers the way the model does."""
    from onnx_ir import external_data as ed
    wd = os.path.join(workdir, "ref")
    model, ref_objs = build_model(hc, wd, with_failures=False)
    out = os.path.join(wd, "out")
    os.makedirs(out)
    layout = {}

    def cb(tensor, info):
        layout[info.index] = (info.filename, info.offset)
    with _chunk(hc):
        ret = _watchdog(lambda: invoke_save(hc, model, ref_objs, out, cb, None, ed._DEFAULT_MAX_IN_FLIGHT_BYTES),
                        30.0, "the serial save (max_workers=None)")
    ref_bindings = bindings_of(hc, model, ret)
    files = _list_files(out)
    shutil.rmtree(wd, ignore_errors=True)
    n = len(hc["tensors"])
    assert sorted(layout) == list(range(n)), layout
    names = []
    for i in range(n):
        if layout[i][0] not in names:
            names.append(layout[i][0])
    pool_of = [names.index(layout[i][0]) for i in range(n)]
    sizes = [pool_of.count(p) for p in range(len(names))]
    first = [pool_of.index(p) for p in range(len(names))]
    mw = hc["max_workers"]
    if len(names) > 1:
        sw = min(mw, len(names))
        wps = max(1, (mw - sw) // sw)
        serial = [not (wps > 1 and sizes[p] > 1) for p in range(len(names))]
        k = [1 if serial[p] else wps for p in range(len(names))]
        outer, limit = True, sw
    else:
        serial, k, outer, limit = [False], [mw], False, 1
    base = [sum(k[:p]) for p in range(len(names))]
    return {"files": files, "names": names, "pool_of": pool_of, "offsets": [layout[i][1] for i in range(n)],
            "pool_sizes": sizes, "pool_first": first, "serial": serial, "k": k, "base": base, "outer": outer,
            "limit": limit, "nw": sum(k), "bindings": ref_bindings}


def open_fail_attempts(hc) -> list[int]:
    """hc["open_fail"]: which attempts (0-based, in order of occurrence) to open a worker descriptor fail."""
    of = hc.get("open_fail")
    if not of:
        return []
    return [0] if of is True or of == 1 else sorted(int(x) for x in of)


def _failing_open(flagholder, hc, before=None, on_attempt=None):
    """`open` as seen by external_data: attempts to open a worker descriptor (mode r+b) are counted; the
    configured ones fail with EMFILE; every descriptor handed out is remembered (must be closed at the end)."""
    import builtins
    fails = set(open_fail_attempts(hc))
    mu = _real_threading.Lock()

    def fake_open(path, mode="r", *a, **k):
        if mode != "r+b":
            return builtins.open(path, mode, *a, **k)
        if before is not None:
            before()
        with mu:
            n = flagholder.nopen
            flagholder.nopen = n + 1
        if on_attempt is not None:
            on_attempt(n in fails)
        if n in fails:
            flagholder.open_failed = True
            raise OSError(errno.EMFILE, "injected: too many open files", os.fspath(path))
        f = builtins.open(path, mode, *a, **k)
        flagholder.handles.append(f)
        return f
    return fake_open


def run_coop(hc, plan, workdir, chooser, pickfn=None, keyfn=None, max_steps=4000, timeout=20.0) -> dict:
    """One cooperative run of the real unload_from_model under the given scheduler policy."""
    from onnx_ir import _core
    from onnx_ir import external_data as ed
    wd = os.path.join(workdir, "run")
    shutil.rmtree(wd, ignore_errors=True)
    model, objs = build_model(hc, wd)
    out = os.path.join(wd, "out")
    os.makedirs(out)
    sched = Sched(chooser, max_steps)
    sched.pickfn, sched.keyfn = pickfn, keyfn
    rt = Runtime(sched, plan)
    result = {}
    need_of = {o: t._c09_need for o, t in objs.items()}

    def hook(tensor, file, base):
        me = sched.cur
        o = tensor._c09_obj
        users = rt.in_write.setdefault(o, [])
        if users:
            rt.problems.append(f"tensor object {o} evaluated by {me.name} while {users[0].name} is still using it")
        users.append(me)
        rt.write_count[o] = rt.write_count.get(o, 0) + 1
        held = {"n": 0}

        def account(n):
            # bytes this thread holds in userspace right now (whole tensor for in-memory tensors, the buffer
            # handed to file.write for ExternalTensor sources)
            rt.materialised += n - held["n"]
            held["n"] = n
            rt.max_materialised = max(rt.max_materialised, rt.materialised)
        try:
            if not tensor._c09_ext:
                account(need_of[o])
            sched.point("write")
            sched.emit(rt._wrk(me), 13 if tensor._c09_wfail else 12, me.task)
            if _should_inject(tensor):
                raise _injected(tensor, "write")
            if tensor._c09_ext:
                def on_buffer(n):
                    account(n)
                    sched.point("write:buffer")      # other threads may run while this buffer is alive
                base(tensor, _RecFile(file, on_buffer))
            else:
                base(tensor, file)
        finally:
            users.remove(me)
            account(0)
    for t in objs.values():
        t._c09_hook = hook

    cbfail = {i for i, t in enumerate(hc["tensors"]) if t["cbfail"]}

    def callback(tensor, info):
        me = sched.cur
        if rt.in_cb:
            rt.problems.append(f"callback for index {info.index} entered by {me.name} while {rt.in_cb[0].name} "
                               "is inside the callback")
        rt.in_cb.append(me)
        try:
            sched.point("callback")
            rt.cb_log.append((info.index, me.name))
            sched.emit(rt._wrk(me), 5 if info.index in cbfail else 4, me.task)
            if info.index in cbfail:
                raise _injected(hc["tensors"][info.index].get("exc", "runtime"), "callback")
        finally:
            rt.in_cb.remove(me)

    orig_budget = ed._ByteBudget

    class Budget(orig_budget):
        def __init__(self, capacity):
            super().__init__(capacity)
            rt.budgets.append(self)

    def main():
        me = sched.cur
        try:
            ret = invoke_save(hc, model, objs, out, callback, hc["max_workers"], hc["cap"])
            result["outcome"] = "ok"
            result["bindings"] = bindings_of(hc, model, ret)
        except _Abort:
            raise
        except BaseException as e:  # noqa: BLE001
            result["outcome"] = "raise:" + type(e).__name__
            result["message"] = str(e)[:200]
        # the moment the caller gets control back
        busy = [w.name for ex in rt.executors for w in ex.workers if getattr(w, "job", None) is not None]
        if busy:
            rt.problems.append(f"save returned control ({result['outcome']}) while workers {busy} are still running")
        inf, ov = rt.observe()
        if rt.budgets and (inf != 0 or ov):
            rt.problems.append(f"save returned control ({result['outcome']}) with budget in_flight={inf} oversized={ov}")
        if rt.in_cb or any(rt.in_write.values()):
            rt.problems.append("save returned control while a callback / tensor write is in progress")
        still_open = sum(1 for f in rt.handles if not f.closed)
        if still_open:
            rt.problems.append(f"save returned control with {still_open} worker file descriptor(s) still open")
        sched.emit(("M",), 40)

    saved = (ed.threading, ed.concurrent, ed._ByteBudget)
    ed.threading, ed.concurrent, ed._ByteBudget = rt.threading, rt.concurrent, Budget
    # locks / conditions that live in the module namespace (created at import time with the real threading) are
    # instrumented too: otherwise a cothread would block the OS thread that holds the baton
    mod_saved = {}
    lock_types = (type(_real_threading.Lock()), type(_real_threading.RLock()))
    for name, val in list(vars(ed).items()):
        if isinstance(val, lock_types):
            mod_saved[name] = val
            co = CoLock(rt)
            co.role = "module:" + name
            setattr(ed, name, co)
        elif isinstance(val, _real_threading.Condition):
            mod_saved[name] = val
            setattr(ed, name, CoCondition(rt))
    def on_open_attempt(fails):
        me = sched.cur
        sched.emit(rt._wrk(me), 19 if fails else 18, me.task)
    # _thread_file(): this worker has no descriptor yet (a scheduling point; POpen in the model)
    ed.open = _failing_open(rt, hc, lambda: sched.point("open"), on_open_attempt)
    t0 = time.time()
    try:
        with _chunk(hc):
            sched.spawn("M", main, role="main")
            sched.start()
            finished = sched.done.wait(timeout)
    finally:
        ed.threading, ed.concurrent, ed._ByteBudget = saved
        for name, val in mod_saved.items():
            setattr(ed, name, val)
        if "open" in vars(ed):
            del ed.open
    sched._seal() if sched.outcome == "finished" else None
    for t in objs.values():
        t._c09_hook = None
    if not finished:
        sched.dead = True
        sched.outcome = ("timeout", timeout)
    res = {"sched_outcome": sched.outcome, "outcome": result.get("outcome"), "message": result.get("message"),
           "steps": sched.steps, "choices": sched.choices, "picks": sched.picks, "keys": sched.keys,
           "enabled_counts": sched.enabled_counts, "problems": rt.problems, "cb_log": rt.cb_log,
           "max_materialised": rt.max_materialised, "max_inflight": rt.max_inflight,
           "observed_pools": rt.observed_pools, "nbudgets": len(rt.budgets),
           "write_counts": dict(rt.write_count), "open_failed": rt.open_failed, "nopen": rt.nopen,
           "files": _list_files(out) if sched.outcome == "finished" else None,
           "threads": [t.name for t in sched.threads], "wall": time.time() - t0,
           "bindings": result.get("bindings")}
    shutil.rmtree(wd, ignore_errors=True)
    return res


def random_chooser(rng):
    return lambda enabled, s: enabled[rng.randrange(len(enabled))]


def replay_chooser(choices, fallback=None):
    it = iter(choices)

    def ch(enabled, s):
        i = next(it, None)
        if i is None or i >= len(enabled):
            return fallback(enabled, s) if fallback else enabled[0]
        return enabled[i]
    return ch


# --------------------------------------------------------------------------- case files (model run inside Coq)

from harness.common import cZ, cbool, clist  # noqa: E402

CASE_HEADER = """From Coq Require Import ZArith List Bool.
From IRV Require Import Base.Exn Gen.C09Gen C07.Model C09.Model.
Import ListNotations.
Close Scope Z_scope.
Open Scope nat_scope.
"""
REAL_CHUNK = 1024 * 1024


def cfg_term(hc, plan) -> str:
    data = tensor_bytes(hc)
    tasks = []
    for i, t in enumerate(hc["tensors"]):
        tasks.append(f"mkTask {plan['pool_of'][i]} {t['obj']} {plan['offsets'][i]} "
                     f"{clist(cZ(b) for b in data[i])} {cbool(t['ext'])} {cbool(t['cbfail'])} {cbool(t['wfail'])}")
    wpool = [p for p, k in enumerate(plan["k"]) for _ in range(k)]
    return (f"(mkCfg {clist(tasks)} {clist(cbool(b) for b in plan['serial'])} {clist(str(p) for p in wpool)} "
            f"{cZ(hc['cap'])} {cZ(hc.get('chunk') or REAL_CHUNK)} {cbool(plan['outer'])} {plan['limit']} "
            f"{clist(str(k) for k in open_fail_attempts(hc))})")


def _thread_term(th) -> str:
    if th[0] == "M":
        return "TMain"
    return f"(TDrv {th[1]})" if th[0] == "D" else f"(TWrk {th[1]})"


def trace_term(steps) -> str:
    return clist(f"({_thread_term(th)}, {code}, {task or 0}, {cZ(obs[0])}, {cbool(obs[1])})"
                 for th, code, task, obs in steps)


def case_term(hc, plan, res) -> str:
    raised = res["outcome"] != "ok"
    files = [] if raised else [clist(cZ(b) for b in res["files"].get(n, b"")) for n in plan["names"]]
    nevals = sum((res.get("write_counts") or {}).values())
    lens = "None"
    if hc.get("align") and not raised:
        lens = "(Some " + clist(str(len(res["files"].get(n, b""))) for n in plan["names"]) + ")"
        files = []
    return (f"({cfg_term(hc, plan)},\n   {trace_term(res['steps'])},\n   {cbool(raised)}, "
            f"{clist(str(i) for i, _ in res['cb_log'])}, {clist(files)}, {lens}, {res.get('nopen', 0)}, {nevals})")


def cases_text(cases) -> str:
    ty = "(cfg * list ostep * bool * list nat * list (list Z) * option (list nat) * nat * nat)%type"
    return (CASE_HEADER + f"Definition cases : list {ty} :=\n  " + ";\n  ".join(["["] and []) +
            "[" + ";\n  ".join(case_term(*c) for c in cases) + "].\n"
            f"Definition agree (x : {ty}) : bool := let '(c, tr, r, cbs, fs, ls, no, ne) := x in run_agrees c tr r cbs fs ls no ne.\n"
            "Eval vm_compute in (failing agree cases).\n")


def accepted_prefix(ck, hc, plan, res) -> int:
    """how many observed steps the model accepts (diagnostic for a rejected trace)"""
    text = (CASE_HEADER + f"Eval vm_compute in (accepted {cfg_term(hc, plan)} init {trace_term(res['steps'])}).\n")
    rc, out = ck.coq_eval(text, "diag")
    import re
    m = re.search(r"=\s*(\d+)", out)
    return int(m.group(1)) if m else -1


# --------------------------------------------------------------------------- schedules

def first_chooser(enabled, s):
    return enabled[0]


def pct_chooser(rng, depth=3, horizon=120):
    """PCT-style: random thread priorities, lowered at `depth` random change points."""
    prio = {}
    change = {rng.randrange(horizon) for _ in range(depth)}
    state = {"n": 0, "low": 0.0}

    def ch(enabled, s):
        for t in enabled:
            if t.name not in prio:
                prio[t.name] = 1.0 + rng.random()
        best = max(enabled, key=lambda t: prio[t.name])
        if state["n"] in change:
            state["low"] -= 1.0
            prio[best.name] = state["low"]
            best = max(enabled, key=lambda t: prio[t.name])
        state["n"] += 1
        return best
    return ch


def state_key(s: Sched):
    """Abstract state at a scheduling decision: determines the future behaviour of the run (given the
    configuration), so (key, choice) pairs already explored need not be explored again."""
    rt = s.rt
    ths = tuple((t.name, t.desc, t.npoints, t.task, t.finished, t.notified, getattr(t, "nfiles", 0),
                 getattr(t, "job", None), t.pool) for t in s.threads)
    locks = tuple((l.role, l.owner.name if l.owner else None) for l in rt.locks)
    ex = tuple((e.level, e.pool, tuple(q[0].idx for q in e.queue), tuple(f.state for f in e.futures),
                e.shutdown_flag, e.busy) for e in rt.executors)
    conds = tuple(tuple(w.name for w in cnd.waiters) for cnd in rt.conds)
    return (ths, locks, ex, conds, rt.observe(), tuple(sorted(rt.yielded.items())))


def explore(hc, plan, wd, max_runs):
    """Stateless DFS over scheduler choices with (state key, choice) pruning.  Yields every run; the
    generator's return value (StopIteration.value) says whether the exploration was exhaustive."""
    visited = set()
    stack = [[]]
    runs = 0
    while stack:
        if runs >= max_runs:
            return False
        prefix = stack.pop()
        res = run_coop(hc, plan, wd, replay_chooser(prefix, first_chooser), keyfn=state_key)
        runs += 1
        yield res
        ch, keys, cnt = res["choices"], res["keys"], res["enabled_counts"]
        for i in range(len(prefix), min(len(ch), len(keys))):
            if (keys[i], ch[i]) in visited:
                break
            visited.add((keys[i], ch[i]))
            for alt in range(cnt[i]):
                if alt != ch[i] and (keys[i], alt) not in visited:
                    visited.add((keys[i], alt))
                    stack.append(ch[:i] + [alt])
    return True


# --------------------------------------------------------------------------- oracle (the property itself)

def oracle(hc, plan, res) -> list[str]:
    bad = []
    so = res["sched_outcome"]
    if so != "finished":
        bad.append(f"save does not terminate under this schedule: {so}")
        bad += res["problems"]
        return bad
    bad += res["problems"]
    any_fail = any(t["cbfail"] or t["wfail"] for t in hc["tensors"]) or bool(res.get("open_failed"))
    uses = {}
    for t in hc["tensors"]:
        uses[t["obj"]] = uses.get(t["obj"], 0) + 1
    for o, k in sorted((res.get("write_counts") or {}).items()):
        if k > uses.get(int(o), 0):
            bad.append(f"tensor object {o} evaluated {k} times for {uses.get(int(o), 0)} initializer(s)")
    n = len(hc["tensors"])
    idx = [i for i, _ in res["cb_log"]]
    if res["outcome"] == "ok":
        if any_fail:
            bad.append("a callback / tensor raised but save returned normally (exception lost)")
        files = {k: v for k, v in res["files"].items() if k != "__dirs__"}
        ref = {k: v for k, v in plan["files"].items() if k != "__dirs__"}
        if files != ref:
            diff = sorted(set(files) ^ set(ref)) or [k for k in ref if files.get(k) != ref[k]]
            bad.append(f"written files differ from the serial save: {diff}")
        if res["files"].get("__dirs__"):
            bad.append(f"directories left behind: {res['files']['__dirs__']}")
        if sorted(idx) != list(range(n)):
            bad.append(f"callback not invoked exactly once per tensor: indices {sorted(idx)}")
        if res.get("bindings") is not None and res["bindings"] != plan.get("bindings"):
            diff = [i for i, (a, b) in enumerate(zip(res["bindings"], plan["bindings"])) if a != b] \
                if len(res["bindings"]) == len(plan["bindings"]) else "length"
            bad.append(f"after the save the tensors at positions {diff} are bound to another (location, offset, length) "
                       f"than after the serial save, or do not read back their bytes: {res['bindings']} "
                       f"vs {plan['bindings']}")
    else:
        if not any_fail:
            bad.append(f"save raised {res['outcome']} ({res.get('message')}) although nothing fails")
        if len(set(idx)) != len(idx):
            bad.append(f"callback invoked twice for a tensor: indices {sorted(idx)}")
    cap = max(hc["cap"], 1)
    if res["nbudgets"] and res["max_inflight"] > cap:
        bad.append(f"budget counter {res['max_inflight']} exceeded the capacity {cap}")
    mx = max(t["len"] for t in hc["tensors"])
    if res["max_materialised"] > hc["cap"] + mx:
        bad.append(f"{res['max_materialised']} bytes materialised at once > budget {hc['cap']} + largest tensor {mx}")
    return bad


# --------------------------------------------------------------------------- generators

def _inject_failure(rng, tensors, i, write=None):
    """Mark tensor index i (callback) or its object (write) as failing, with a kind of exception:
    RuntimeError, BaseException (cancellation), OSError persistent / transient, short ExternalTensor source."""
    if write is None:
        write = rng.random() < 0.5
    kind = rng.choice(["runtime", "base", "oserror", "oserror"])
    if not write:
        tensors[i]["cbfail"] = True
        tensors[i]["exc"] = kind
        return
    same = [t for t in tensors if t["obj"] == tensors[i]["obj"]]
    if len(same) == 1 and rng.random() < 0.25:
        kind = "oserror-once"
    if tensors[i]["ext"] and rng.random() < 0.5:
        kind = "short"
    for t in same:
        t["wfail"] = True
        t["exc"] = kind


def gen_hc(rng, size="small", fail=None):
    if size == "twolevel":
        # sharded save whose inner writers are parallel too: max_workers >= 3 * shards
        shards = rng.choice([2, 2, 3])
        per = [rng.choice([1, 2, 2, 3]) for _ in range(shards)]
        unit = rng.choice([2, 3, 4])
        cap = rng.choice([1, 2, 3, 4, 6, 1 << 20])
        tensors = []
        for p in per:
            for _ in range(p):
                tensors.append({"len": unit, "obj": len(tensors), "ext": False, "cbfail": False, "wfail": False})
        # shard boundaries: every shard holds `p` tensors of `unit` bytes -> use the largest group as the limit
        # (groups are cut greedily, so equal group sizes give exactly `shards` shards)
        per = [max(per)] * shards
        tensors = [{"len": unit, "obj": i, "ext": False, "cbfail": False, "wfail": False} for i in range(sum(per))]
        if rng.random() < 0.4 and len(tensors) > 2:
            tensors[-1]["obj"] = tensors[0]["obj"]          # a tensor object shared across shards
        if fail if fail is not None else rng.random() < 0.35:
            _inject_failure(rng, tensors, rng.randrange(len(tensors)))
        return {"tensors": tensors, "max_workers": shards * rng.choice([3, 3, 4]), "cap": cap,
                "max_shard": unit * per[0], "chunk": None, "tseed": rng.randrange(1 << 30)}
    if size == "zerolen":
        # zero-element tensors in the list: only reachable through convert_tensors_to_external /
        # _write_external_tensors (unload_from_model filters nbytes > threshold)
        n, mw = rng.choice([3, 4, 5]), rng.choice([2, 3, 4])
        cap = rng.choice([1, 2, 4, 8])
        lens = [rng.choice([1, 2, 3, 5]) for _ in range(n)]
        for i in rng.sample(range(n), k=rng.choice([1, 1, 2])):
            lens[i] = 0
        tensors = [{"len": lens[i], "obj": i, "ext": False, "cbfail": False, "wfail": False} for i in range(n)]
        if rng.random() < 0.3:
            tensors.append(dict(tensors[rng.randrange(n)]))          # an object used twice (may be the empty one)
        if fail if fail is not None else rng.random() < 0.25:
            _inject_failure(rng, tensors, rng.randrange(len(tensors)))
        entry = rng.choice(["convert", "convert", "write"])
        return {"tensors": tensors, "max_workers": mw, "cap": cap,
                "max_shard": rng.choice([None, 4, 6]) if entry == "write" else None, "chunk": None,
                "tseed": rng.randrange(1 << 30), "entry": entry}
    if size == "mixed":
        # sharded save with BOTH kinds of inner writer: full shards (parallel inner writer) and a last shard with a
        # single tensor (serial inner writer) whose tensor OBJECT is also in a parallel shard; budget of one tensor
        full = rng.choice([1, 1, 2])
        u = rng.choice([2, 3, 4])
        n = 2 * full + 1
        tensors = [{"len": u, "obj": i, "ext": False, "cbfail": False, "wfail": False} for i in range(n)]
        if rng.random() < 0.8:
            tensors[-1]["obj"] = rng.randrange(n - 1)
        if fail if fail is not None else rng.random() < 0.2:
            _inject_failure(rng, tensors, rng.randrange(n))
        shards = full + 1
        return {"tensors": tensors, "max_workers": 3 * shards + rng.choice([0, 1]), "cap": rng.choice([u, u, u + 1, 2 * u]),
                "max_shard": 2 * u, "chunk": None, "tseed": rng.randrange(1 << 30),
                "entry": rng.choice(["unload", "write"])}
    if size == "aligned":
        # aligned offsets: tensors longer than the threshold start at multiples of 4096 (gaps in the file; the
        # parallel writer preallocates, the serial one seeks past EOF); single file or shards
        n, mw = rng.choice([3, 4]), rng.choice([2, 3, 4, 6])
        cap = rng.choice([2, 4, 8, 1 << 20])
        thr = rng.choice([0, 2, 3])
        tensors = [{"len": rng.choice([1, 2, 3, 4, 6]), "obj": i, "ext": False, "cbfail": False, "wfail": False}
                   for i in range(n)]
        if fail if fail is not None else rng.random() < 0.2:
            _inject_failure(rng, tensors, rng.randrange(n))
        return {"tensors": tensors, "max_workers": mw, "cap": cap, "max_shard": rng.choice([None, None, 4100, 8200]),
                "chunk": None, "tseed": rng.randrange(1 << 30), "align": [rng.choice([1, 512, 4096]), thr],
                "entry": rng.choice(["unload", "convert", "write"])}
    if size == "extchunk":
        # ExternalTensor sources longer than the budget, copied through userspace in chunks <= budget / 2
        n, mw = rng.choice([3, 4]), rng.choice([2, 3, 4])
        cap, chunk = rng.choice([(4, 2), (6, 2), (6, 3), (8, 4)])
        tensors = [{"len": cap + rng.choice([1, 2, 3, 5]), "obj": i, "ext": True, "cbfail": False, "wfail": False}
                   for i in range(n)]
        if rng.random() < 0.4:
            tensors.append({"len": rng.choice([1, 2, cap]), "obj": n, "ext": False, "cbfail": False, "wfail": False})
        if fail if fail is not None else rng.random() < 0.2:
            _inject_failure(rng, tensors, rng.randrange(len(tensors)), write=True)
        return {"tensors": tensors, "max_workers": mw, "cap": cap,
                "max_shard": rng.choice([None, None, sum(t["len"] for t in tensors)]), "chunk": chunk,
                "tseed": rng.randrange(1 << 30)}
    if size == "oneshard":
        n, mw = rng.choice([3, 4, 5]), rng.choice([2, 3, 4])
    elif size == "tiny":
        n, mw = rng.choice([2, 2, 3]), 2
    elif size == "small":
        n, mw = rng.choice([2, 3, 3, 4]), rng.choice([2, 2, 3])
    else:
        n, mw = rng.choice([3, 4, 5, 6, 8]), rng.choice([2, 3, 4, 6, 8])
    cap = rng.choice([1, 2, 3, 4, 6, 8, 12, 1 << 20]) if size != "oneshard" else rng.choice([2, 3, 4, 6, 8])
    lens = [rng.choice([1, 1, 2, 3, 4, 5, 7, 9, 13]) for _ in range(n)]
    if size == "oneshard":
        lens = [rng.choice([max(1, cap // 2), max(1, cap - 1), cap]) for _ in range(n)]
    if rng.random() < 0.5 and size != "oneshard":  # several tensors larger than the budget
        for i in rng.sample(range(n), k=min(n, 2)):
            lens[i] = cap + rng.choice([1, 2, 5]) if cap < 100 else lens[i]
    tensors = []
    for i in range(n):
        obj = i
        if i and rng.random() < 0.25:              # an initializer sharing an earlier tensor object
            j = rng.randrange(i)
            obj, lens[i] = tensors[j]["obj"], tensors[j]["len"]
        ext = tensors[obj]["ext"] if obj != i else rng.random() < 0.2
        tensors.append({"len": lens[i], "obj": obj, "ext": ext, "cbfail": False, "wfail": False})
    if fail is None:
        fail = rng.random() < 0.35
    if fail:
        for _ in range(rng.choice([1, 1, 2])):
            _inject_failure(rng, tensors, rng.randrange(n))
    max_shard = None
    if size == "oneshard":
        # sharding requested but everything fits in ONE shard: the non-concurrent shard loop with a parallel
        # inner writer that must honour the caller's (small) budget
        max_shard = sum(t["len"] for t in tensors) + rng.choice([0, 1, 50])
    elif size != "tiny" and rng.random() < (0.45 if size == "large" else 0.3):
        max_shard = rng.choice([2, 4, 6, 10, 16])
    hc = {"tensors": tensors, "max_workers": mw, "cap": cap, "max_shard": max_shard,
          "chunk": rng.choice([None, 2, 4]) if any(t["ext"] for t in tensors) else None,
          "tseed": rng.randrange(1 << 30)}
    if size in ("small", "large", "oneshard") and not fail and rng.random() < 0.12:
        hc["open_fail"] = rng.choice([[0], [0], [1], [0, 1], [2]])   # EMFILE on these attempts to open a worker descriptor
    return hc


def describe(hc, plan) -> str:
    return (f"n={len(hc['tensors'])} mw={hc['max_workers']} cap={hc['cap']} shards={len(plan['names'])} "
            f"serial={plan['serial']} k={plan['k']} fail={any(t['cbfail'] or t['wfail'] for t in hc['tensors'])}")


# --------------------------------------------------------------------------- real-thread soak

def soak(hc, plan, workdir, rng, runs) -> list[str]:
    """The unmodified code with real preemptive threads (real threading / ThreadPoolExecutor); tensors
    and callback sleep for random sub-millisecond times; the oracle's observations are taken under a lock."""
    import threading
    from onnx_ir import external_data as ed
    bad = []
    for r in range(runs):
        wd = os.path.join(workdir, "soak")
        shutil.rmtree(wd, ignore_errors=True)
        model, objs = build_model(hc, wd)
        out = os.path.join(wd, "out")
        os.makedirs(out)
        mu = threading.Lock()
        st = {"in_cb": 0, "mat": 0, "maxmat": 0, "cb": [], "use": {}, "problems": [], "wcount": {}}
        delays = [rng.random() * 0.0008 for _ in range(64)]
        budgets = []

        def hook(tensor, file, base, st=st, mu=mu, delays=delays):
            o = tensor._c09_obj
            held = {"n": 0}

            def account(n):
                with mu:
                    st["mat"] += n - held["n"]
                    held["n"] = n
                    st["maxmat"] = max(st["maxmat"], st["mat"])
            with mu:
                st["wcount"][o] = st["wcount"].get(o, 0) + 1
                st["use"][o] = st["use"].get(o, 0) + 1
                if st["use"][o] > 1:
                    st["problems"].append(f"tensor object {o} used by two threads at once")
            try:
                if not tensor._c09_ext:
                    account(tensor._c09_need)
                time.sleep(delays[(o * 7 + len(st["cb"])) % 64])
                if _should_inject(tensor):
                    raise _injected(tensor, "write")
                if tensor._c09_ext:
                    def on_buffer(n):
                        account(n)
                        time.sleep(delays[(o * 3 + n) % 64] / 2)
                    base(tensor, _RecFile(file, on_buffer))
                else:
                    base(tensor, file)
            finally:
                account(0)
                with mu:
                    st["use"][o] -= 1
        for t in objs.values():
            t._c09_hook = hook
        cbfail = {i for i, t in enumerate(hc["tensors"]) if t["cbfail"]}

        def callback(tensor, info, st=st, mu=mu, delays=delays):
            with mu:
                st["in_cb"] += 1
                if st["in_cb"] > 1:
                    st["problems"].append("two threads inside the callback at once")
                st["cb"].append(info.index)
            try:
                time.sleep(delays[info.index % 64])
                if info.index in cbfail:
                    raise _injected(hc["tensors"][info.index].get("exc", "runtime"), "callback")
            finally:
                with mu:
                    st["in_cb"] -= 1
        orig_budget = ed._ByteBudget

        class Budget(orig_budget):
            def __init__(self, capacity):
                super().__init__(capacity)
                budgets.append(self)
        base_threads = threading.active_count()
        ed._ByteBudget = Budget
        box = {}

        class _Flag:
            open_failed = False
            nopen = 0
            handles = []
        _Flag.handles = []
        ed.open = _failing_open(_Flag, hc)

        def call(box=box, model=model, out=out, callback=callback, objs=objs):
            try:
                ret = invoke_save(hc, model, objs, out, callback, hc["max_workers"], hc["cap"])
                box["outcome"] = "ok"
                box["bindings"] = bindings_of(hc, model, ret)
            except BaseException as e:  # noqa: BLE001
                box["outcome"] = "raise:" + type(e).__name__
        try:
            with _chunk(hc):
                # the save runs in its own (daemon) thread so that a real deadlock is reported, not suffered
                th = threading.Thread(target=call, daemon=True)
                th.start()
                th.join(30.0)
        finally:
            ed._ByteBudget = orig_budget
            if "open" in vars(ed):
                del ed.open
        if th.is_alive():
            return [f"save does not terminate with real threads (no progress for 30 s): run {r}"]
        outcome = box["outcome"]
        with mu:
            if st["in_cb"] or any(st["use"].values()):
                st["problems"].append("save returned while a callback / write was running")
        if threading.active_count() > base_threads:
            time.sleep(0.05)
            if threading.active_count() > base_threads:
                st["problems"].append("worker threads still alive after save returned")
        if any(not f.closed for f in _Flag.handles):
            st["problems"].append("worker file descriptors still open after save returned")
        for b in budgets:
            if b._in_flight != 0 or b._oversized_active:
                st["problems"].append(f"budget not released: in_flight={b._in_flight} oversized={b._oversized_active}")
        res = {"sched_outcome": "finished", "problems": st["problems"], "outcome": outcome, "message": "",
               "cb_log": [(i, "?") for i in st["cb"]], "files": _list_files(out), "nbudgets": 0,
               "max_inflight": 0, "max_materialised": st["maxmat"], "write_counts": dict(st["wcount"]),
               "open_failed": _Flag.open_failed, "bindings": box.get("bindings")}
        for t in objs.values():
            t._c09_hook = None
        shutil.rmtree(wd, ignore_errors=True)
        b = oracle(hc, plan, res)
        if b:
            bad += b
            break
    return bad


# --------------------------------------------------------------------------- correspondence drivers

def check_traces(ck, cases, tag) -> list[int]:
    """Indices of runs whose observed trace is NOT a path of the model LTS with the same observations."""
    import concurrent.futures as cf
    chunks = [(i, cases[i:i + 100]) for i in range(0, len(cases), 100)]
    failing = []

    def one(arg):
        off, chunk = arg
        rc, out = ck.coq_eval(cases_text(chunk), f"{tag}_{off}")
        if rc != 0:
            raise RuntimeError(f"case file {tag}_{off} did not compile:\n{out[-3000:]}")
        return [off + j for j in common.parse_nat_list(out)]
    with cf.ThreadPoolExecutor(max_workers=4) as ex:
        for r in ex.map(one, chunks):
            failing += r
    return failing


def function_grid(ck) -> list[str]:
    """The generated budget arithmetic against the real _ByteBudget / _reservation_bytes (single thread,
    non-blocking calls only), compared inside Coq."""
    import onnx_ir as ir
    from onnx_ir import external_data as ed
    rows = []
    for cap in [-3, 0, 1, 2, 5, 8, 1 << 30]:
        for n1 in [-2, 0, 1, 2, 5, 8, 9, 100, (1 << 30) + 1]:
            b = ed._ByteBudget(cap)
            t1 = b.acquire(n1)
            s1 = (b._in_flight, bool(b._oversized_active))
            # a second, independent reservation that fits (never blocks): 0 bytes, or an oversized one if none is active
            n2 = 0 if s1[1] else max(cap, 1) + 7
            t2 = b.acquire(n2)
            s2 = (b._in_flight, bool(b._oversized_active))
            b.release(t1)
            s3 = (b._in_flight, bool(b._oversized_active))
            b.release(t2)
            s4 = (b._in_flight, bool(b._oversized_active))
            rows.append((cap, b._capacity, n1, t1, s1, n2, t2, s2, s3, s4))
    mem = ir.Tensor(np.zeros(3, dtype=np.uint8))
    ext = ir.ExternalTensor("x.bin", 0, 3, ir.DataType.UINT8, shape=ir.Shape([3]), name="e", base_dir=".")
    rrows = []
    from onnx_ir import _core
    for ln in [0, 1, 5, REAL_CHUNK - 1, REAL_CHUNK, REAL_CHUNK + 1, 5 * REAL_CHUNK]:
        rrows.append((False, ln, _core._EXTERNAL_TENSOR_COPY_CHUNK_SIZE, ed._reservation_bytes(mem, ln)))
        rrows.append((True, ln, _core._EXTERNAL_TENSOR_COPY_CHUNK_SIZE, ed._reservation_bytes(ext, ln)))
    st = lambda s: f"({cZ(s[0])}, {cbool(s[1])})"  # noqa: E731
    text = (CASE_HEADER + "Open Scope Z_scope.\n"
            "Definition st := (Z * bool)%type.\n"
            "Definition st_eqb (a b : st) := Z.eqb (fst a) (fst b) && Bool.eqb (snd a) (snd b).\n"
            "Definition acq (C : Z) (s : st) (n : Z) : Z * st :=\n"
            "  let a := acquire_amount n in\n"
            "  if acquire_is_oversized a C then (oversized_token, (fst s, true))\n"
            "  else (a, (acquire_regular_update (fst s) a, snd s)).\n"
            "Definition rel (s : st) (r : Z) : st :=\n"
            "  if release_is_oversized r then (fst s, false) else (release_regular_update (fst s) r, snd s).\n"
            "Definition rows : list (Z * Z * Z * Z * st * Z * Z * st * st * st) :=\n  "
            + clist(f"({cZ(a)}, {cZ(b)}, {cZ(c)}, {cZ(d)}, {st(e)}, {cZ(f)}, {cZ(g)}, {st(h)}, {st(i)}, {st(j)})"
                    for a, b, c, d, e, f, g, h, i, j in rows) + ".\n"
            "Definition ok (x : Z * Z * Z * Z * st * Z * Z * st * st * st) : bool :=\n"
            "  let '(cap, C, n1, t1, s1, n2, t2, s2, s3, s4) := x in\n"
            "  let '(t1', s1') := acq C (0, false) n1 in let '(t2', s2') := acq C s1' n2 in\n"
            "  Z.eqb (budget_capacity cap) C && Z.eqb t1 t1' && st_eqb s1 s1' && Z.eqb t2 t2' && st_eqb s2 s2'\n"
            "  && st_eqb s3 (rel s2' t1') && st_eqb s4 (rel (rel s2' t1') t2').\n"
            "Definition rrows : list (bool * Z * Z * Z) :=\n  "
            + clist(f"({cbool(a)}, {cZ(b)}, {cZ(c)}, {cZ(d)})" for a, b, c, d in rrows) + ".\n"
            "Definition rok (x : bool * Z * Z * Z) : bool :=\n"
            "  let '(e, n, ch, r) := x in Z.eqb (reservation_bytes e n ch) r && Z.eqb ch EXTERNAL_TENSOR_COPY_CHUNK_SIZE.\n"
            "Eval vm_compute in (failing ok rows ++ map (fun i => 1000 + i)%nat (failing rok rrows)).\n")
    failing = ck.coq_failing(text, "cases_fn")
    ck.count(len(rows) + len(rrows))
    ck.hist("function_grid", "_ByteBudget acquire/release", len(rows))
    ck.hist("function_grid", "_reservation_bytes", len(rrows))
    return [json.dumps(rows[i] if i < 1000 else rrows[i - 1000], default=str) for i in failing]


class Collector:
    """Runs configurations through schedules; keeps oracle failures and a sample of traces for Coq."""

    def __init__(self, ck, trace_budget):
        self.ck = ck
        self.wd = ck.scratch
        self.trace_budget = trace_budget
        self.cases = []
        self.failures = []          # (hc, plan, res, bad)
        self.plans = {}
        self.nruns = 0
        self.poisoned = False

    def plan(self, hc):
        k = common.digest(hc)
        if k not in self.plans:
            no_fail = json.loads(json.dumps(hc))
            self.plans[k] = reference(no_fail, self.wd)
        return self.plans[k]

    def record(self, hc, plan, res, kind, keep_trace=True):
        ck = self.ck
        self.nruns += 1
        ck.count()
        ck.hist("schedule_source", kind)
        ck.hist("outcomes", str(res["outcome"]) if res["sched_outcome"] == "finished" else str(res["sched_outcome"][0]))
        codes = {s[1] for s in res["steps"]}
        for c in codes:
            ck.hist("event_codes_seen_in_runs", str(c))
        bad = oracle(hc, plan, res)
        if bad:
            self.failures.append((hc, plan, res, bad))
        if res["sched_outcome"] != "finished" and res["sched_outcome"][0] == "timeout":
            self.poisoned = True        # an OS thread is stuck inside the implementation: stop exploring
        # non-trivial: contention actually happened (a thread slept on the budget, an oversized reservation,
        # an error path with cancellation, or a two-level run)
        if codes & {10, 11, 33} or plan["outer"]:
            ck.nontriv((hc, res["choices"], res["picks"]))
        if keep_trace and res["sched_outcome"] == "finished" and len(self.cases) < self.trace_budget:
            self.cases.append((hc, plan, res))
        return bad


def replay_dict(hc, res, bad, kind="oracle"):
    return {"kind": kind, "hc": hc, "choices": res.get("choices"), "picks": res.get("picks"), "failures": bad,
            "how": "./check C09 --replay <this file> re-runs unload_from_model under the cooperative scheduler "
                   "with exactly these scheduling choices and prints the oracle's verdict"}


def shrink(ck, col, hc, rng, tries=150):
    """Smaller configuration that still fails under some schedule (drop tensors, then failures)."""
    def find(h):
        try:
            plan = reference(h, col.wd)
        except Exception:  # noqa: BLE001
            return None
        if len(h["tensors"]) < 2:
            return None
        for i in range(tries):
            chooser = pct_chooser(random.Random(rng.random())) if i % 2 else random_chooser(random.Random(rng.random()))
            pr = random.Random(i)
            res = run_coop(h, plan, col.wd, chooser, pickfn=lambda n, pr=pr: pr.randrange(n))
            bad = oracle(h, plan, res)
            if bad:
                return res, bad
        return None
    cur, best = json.loads(json.dumps(hc)), None
    changed = True
    while changed:
        changed = False
        for i in range(len(cur["tensors"])):
            h = json.loads(json.dumps(cur))
            del h["tensors"][i]
            objs = sorted({t["obj"] for t in h["tensors"]})
            for t in h["tensors"]:
                t["obj"] = objs.index(t["obj"])
            r = find(h)
            if r:
                cur, best, changed = h, r, True
                break
    return cur, best


def run(ck) -> None:
    import logging
    logging.disable(logging.WARNING)
    ck.trust("Coq 8.16.1 kernel (coqc; vm_compute in case files; no native_compute)",
             "tools/translate.py expression translator + the structural extraction in harness/props/c09.py::generate "
             "(fail closed; output cross-checked against the real _ByteBudget on a grid)",
             "harness/props/c09.py: cooperative threading/concurrent.futures runtime (Lock, Condition with explicit "
             "wait set, ThreadPoolExecutor, as_completed), mapping of what happens to model events, Coq literal printer",
             "modelled not verified: the GIL; contracts of threading.Lock / Condition / ThreadPoolExecutor / "
             "as_completed (they are the LTS rules); OS semantics of several r+b descriptors writing disjoint ranges; "
             "tensor tofile()/tobytes() (C04); files_lock critical section (no blocking call inside) taken as atomic; "
             "callback=None paths")
    ck.assumptions += ["CPython 3.12 threading semantics", "POSIX file semantics for pwrite-like seek+write on separate descriptors"]
    ck.coverage["rule"] = ("a run is non-trivial when a thread slept on the budget condition, an oversized "
                           "reservation was granted, a failure cancelled queued tasks, or the two-level (sharded) "
                           "writer ran")
    generate(ck)
    ck.prove()
    rng = ck.rng
    thorough = ck.thorough
    # 1. generated arithmetic vs the real budget object
    try:
        for m in function_grid(ck)[:5]:
            ck.broken("correspondence:budget-arithmetic", m)
    except RuntimeError as e:
        ck.broken("correspondence:budget-arithmetic", str(e))
    col = Collector(ck, trace_budget=400 if not thorough else 4000)
    t_start = time.time()
    # 2. corpus (hand-written edge cases and minimised past failures): schedule given or a few random ones
    corpus_dir = os.path.join(common.CORPUS, "C09")
    if os.path.isdir(corpus_dir):
        for fn in sorted(os.listdir(corpus_dir)):
            with open(os.path.join(corpus_dir, fn)) as f:
                item = json.load(f)
            hc = item["hc"]
            plan = col.plan(hc)
            scheds = [item["choices"]] if item.get("choices") else []
            for ch in scheds:
                col.record(hc, plan, run_coop(hc, plan, col.wd, replay_chooser(ch, first_chooser)), "corpus")
            for i in range(6):
                r = random.Random(i)
                col.record(hc, plan, run_coop(hc, plan, col.wd, pct_chooser(r) if i % 2 else random_chooser(r),
                                              pickfn=lambda n, r=r: r.randrange(n)), "corpus-random")
    # 3. exhaustive exploration of small configurations (all schedules modulo state equality)
    exhaust_specs = [("tiny", 600)] * 2 if not thorough else [("tiny", 10000)] * 3 + [("small", 6000)] * 2
    exhausted = []
    for k, (size, cap_runs) in enumerate(exhaust_specs):
        hc = gen_hc(rng, size, fail=(k % 2 == 1))
        plan = col.plan(hc)
        g = explore(hc, plan, col.wd, cap_runs)
        n = 0
        try:
            while True:
                res = next(g)
                n += 1
                col.record(hc, plan, res, "dfs", keep_trace=(n % 7 == 1))
                if col.failures:
                    break
        except StopIteration as e:
            exhausted.append({"config": describe(hc, plan), "runs": n, "exhaustive": bool(e.value)})
        if col.failures:
            break
    ck.coverage["exhaustive_exploration"] = exhausted
    # 4. random and PCT schedules over wider configurations
    n_cfg = 80 if not thorough else 550
    per_cfg = 10 if not thorough else 40
    for i in range(n_cfg):
        if (col.failures and len(col.failures) > 3) or col.poisoned:
            break
        hc = gen_hc(rng, ["large", "small", "twolevel", "oneshard", "zerolen", "mixed", "extchunk", "twolevel", "aligned", "oneshard"][i % 10])
        try:
            plan = col.plan(hc)
        except SaveHung as e:
            ck.violation({"kind": "serial-save-hangs", "hc": hc, "choices": None, "picks": None, "failures": [str(e)]})
            break
        except Exception as e:  # noqa: BLE001
            ck.broken("harness:reference-save-failed", f"{hc}: {e}")
            continue
        ck.hist("configs", f"shards={'1' if len(plan['names']) == 1 else '>1'} "
                           f"inner={'serial' if all(plan['serial']) else 'parallel' if not any(plan['serial']) else 'mixed'}")
        if hc["max_shard"] is not None and len(plan["names"]) == 1:
            ck.hist("configs_special", "sharding requested, one shard, max_workers > 1")
        if any(t["ext"] and t["len"] > hc["cap"] for t in hc["tensors"]) and hc.get("chunk"):
            ck.hist("configs_special", "ExternalTensor longer than budget, userspace copy in small chunks")
        for kind in sorted({t.get("exc", "runtime") for t in hc["tensors"] if t["cbfail"] or t["wfail"]}):
            ck.hist("configs_special", f"fault kind {kind}")
        if hc.get("open_fail"):
            ck.hist("configs_special", "fault kind EMFILE on worker open")
        if hc.get("align"):
            ck.hist("configs_special", "aligned offsets")
        if hc.get("entry", "unload") != "unload":
            ck.hist("configs_special", f"entry point {hc['entry']}, zero-length tensors: "
                                       f"{sum(1 for t in hc['tensors'] if t['len'] == 0)}")
        for j in range(per_cfg):
            r = random.Random(rng.random())
            chooser = pct_chooser(r, depth=r.choice([1, 2, 3, 5])) if j % 2 else random_chooser(r)
            res = run_coop(hc, plan, col.wd, chooser, pickfn=lambda n, r=r: r.randrange(n))
            col.record(hc, plan, res, "pct" if j % 2 else "random", keep_trace=(j < 4))
        if i < 3:
            ck.sample({"config": hc, "plan": {k: v for k, v in plan.items() if k != "files"},
                       "last_trace_head": [[str(s[0]), s[1], s[2], list(s[3])] for s in res["steps"][:25]],
                       "outcome": res["outcome"]})
    ck.coverage["cooperative_runs"] = col.nruns
    ck.coverage["cooperative_wall_s"] = round(time.time() - t_start, 1)
    # 5. the recorded traces must be paths of the model LTS with the same observations
    try:
        mism = check_traces(ck, col.cases, "cases_tr") if col.cases else []
    except RuntimeError as e:
        mism = []
        ck.broken("correspondence:lts-trace", str(e))
    ck.coverage["traces_validated_against_impl"] = len(col.cases)
    for i in mism[:3]:
        hc, plan, res = col.cases[i]
        k = accepted_prefix(ck, hc, plan, res)
        ck.broken("correspondence:lts-trace", json.dumps({
            "hc": hc, "choices": res["choices"], "picks": res["picks"], "accepted_steps": k,
            "around": [[str(s[0]), s[1], s[2], list(s[3])] for s in res["steps"][max(0, k - 3):k + 2]],
            "outcome": res["outcome"], "cb_log": [i for i, _ in res["cb_log"]]}))
    # 6. real preemptive threads
    soak_cfgs = 6 if not thorough else 40
    soak_runs = 10 if not thorough else 50
    if col.failures:
        soak_cfgs = 0              # already failing under a replayable schedule: report that
    for i in range(soak_cfgs):
        hc = gen_hc(rng, ["twolevel", "large", "oneshard", "extchunk", "zerolen", "aligned", "mixed"][i % 7])
        plan = col.plan(hc)
        bad = soak(hc, plan, col.wd, rng, soak_runs)
        ck.count(soak_runs)
        ck.hist("schedule_source", "real-threads", soak_runs)
        if bad:
            col.failures.append((hc, plan, {"choices": None, "picks": None, "real_threads": True}, bad))
            break                      # a hung save may still hold real locks: do not start another one
    # 7. known findings (none recorded for C09) and violations
    for k in ck._known:
        if k.get("status") == "known":
            hc = k["witness"]["hc"]
            plan = col.plan(hc)
            res = run_coop(hc, plan, col.wd, replay_chooser(k["witness"].get("choices") or [], first_chooser))
            if oracle(hc, plan, res):
                ck.known_finding(k["key"], k["what"])
            else:
                ck.broken(f"known-finding-stale:{k['key']}", "the recorded witness no longer fails")
    reported = set()
    for hc, plan, res, bad in col.failures:
        sig = tuple(sorted({b.split(":")[0][:60] for b in bad}))
        if sig in reported:
            continue
        reported.add(sig)
        small, best = (hc, None)
        if not res.get("real_threads") and not col.poisoned:
            small, best = shrink(ck, col, hc, rng)
        if best:
            ck.violation(replay_dict(small, best[0], best[1]))
        else:
            ck.violation(replay_dict(hc, res, bad, kind="oracle-real-threads" if res.get("real_threads") else "oracle"))
    if ck.broken_items and not ck.violations:
        search(ck, col)


def search(ck, col) -> None:
    """A proof obligation or the correspondence broke but no run violated the property yet: look harder
    (more configurations, deeper PCT schedules, bounded DFS)."""
    rng = ck.rng
    deadline = time.time() + (60 if not ck.thorough else 900)
    i = 0
    while time.time() < deadline:
        i += 1
        hc = gen_hc(rng, rng.choice(["tiny", "small", "small", "large", "twolevel", "oneshard", "extchunk", "zerolen", "aligned", "mixed", "mixed"]))
        try:
            plan = col.plan(hc)
        except Exception:  # noqa: BLE001
            continue
        for j in range(25):
            r = random.Random(rng.random())
            chooser = pct_chooser(r, depth=r.choice([2, 3, 5, 8])) if j % 2 else random_chooser(r)
            res = run_coop(hc, plan, col.wd, chooser, pickfn=lambda n, r=r: r.randrange(n))
            ck.count()
            bad = oracle(hc, plan, res)
            if bad:
                small, best = shrink(ck, col, hc, rng)
                if best:
                    ck.violation(replay_dict(small, best[0], best[1], kind="oracle-after-broken-obligation"))
                else:
                    ck.violation(replay_dict(hc, res, bad, kind="oracle-after-broken-obligation"))
                return
        if i % 10 == 0:
            bad = soak(hc, plan, col.wd, rng, 20)
            if bad:
                ck.violation(replay_dict(hc, {"choices": None, "picks": None}, bad, kind="oracle-real-threads"))
                return


def replay(rp: dict) -> int:
    import logging
    logging.disable(logging.WARNING)
    hc = rp.get("hc")
    if hc is None:
        print("replay names a broken obligation/correspondence, no concrete input:",
              json.dumps(rp.get("broken"), indent=1)[:3000])
        return 1
    wd = os.path.join(common.SCRATCH_ROOT, f"replay-C09-{os.getpid()}")
    try:
        plan = reference(hc, wd)
        if rp.get("choices") is None:
            bad = soak(hc, plan, wd, random.Random(0), 300)
            print(json.dumps({"hc": hc, "mode": "real threads x300", "failures": bad}, indent=1))
            return 1 if bad else 0
        picks = iter(rp.get("picks") or [])
        res = run_coop(hc, plan, wd, replay_chooser(rp["choices"], first_chooser),
                       pickfn=lambda n: min(next(picks, 0), n - 1))
        bad = oracle(hc, plan, res)
        print(json.dumps({"hc": hc, "schedule_steps": len(res["choices"]), "outcome": res["outcome"],
                          "sched_outcome": res["sched_outcome"], "callbacks": res["cb_log"],
                          "max_in_flight": res["max_inflight"], "max_materialised": res["max_materialised"],
                          "failures": bad}, indent=1, default=str))
        return 1 if bad else 0
    finally:
        shutil.rmtree(wd, ignore_errors=True)

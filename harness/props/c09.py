"""C09 — concurrent external-data writing is schedule-independent, bounded and live.  (work in progress header; see bottom of docstring for the log)
"""

from __future__ import annotations

import ast
import os

import translate as T
from harness import common
from harness.common import REPO

SRC = os.path.join(REPO, "src", "onnx_ir", "external_data.py")
CORE = os.path.join(REPO, "src", "onnx_ir", "_core.py")


# --------------------------------------------------------------------------- translation (fail closed)

class _Subst(ast.NodeTransformer):
    """Replace `self._x` by the plain name `x` and caller-given sub-expressions by names."""

    def __init__(self, extra=None):
        self.extra = extra or (lambda n: None)

    def visit(self, node):
        r = self.extra(node)
        if r is not None:
            return ast.Name(id=r, ctx=ast.Load())
        return super().visit(node)

    def visit_Attribute(self, node):
        if isinstance(node.value, ast.Name) and node.value.id == "self" and node.attr.startswith("_"):
            return ast.Name(id=node.attr[1:], ctx=ast.Load())
        return self.generic_visit(node)


def _expr(e: ast.expr, params: list[tuple[str, str]], name: str, rettype: str, consts=None, extra=None) -> str:
    """One Gallina definition from one Python expression over the given (name, type) parameters."""
    e = _Subst(extra).visit(e)
    tr = T._Fn(ast.FunctionDef(name=name, args=None, body=[], decorator_list=[]), consts or {})
    env = {}
    for n, ty in params:
        tr.types[n] = ty
        env[n] = n
    text, ty = tr.expr(e, env)
    if ty != rettype:
        raise T.Unsupported(f"{name}: expression has type {ty}, expected {rettype}")
    used = {n.id for n in ast.walk(e) if isinstance(n, ast.Name)}
    for n, _ in params:
        if n not in used:
            raise T.Unsupported(f"{name}: parameter {n} does not occur in the source expression {ast.unparse(e)}")
    ps = " ".join(f"({n} : {ty})" for n, ty in params)
    return f"(* from `{ast.unparse(e)}` *)\nDefinition {name} {ps} : {rettype} := {text}.\n"


def _need(cond: bool, what: str):
    if not cond:
        raise T.Unsupported("source shape changed: " + what)


def _is_self_attr(n, attr) -> bool:
    return isinstance(n, ast.Attribute) and isinstance(n.value, ast.Name) and n.value.id == "self" and n.attr == attr


def _strip_doc(body):
    if body and isinstance(body[0], ast.Expr) and isinstance(body[0].value, ast.Constant) \
            and isinstance(body[0].value.value, str):
        return body[1:]
    return body


def _wait_for_guard(stmt, what) -> ast.expr:
    """`self._condition.wait_for(lambda: <guard>)` -> <guard>"""
    _need(isinstance(stmt, ast.Expr) and isinstance(stmt.value, ast.Call), what + ": wait_for call")
    c = stmt.value
    _need(isinstance(c.func, ast.Attribute) and c.func.attr == "wait_for" and _is_self_attr(c.func.value, "_condition")
          and len(c.args) == 1 and not c.keywords and isinstance(c.args[0], ast.Lambda)
          and not c.args[0].args.args, what + ": self._condition.wait_for(lambda: ...)")
    return c.args[0].body


def _with_condition(stmt, what) -> list:
    _need(isinstance(stmt, ast.With) and len(stmt.items) == 1 and stmt.items[0].optional_vars is None
          and _is_self_attr(stmt.items[0].context_expr, "_condition"), what + ": `with self._condition:`")
    return stmt.body


def generate(ck) -> bool:
    """Gen/C09Gen.v: the guards and updates of _ByteBudget.{__init__,acquire,release} and _reservation_bytes,
    taken expression by expression from the source.  The control skeleton around them (which guard is
    waited for on which branch, what is updated after it, what release does, that release notifies) is
    checked structurally here and fails closed; the hand model C09/Model.v assumes exactly this skeleton."""
    try:
        mod = T._src(SRC)
        Z, B = "Z", "bool"
        out = [T.HEADER if hasattr(T, "HEADER") else ""]
        # ---- __init__
        init = _strip_doc(T.find_function(mod, "_ByteBudget.__init__").body)
        _need(len(init) == 4, "_ByteBudget.__init__ has 4 assignments")
        tgt = [s.targets[0] for s in init if isinstance(s, ast.Assign) and len(s.targets) == 1]
        _need(len(tgt) == 4 and [t.attr for t in tgt if isinstance(t, ast.Attribute)] ==
              ["_capacity", "_in_flight", "_oversized_active", "_condition"], "__init__ fields")
        out.append(_expr(init[0].value, [("capacity", Z)], "budget_capacity", Z))
        _need(isinstance(init[1].value, ast.Constant) and init[1].value.value == 0, "_in_flight starts at 0")
        _need(isinstance(init[2].value, ast.Constant) and init[2].value.value is False, "_oversized_active starts False")
        _need(ast.unparse(init[3].value) == "threading.Condition()", "_condition = threading.Condition()")
        # ---- acquire
        acq = _strip_doc(T.find_function(mod, "_ByteBudget.acquire").body)
        _need(len(acq) == 3, "acquire: amount=..., with ..., return amount")
        a0 = acq[0]
        _need(isinstance(a0, ast.Assign) and isinstance(a0.targets[0], ast.Name) and a0.targets[0].id == "amount",
              "acquire: amount = ...")
        out.append(_expr(a0.value, [("nbytes", Z)], "acquire_amount", Z))
        body = _with_condition(acq[1], "acquire")
        _need(len(body) == 3 and isinstance(body[0], ast.If) and not body[0].orelse, "acquire: if oversized: ...")
        out.append(_expr(body[0].test, [("amount", Z), ("capacity", Z)], "acquire_is_oversized", B))
        ob = body[0].body
        _need(len(ob) == 3, "acquire oversized branch: wait_for, set flag, return -1")
        out.append(_expr(_wait_for_guard(ob[0], "acquire oversized"), [("oversized_active", B)],
                         "acquire_oversized_guard", B))
        _need(isinstance(ob[1], ast.Assign) and _is_self_attr(ob[1].targets[0], "_oversized_active")
              and isinstance(ob[1].value, ast.Constant) and ob[1].value.value is True,
              "acquire oversized: self._oversized_active = True")
        _need(isinstance(ob[2], ast.Return), "acquire oversized: return token")
        tok = T.const_int(ob[2].value)
        out.append(f"Definition oversized_token : Z := {T.coq_Z(tok)}.\n")
        out.append(_expr(_wait_for_guard(body[1], "acquire regular"),
                         [("in_flight", Z), ("amount", Z), ("capacity", Z)], "acquire_regular_guard", B))
        u = body[2]
        _need(isinstance(u, ast.AugAssign) and _is_self_attr(u.target, "_in_flight"), "acquire: self._in_flight += ...")
        upd = ast.BinOp(left=ast.Attribute(value=ast.Name(id="self", ctx=ast.Load()), attr="_in_flight", ctx=ast.Load()),
                        op=u.op, right=u.value)
        out.append(_expr(upd, [("in_flight", Z), ("amount", Z)], "acquire_regular_update", Z))
        _need(isinstance(acq[2], ast.Return) and isinstance(acq[2].value, ast.Name) and acq[2].value.id == "amount",
              "acquire: return amount")
        # ---- release
        rel = _strip_doc(T.find_function(mod, "_ByteBudget.release").body)
        _need(len(rel) == 1, "release: one with block")
        rb = _with_condition(rel[0], "release")
        _need(len(rb) == 2 and isinstance(rb[0], ast.If) and len(rb[0].body) == 1 and len(rb[0].orelse) == 1,
              "release: if/else then notify_all")
        out.append(_expr(rb[0].test, [("reservation", Z)], "release_is_oversized", B))
        s1 = rb[0].body[0]
        _need(isinstance(s1, ast.Assign) and _is_self_attr(s1.targets[0], "_oversized_active")
              and isinstance(s1.value, ast.Constant) and s1.value.value is False,
              "release oversized: self._oversized_active = False")
        s2 = rb[0].orelse[0]
        _need(isinstance(s2, ast.AugAssign) and _is_self_attr(s2.target, "_in_flight"), "release: self._in_flight -= ...")
        upd = ast.BinOp(left=ast.Attribute(value=ast.Name(id="self", ctx=ast.Load()), attr="_in_flight", ctx=ast.Load()),
                        op=s2.op, right=s2.value)
        out.append(_expr(upd, [("in_flight", Z), ("reservation", Z)], "release_regular_update", Z))
        _need(ast.unparse(rb[1]) == "self._condition.notify_all()", "release ends with self._condition.notify_all()")
        # ---- _reservation_bytes
        rsv = _strip_doc(T.find_function(mod, "_reservation_bytes").body)
        _need(len(rsv) == 2 and isinstance(rsv[0], ast.If) and not rsv[0].orelse and len(rsv[0].body) == 1
              and isinstance(rsv[0].body[0], ast.Return) and isinstance(rsv[1], ast.Return),
              "_reservation_bytes: if isinstance(...): return ...; return ...")
        _need(ast.unparse(rsv[0].test) == "isinstance(tensor, _core.ExternalTensor)",
              "_reservation_bytes tests isinstance(tensor, _core.ExternalTensor)")
        ctext, chunk = T.translate_int_constant(CORE, "_EXTERNAL_TENSOR_COPY_CHUNK_SIZE")
        out.append(ctext)

        def chunk_name(n):
            return "chunk" if ast.unparse(n) == "_core._EXTERNAL_TENSOR_COPY_CHUNK_SIZE" and isinstance(n, ast.Attribute) else None
        e_ext = _expr(rsv[0].body[0].value, [("tensor_length", Z), ("chunk", Z)], "reservation_bytes_external", Z,
                      extra=chunk_name)
        e_mem = _expr(rsv[1].value, [("tensor_length", Z)], "reservation_bytes_memory", Z)
        out += [e_ext, e_mem]
        out.append("Definition reservation_bytes (is_external : bool) (tensor_length : Z) (chunk : Z) : Z :=\n"
                   "  if is_external then reservation_bytes_external tensor_length chunk "
                   "else reservation_bytes_memory tensor_length.\n")
        # ---- _write_tensor_with_budget_at: acquire / try write / finally release
        wt = _strip_doc(T.find_function(mod, "_write_tensor_with_budget_at").body)
        _need(len(wt) == 3 and isinstance(wt[2], ast.Try) and len(wt[2].finalbody) == 1 and not wt[2].handlers,
              "_write_tensor_with_budget_at: if budget is None..., reservation = acquire, try/finally")
        _need(ast.unparse(wt[1]) == "reservation = budget.acquire(_reservation_bytes(tensor, length))",
              "reservation = budget.acquire(_reservation_bytes(tensor, length))")
        _need(ast.unparse(wt[2].finalbody[0]) == "budget.release(reservation)", "finally: budget.release(reservation)")
        digests = {q: T.ast_digest(T.find_function(mod, q)) for q in (
            "_ByteBudget.acquire", "_ByteBudget.release", "_write_tensor_with_budget_at",
            "_ExternalDataWriter._write_parallel", "_ExternalDataWriter._write_serial",
            "_ExternalDataWriter._write_tensor", "_write_external_tensors")}
        ck.coverage["modelled_function_ast_digests"] = digests
    except (T.Unsupported, SyntaxError, OSError, AttributeError, IndexError) as e:
        ck.gen_failed("C09Gen", e)
        return False
    ck.gen("C09Gen", "\n".join(out))
    return True
